#!/usr/bin/env python3
"""Regenerates /verif/MANIFEST.json from lib/specs.py (single source of truth)."""
import json
import os
import sys

ROOT = os.path.dirname(os.path.dirname(os.path.abspath(__file__)))
sys.path.insert(0, os.path.join(ROOT, "lib"))
import specs  # noqa: E402

props = [json.loads(l)["id"] for l in open(os.path.join(ROOT, "properties.jsonl")) if l.strip()]
checks, na = [], []
for pid in props:
    sp = specs.SPECS.get(pid)
    if not sp or sp.get("unclaimed") or pid not in specs.READY:
        na.append({"property_id": pid, "reason": (sp or {}).get("unclaimed", "check not built yet (work in progress); nothing is claimed for this property")})
        continue
    m = sp["manifest"]
    checks.append({
        "property_id": pid,
        "quick_cmd": "./check %s --tier quick" % pid,
        "thorough_cmd": "./check %s --tier thorough" % pid,
        "evidence_file": "/verif/evidence/%s.json" % pid,
        "replay_cmd_template": "./check %s --replay {path}" % pid,
        "engine": "harness",
        "technique": m["technique"],
        "level_claimed": {"category": "exploration", "text": m["text"], "design_ref": "DESIGN.md section 4, " + pid},
        "level_note": m["note"],
    })
doc = {
    "version": 1,
    "setup_cmd": specs.SETUP_CMD,
    "hooks": specs.HOOKS,
    "engines": [{"name": "harness", "path": "/verif/harness", "serves_properties": [c["property_id"] for c in checks],
                 "kind_free_text": "Go module of rapid (pgregory.net/rapid v1.3.0) properties, state machines and native fuzz targets compiled against /repo via a replace directive; driven by /verif/check"}],
    "checks": checks,
    "not_applicable": na,
    "notes": specs.NOTES,
}
json.dump(doc, open(os.path.join(ROOT, "MANIFEST.json"), "w"), indent=1)
print("MANIFEST.json: %d checks, %d not claimed" % (len(checks), len(na)))
