#!/usr/bin/env python3
"""Confirms a seeded defect and runs the checks against it.

  lib/seedverify.py <seed-dir> [--checks C01,C05] [--tier quick] [--skip-suite] [--keep]

<seed-dir> holds patch.diff, demo/ (files laid out relative to the repository root), run.sh and meta.json
(meta.json["property"] names the property the change breaks). Steps, all in a throw-away worktree of /repo's HEAD
under /tmp (removed afterwards together with its build output):

  1. demo on the unchanged tree            -> must exit 0
  2. git apply patch.diff; go build ./...  -> must compile
  3. demo on the changed tree              -> must exit non-zero
  4. demo removed; pandora's own suite     -> must pass (serialised through /tmp/pandora-suite.lock: fixed ports)
  5. VERIF_REPO=<worktree> ./check <ID>    -> recorded: exit code, VIOLATION lines

Prints one JSON document; exit 0 iff steps 1-4 confirm the seed (whatever the checks said).
"""
import argparse
import json
import os
import shutil
import subprocess
import sys
import time

ROOT = os.path.dirname(os.path.dirname(os.path.abspath(__file__)))
ENV = dict(os.environ, GOFLAGS="-mod=mod", GOPROXY="off", GOSUMDB="off", GOTOOLCHAIN="local")


def sh(cmd, cwd, timeout=1800, env=None):
    t0 = time.time()
    try:
        p = subprocess.run(cmd, cwd=cwd, env=env or ENV, shell=isinstance(cmd, str), stdout=subprocess.PIPE,
                           stderr=subprocess.STDOUT, text=True, errors="replace", timeout=timeout)
        return p.returncode, p.stdout, time.time() - t0
    except subprocess.TimeoutExpired as e:
        out = e.stdout.decode("utf8", "replace") if isinstance(e.stdout, bytes) else (e.stdout or "")
        return -9, out + "\n[timeout]", time.time() - t0


def copy_demo(seed, wt):
    added = []
    demo = os.path.join(seed, "demo")
    for base, _, files in os.walk(demo):
        for fn in files:
            src = os.path.join(base, fn)
            rel = os.path.relpath(src, demo)
            dst = os.path.join(wt, rel)
            os.makedirs(os.path.dirname(dst), exist_ok=True)
            shutil.copy(src, dst)
            added.append(dst)
    return added


def main():
    ap = argparse.ArgumentParser()
    ap.add_argument("seed")
    ap.add_argument("--checks")
    ap.add_argument("--tier", default="quick")
    ap.add_argument("--skip-suite", action="store_true")
    ap.add_argument("--skip-demo", action="store_true")
    ap.add_argument("--keep", action="store_true")
    ap.add_argument("--seeds", default="1", help="comma separated VERIF_SEED values for step 5")
    ap.add_argument("--save-regress", action="store_true",
                    help="keep the smallest failing case of step 5 as /verif/replays/<ID>/regress-seeded-<name>.json "
                         "(only if it passes 3 replays on the real tree)")
    a = ap.parse_args()
    seed = os.path.abspath(a.seed)
    meta = json.load(open(os.path.join(seed, "meta.json")))
    pid = meta["property"]
    checks = a.checks.split(",") if a.checks else [pid]
    name = os.path.basename(os.path.dirname(seed)) + "-" + os.path.basename(seed) if seed.startswith("/tmp/") else os.path.basename(seed)
    # a change seeded for one property may be observable only where another property's check looks (e.g. the CLI reader)
    extra_p = os.path.join(ROOT, "seeded", "EXTRA_CHECKS.json")
    if not a.checks and os.path.exists(extra_p):
        checks += [c for c in json.load(open(extra_p)).get(name, []) if c not in checks]
    wt = "/tmp/sv-%s-%d" % (name, os.getpid())
    res = {"seed": seed, "property": pid, "worktree": wt}
    subprocess.run(["git", "-C", "/repo", "worktree", "remove", "--force", wt], stdout=subprocess.DEVNULL, stderr=subprocess.DEVNULL)
    rc, out, _ = sh(["git", "-C", "/repo", "worktree", "add", "-q", "--detach", wt, "HEAD"], "/")
    if rc != 0:
        print(out)
        sys.exit(2)
    ok = True
    try:
        runsh = os.path.join(seed, "run.sh")
        if not a.skip_demo:
            added = copy_demo(seed, wt)
            rc, out, dt = sh(["bash", runsh], wt, timeout=900)
            res["demo_on_original"] = {"rc": rc, "s": round(dt, 1), "tail": out[-600:] if rc != 0 else ""}
            ok &= rc == 0
        rc, out, _ = sh(["git", "apply", os.path.join(seed, "patch.diff")], wt)
        res["apply"] = {"rc": rc, "out": out[-400:]}
        if rc != 0:
            ok = False
            raise SystemExit
        rc, out, _ = sh("go build ./... && go vet -tags verif ./cli ./core/schedule >/dev/null 2>&1; go build -tags verif ./...", wt)
        res["build"] = {"rc": rc, "out": out[-800:]}
        if rc != 0:
            ok = False
            raise SystemExit
        if not a.skip_demo:
            rc, out, dt = sh(["bash", runsh], wt, timeout=900)
            res["demo_on_changed"] = {"rc": rc, "s": round(dt, 1), "tail": out[-1500:]}
            ok &= rc != 0
            for f in added:
                os.remove(f)
        if not a.skip_suite:
            # only the packages under tests/ bind fixed ports; the rest of the suite runs beside other verifications
            rc, out, dt = sh("go test -vet=off -count=1 -timeout 25m $(go list ./... | grep -v /tests/); r1=$?; "
                             "flock /tmp/pandora-suite.lock go test -vet=off -count=1 -timeout 25m ./tests/...; r2=$?; "
                             "[ $r1 -eq 0 ] && [ $r2 -eq 0 ]", wt, timeout=2400)
            bad = [l for l in out.splitlines() if l.startswith("FAIL") or l.startswith("--- FAIL") or l.startswith("panic")]
            res["suite"] = {"rc": rc, "s": round(dt, 1), "failing": bad[:20]}
            if rc != 0:
                # timing-based tests of the suite (e.g. TestProvider_runPreloaded/context_deadline_exceeded) flake on a busy
                # machine with and without any patch: a failing package is re-run alone, up to 3 times
                pkgs = sorted({l.split()[1] for l in out.splitlines() if l.startswith("FAIL\t") and len(l.split()) > 1})
                still = []
                for pk in pkgs:
                    for _ in range(3):
                        lock = "flock /tmp/pandora-suite.lock " if "/tests/" in pk else ""
                        rc2, _, _ = sh(lock + "go test -vet=off -count=1 " + pk, wt, timeout=1200)
                        if rc2 == 0:
                            break
                    else:
                        still.append(pk)
                res["suite"]["rerun_failing_packages"] = pkgs
                res["suite"]["still_failing"] = still
                rc = 0 if pkgs and not still else rc
            ok &= rc == 0
        res["confirmed"] = bool(ok)
        res["checks"] = {}
        for c in checks:
            for sd in a.seeds.split(","):
                env = dict(ENV, VERIF_REPO=wt, VERIF_SEED=sd)
                rc, out, dt = sh([os.path.join(ROOT, "check"), c, "--tier", a.tier], ROOT, timeout=7200, env=env)
                lines = out.splitlines()
                viol = [l for l in lines if l.startswith("VIOLATION")]
                detail = [lines[i + 1].strip()[:300] for i, l in enumerate(lines) if l.startswith("VIOLATION") and i + 1 < len(lines)]
                res["checks"]["%s@%s" % (c, sd)] = {"rc": rc, "s": round(dt, 1), "violations": len(viol), "first": detail[:2],
                                                   "infra": [l for l in lines if l.startswith("INFRA") or "BUILD-FAILED" in l][:5],
                                                   "summary": lines[-1] if lines else ""}
        res["detected"] = any(v["rc"] == 1 for v in res["checks"].values())
        if a.save_regress and res["detected"]:
            alt = os.path.join(ROOT, ".build", "alt-" + wt.strip("/").replace("/", "_"))
            for c in checks:
                rd = os.path.join(alt, "replays", c)
                cands = [os.path.join(rd, f) for f in (os.listdir(rd) if os.path.isdir(rd) else [])
                         if f.endswith(".json")]
                # shrunk failing cases first; the case that killed a process (not shrunk) only when there is nothing else
                cands.sort(key=lambda f: (f.endswith("-crash.json"), os.path.getsize(f)))
                for cand in cands[:3]:
                    dst = os.path.join(ROOT, "replays", c, "regress-seeded-%s.json" % name)
                    os.makedirs(os.path.dirname(dst), exist_ok=True)
                    shutil.copy(cand, dst)
                    good = all(sh([os.path.join(ROOT, "check"), c, "--replay", dst], ROOT, timeout=1200,
                                  env=dict(ENV))[0] == 0 for _ in range(3))
                    if good:
                        res.setdefault("regress_saved", []).append(dst)
                        break
                    os.remove(dst)
    except SystemExit:
        res["confirmed"] = False
    finally:
        if not a.keep:
            subprocess.run(["git", "-C", "/repo", "worktree", "remove", "--force", wt], stdout=subprocess.DEVNULL, stderr=subprocess.DEVNULL)
            shutil.rmtree(wt, ignore_errors=True)
            alt = os.path.join(ROOT, ".build", "alt-" + wt.strip("/").replace("/", "_"))
            shutil.rmtree(alt, ignore_errors=True)
    print(json.dumps(res, indent=1))
    sys.exit(0 if res.get("confirmed") else 1)


if __name__ == "__main__":
    main()
