#!/usr/bin/env python3
"""lib/floorfix.py < floorcheck-output : lowers every class floor that floorcheck reported with a thin margin so that the
smallest observed frequency is twice the floor (floors guard against a generator regression, not against sampling noise)."""
import os, re, sys
ROOT = os.path.dirname(os.path.dirname(os.path.abspath(__file__)))
n = 0
for line in sys.stdin:
    m = re.match(r"(C\d\d)\s+(\S+)\s+ratio ([0-9.]+) at seed \d+ \((\d+) of (\d+), floor ([0-9.e-]+)\)", line)
    if not m:
        continue
    pid, name, ratio, got, tot, floor = m.group(1), m.group(2), float(m.group(3)), int(m.group(4)), int(m.group(5)), float(m.group(6))
    if floor >= 1:
        new = max(1, int(got / 2))
        news = str(new)
    else:
        new = (got / tot) / 2.0
        news = "%.2g" % new
    p = os.path.join(ROOT, "lib", "specdir", pid + ".py")
    s = open(p).read()
    pat = re.compile(r'("%s":\s*)%s(?![0-9.])' % (re.escape(name), re.escape(m.group(6))))
    s2, k = pat.subn(lambda mm: mm.group(1) + news, s)
    if k != 1:
        print("NOT FOUND", pid, name, m.group(6)); continue
    open(p, "w").write(s2)
    n += 1
    print("%s %s: %s -> %s" % (pid, name, m.group(6), news))
print(n, "floors lowered")
