"""run specification for C12 (loaded by lib/specs.py)"""

SPEC = {
    "pkg": "c12",
    "tests": [
        # case counts are fixed inside the test (vf.Batch): 128 per process quick, 1500 thorough
        {"name": "TestStartup", "quick": 128, "thorough": 1500, "shards_quick": 3, "shards_thorough": 8, "timeout": 1500},
    ],
    "rule": ("generated startup profile trees (once/const/line/step/instance_step/composites, 1-20 instances over up to ~400 ms, "
             "pre-started at a known t0) x run mode (endless profile+ammo ended by cancel after all tokens became instances; shared "
             "finite profile outlasting / shorter than the startup; per-instance finite profile; bounded ammo) x optional gun-factory "
             "failure at instance i; in a third of the endless and per-instance cases the provider buffers its whole finite ammo set and its "
             "Run returns at once (fake provider queue = ammo count, after_last = return) while the startup profile is still releasing "
             "tokens and more ammo is queued than the run can shoot (checked afterwards: fewer ammo taken than queued) - Run returning is "
             "not 'ammo ran out', every startup token must still become an instance; in a third of the endless and bounded-ammo cases the "
             "pool-wide RPS profile has no known length: `unlimited` (120 s) alone, or a composite of 1-2 short parts (unlimited / const / once / "
             "pause, 1-40 ms, 1-12 tokens; the sections switch while the startup profile is still releasing tokens) and a 120 s tail "
             "(unlimited, or const when a head part is unlimited) - such a profile answers Left() < 0 ('unknown'), which is not "
             "'finished': it outlasts the startup and every startup token must still become an instance (shots take >= 300 us there); the real engine with recording doubles, 24 cases concurrently per process (sleep-bound). "
             "Non-trivial = >= 2 instances over >= 2 distinct startup instants; distinct = hash of the case."),
    "floors": {"TestStartup/mode_long": 0.15, "TestStartup/cut_short_ammo": 0.02, "TestStartup/cut_short_creation_failed": 0.03,
               "TestStartup/composite_startup": 0.3, "TestStartup/all_tokens_started": 0.3,
               "TestStartup/per_instance_profile_shorter_than_startup": 0.019,
               "TestStartup/provider_run_returned_early_ammo_left": 0.077,
               "TestStartup/provider_run_returned_before_last_startup_token": 0.03,
               # classes added after seeded defect C12/m7 (shared RPS profile of unknown length taken for a finished one)
               "TestStartup/shared_rps_unknown_length": 0.09, "TestStartup/shared_rps_unknown_length/long": 0.06,
               "TestStartup/shared_rps_unknown_length_startup_spread_in_time": 0.045,
               "TestStartup/shared_rps_unknown_length_all_spread_tokens_must_start": 0.02,
               "TestStartup/shared_rps_unlimited_alone": 0.01, "TestStartup/shared_rps_composite_unlimited_tail": 0.04,
               "TestStartup/shared_rps_composite_unlimited_head_const_tail": 0.015},
    "manifest": {
        "technique": "property-based testing (rapid generators, batch-parallel) of the real engine; validity predicates over measured instants",
        "text": ("Startup profiles are generated, the engine is run with recording doubles, and measured instants are compared: the k-th gun "
                 "creation never precedes the k-th startup token (reference chain of the profile's parts), ids are 0..S-1, S equals the "
                 "token count unless ammo/shared profile/creation failure/cancel cut the start short (a shared profile that cannot tell how "
                 "many tokens it has left - unlimited, or a composite with an unlimited part ahead - has not finished), and no instance stops before the "
                 "earliest instant at which ammo ran out, the shared profile was exhausted or the run was cancelled."),
        "note": ("Only measured instants are compared (a timer cannot fire early, so load can only delay creations, which the oracle "
                 "allows). Startup token times come from the C02 reference chain. Instance stop = its gun's Close instant. The one comparison with "
                 "a built-in margin (shared profile 60 ms longer than the startup: a shortfall is only accepted when the profile ended first) is "
                 "counted inconclusive_machine_load instead of failing when the per-case load probe saw sleepers woken more than 25 ms late."),
    },
    "assumptions": ["the endless-mode sub-check waits up to 15 s for all startup tokens to become instances before it cancels"],
}
