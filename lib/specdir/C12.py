"""run specification for C12 (loaded by lib/specs.py)"""

SPEC = {
    "pkg": "c12",
    "tests": [
        # case counts are fixed inside the test (vf.Batch): 128 per process quick, 1500 thorough
        {"name": "TestStartup", "quick": 128, "thorough": 1500, "shards_quick": 3, "shards_thorough": 8, "timeout": 1500},
    ],
    "rule": ("generated startup profile trees (once/const/line/step/instance_step/composites, 1-20 instances over up to ~400 ms, "
             "pre-started at a known t0) x run mode (endless profile+ammo ended by cancel after all tokens became instances; shared "
             "finite profile outlasting / shorter than the startup; per-instance finite profile; bounded ammo) x optional gun-factory "
             "failure at instance i; in a third of the endless and per-instance cases the provider buffers its whole finite ammo set and its "
             "Run returns at once (fake provider queue = ammo count, after_last = return) while the startup profile is still releasing "
             "tokens and more ammo is queued than the run can shoot (checked afterwards: fewer ammo taken than queued) - Run returning is "
             "not 'ammo ran out', every startup token must still become an instance; in a third of the endless and bounded-ammo cases the "
             "pool-wide RPS profile has no known length: `unlimited` (120 s) alone, or a composite of 1-2 short parts (unlimited / const / once / "
             "pause, 1-40 ms, 1-12 tokens; the sections switch while the startup profile is still releasing tokens) and a 120 s tail "
             "(unlimited, or const when a head part is unlimited) - such a profile answers Left() < 0 ('unknown'), which is not "
             "'finished': it outlasts the startup and every startup token must still become an instance (shots take >= 300 us there); in two thirds of the cases (all modes but the one with the 60 ms margin) the harness does NOT start the startup profile: the "
             "engine's first draw does, as in every real run, in half of those behind a gun warm-up of 10-60 ms (guns implement warmup.WarmedUp) - the profile's clock then "
             "begins no earlier than the call of Engine.Run and the return of the warm-up, and token k is due no earlier than that measured instant + its offset in the profile "
             "(a clock that ran during the warm-up shows as instances released in a burst); in a quarter of the cases the engine has 1-2 further pools before / after the "
             "judged one (startup once(1-4) + optionally 1-4 more over 2-30 ms, per-instance profiles of 1-30 shots): ids are numbered from 0 within each pool and every pool "
             "starts all its tokens; the recording guns note whether their own context (GunDeps.Ctx) was done when a shot began: in a run that was neither cancelled nor "
             "failed it never is (cutting the start short stops new instances only); the real engine with recording doubles, 24 cases concurrently per process (sleep-bound). "
             "Added after seeded defect C12/m16: discard_overflow is a dimension of every pool (true - the CLI default - in two cases of three), and in about a sixth of the cases "
             "(all modes but the one with the 60 ms margin; mostly the two in which nothing may cut the start short) the FIRST instance of the judged pool, which the pool creates "
             "synchronously, is slow to create - its gun constructor or Gun.Bind of instance 0 takes 2.3-3.3 s (a quarter: 0.2-1.5 s), so the start loop is that far behind the startup "
             "profile and the tokens that became due meanwhile are 2 s and more overdue (measured: end of the slow step vs. token times); in half of those the profile goes on behind a "
             "pause with 1-3 more instances that are due at most 1.9 s before / up to 0.3 s after the first instance is there (only the beginning of the ramp is 2 s overdue). "
             "discard_overflow is about requests that are 2 s behind the request schedule (docs/eng/best_practices/discard-overflow.md); the startup profile says how many instances "
             "there will be (docs/eng/startup.md): all its tokens become instances however late, ids stay 0..S-1. "
             "Non-trivial = >= 2 instances over >= 2 distinct startup instants; distinct = hash of the case."),
    "floors": {"TestStartup/engine_starts_the_profile": 0.25, "TestStartup/engine_starts_the_profile_after_warmup": 0.12,
               "TestStartup/warmup_then_startup_spread_in_time": 0.05, "TestStartup/warmup_longer_than_startup_spread": 0.03,
               "TestStartup/several_pools": 0.1, "TestStartup/several_pools_ge_2_instances_each": 0.07,
               "TestStartup/start_cut_short_gun_contexts_checked": 0.05, "TestStartup/mode_long": 0.15, "TestStartup/cut_short_ammo": 0.02, "TestStartup/cut_short_creation_failed": 0.03,
               "TestStartup/composite_startup": 0.3, "TestStartup/all_tokens_started": 0.3,
               "TestStartup/per_instance_profile_shorter_than_startup": 0.019,
               "TestStartup/provider_run_returned_early_ammo_left": 0.077,
               "TestStartup/provider_run_returned_before_last_startup_token": 0.03,
               # classes added after seeded defect C12/m7 (shared RPS profile of unknown length taken for a finished one)
               "TestStartup/shared_rps_unknown_length": 0.09, "TestStartup/shared_rps_unknown_length/long": 0.06,
               "TestStartup/shared_rps_unknown_length_startup_spread_in_time": 0.045,
               "TestStartup/shared_rps_unknown_length_all_spread_tokens_must_start": 0.02,
               "TestStartup/shared_rps_unlimited_alone": 0.01, "TestStartup/shared_rps_composite_unlimited_tail": 0.04,
               "TestStartup/shared_rps_composite_unlimited_head_const_tail": 0.015,
               # classes added after seeded defect C12/m16 (discard_overflow applied to startup tokens that are served 2 s and more late)
               "TestStartup/discard_overflow": 0.4, "TestStartup/slow_first_instance": 0.08,
               "TestStartup/slow_first_instance/factory": 0.03, "TestStartup/slow_first_instance/bind": 0.03,
               "TestStartup/slow_first_instance_lt_2s": 0.015, "TestStartup/slow_first_instance_ge_2s": 0.05,
               "TestStartup/startup_tokens_ge_2s_overdue_discard_overflow": 0.035,
               "TestStartup/startup_tokens_ge_2s_overdue_discard_overflow_all_must_start": 0.02,
               "TestStartup/startup_tokens_partly_ge_2s_overdue_discard_overflow_all_must_start": 0.004,
               "TestStartup/startup_tokens_ge_2s_overdue_no_discard_overflow_all_must_start": 0.003},
    "manifest": {
        "technique": "property-based testing (rapid generators, batch-parallel) of the real engine; validity predicates over measured instants",
        "text": ("Startup profiles are generated, the engine is run with recording doubles, and measured instants are compared: the k-th gun "
                 "creation never precedes the k-th startup token (reference chain of the profile's parts), ids are 0..S-1, S equals the "
                 "token count (per pool when the engine has several; the profile's clock starts with the pool's instance start, after the gun warm-up) unless ammo/shared profile/creation failure/cancel cut the start short (a shared profile that cannot tell how "
                 "many tokens it has left - unlimited, or a composite with an unlimited part ahead - has not finished; a token that is served late, also 2 s and more late "
                 "with discard_overflow on because the first instance was slow to create, is no such reason), and no instance stops before the "
                 "earliest instant at which ammo ran out, the shared profile was exhausted or the run was cancelled."),
        "note": ("Only measured instants are compared (a timer cannot fire early, so load can only delay creations, which the oracle "
                 "allows). Startup token times come from the C02 reference chain. Instance stop = its gun's Close instant. The one comparison with "
                 "a built-in margin (shared profile 60 ms longer than the startup: a shortfall is only accepted when the profile ended first) is "
                 "counted inconclusive_machine_load instead of failing when the per-case load probe saw sleepers woken more than 25 ms late."),
    },
    "assumptions": ["the endless-mode sub-check waits up to 15 s for all startup tokens to become instances before it cancels",
                    "the slow creation of the first instance is a plain sleep (2.3-3.3 s) in the gun constructor / in Bind of instance 0; a process stall of 2 s in the middle of a ramp is not generated"],
}
