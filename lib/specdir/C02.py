"""run specification for C02 (loaded by lib/specs.py)"""

SPEC = {
    "pkg": "c02",
    "tests": [
        {"name": "TestSeqFinite", "quick": 4000, "thorough": 400000, "shards_quick": 2, "shards_thorough": 8, "timeout": 1500},
        {"name": "TestConcFinite", "quick": 600, "thorough": 40000, "shards_quick": 3, "shards_thorough": 8, "timeout": 1500,
         "race_thorough": True},
        {"name": "TestSeqUnlimited", "quick": 400, "thorough": 16000, "shards_quick": 4, "shards_thorough": 16, "timeout": 1500},
        {"name": "TestConcUnlimited", "quick": 400, "thorough": 16000, "shards_quick": 4, "shards_thorough": 16, "timeout": 1500},
        {"name": "TestImplicitStart", "quick": 2400, "thorough": 160000, "shards_quick": 8, "shards_thorough": 16, "timeout": 2400,
         "race_thorough": True},
        {"name": "TestUnlimitedStartRace", "quick": 800, "thorough": 40000, "shards_quick": 8, "shards_thorough": 16, "timeout": 2400,
         "race_thorough": True},
        {"name": "TestInterleavings", "quick": 6000, "thorough": 600000, "shards_quick": 3, "shards_thorough": 16, "timeout": 1500},
    ],
    "rule": ("rapid-generated schedule trees (depth <= 3, <= 5 children; leaves once/const/line/step/instance_step/unlimited, zero-token "
             "and empty parts anywhere; in the finite tests also instance_step parts whose `to` is below `from` - omitted (0), anywhere below, or "
             "less than a step below: no step fits, `from` tokens at once, the part finishes at its own start - alone and before further parts) judged against manual chaining of separately drained parts. TestSeqFinite: scripted Next/Left "
             "by one caller in virtual time, optional on-finish wrapper, config or constructor path. TestConcFinite: 2-8 free-running "
             "goroutines, 4 rounds per case, multiset + linearisability windows for Left. TestSeqUnlimited/TestConcUnlimited: real time, "
             "1-4 ms parts, callers wait for each token as coreutil.Waiter does. TestImplicitStart: 2-8 goroutines released together "
             "race for the first Next of an UNSTARTED finite schedule (what the engine's instances do), 12 rounds per case; one start "
             "instant inside the measured window must explain every token. TestUnlimitedStartRace: 200 trials per case; a fresh unlimited(d) part (bare or first in a "
             "composite) is started implicitly by Next (or explicitly by one Start) while 1-4 other goroutines poll Left(); every "
             "answer that comes back before release+d must be negative. TestInterleavings: 2-3 callers whose interleaving at the "
             "composite's lock-free yield points (hook) is dictated by a drawn choice list. Non-trivial = >= 2 token-bearing parts and "
             "(nesting depth >= 2 or a zero-token part [seq]; any [conc]; >= 2 tokens [implicit start]; an unknown-length part that is not first [unlimited]; "
             "a lock-upgrade point reached [interleavings]); distinct = hash of tree+script(+choices)."),
    "floors": {"TestSeqUnlimited/unknown_not_first": 0.15, "TestSeqFinite/zero_token_part": 0.2, "TestConcFinite/left_callers": 0.3,
               "TestConcFinite/callers_ge_4": 0.3, "TestInterleavings/next_upgrade_contended": 0.1,
               "TestInterleavings/left_upgrade_point": 0.05, "TestImplicitStart/single_elementary_profile": 0.3,
               "TestImplicitStart/callers_ge_4": 0.3, "TestSeqUnlimited/left_negative_seen": 0.1,
               "TestSeqFinite/istep_to_below_from_before_parts": 0.15, "TestSeqFinite/istep_to_below_from_by_a_step": 0.12,
               "TestConcFinite/istep_to_below_from_before_parts": 0.12, "TestImplicitStart/istep_to_below_from": 0.1},
    "manifest": {
        "technique": "model-based property testing (rapid): manual-chaining reference, linearisability windows, harness-scheduled interleavings at hook yield points",
        "text": ("Schedule trees are generated and compared with a reference that drains each elementary part alone from the finish "
                 "of its predecessor: exact token sequence sequentially, exact multiset + per-caller monotonicity + Left() windows "
                 "under 2-8 concurrent callers, interval oracles in real time for unlimited parts, an implicit-start race (one common start instant within the measured window), and deterministic enumeration-by-"
                 "sampling of interleavings at the composite's lock-upgrade points. Exploration: interleavings are sampled, not exhausted."),
        "note": ("Trusts the elementary parts (judged by C01) as reference; goroutine ids parsed from runtime.Stack; real-time sub-checks "
                 "compare only measured instants that bracket each call, so load can make a sample inconclusive, never wrong. "
                 "Interleaving control exists only at the hook's four yield points, on flat composites."),
    },
    "assumptions": ["callers of trees with unlimited parts wait for a token's time before drawing the next (coreutil.Waiter behaviour)",
                    "Left() may stay negative while an unlimited part ahead has not been started, even if its window has passed on the clock"],
}
