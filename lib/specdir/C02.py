"""run specification for C02 (loaded by lib/specs.py)"""

SPEC = {
    "pkg": "c02",
    "tests": [
        {"name": "TestSeqFinite", "quick": 4000, "thorough": 400000, "shards_quick": 2, "shards_thorough": 8, "timeout": 1500},
        {"name": "TestSeqDense", "quick": 320, "thorough": 16000, "shards_quick": 4, "shards_thorough": 16, "timeout": 1500},
        {"name": "TestConcFinite", "quick": 600, "thorough": 40000, "shards_quick": 3, "shards_thorough": 8, "timeout": 1500,
         "race_thorough": True},
        {"name": "TestSeqUnlimited", "quick": 400, "thorough": 16000, "shards_quick": 4, "shards_thorough": 16, "timeout": 1500},
        {"name": "TestConcUnlimited", "quick": 400, "thorough": 16000, "shards_quick": 4, "shards_thorough": 16, "timeout": 1500},
        {"name": "TestImplicitStart", "quick": 2400, "thorough": 160000, "shards_quick": 8, "shards_thorough": 16, "timeout": 2400,
         "race_thorough": True},
        {"name": "TestUnlimitedStartRace", "quick": 800, "thorough": 40000, "shards_quick": 8, "shards_thorough": 16, "timeout": 2400,
         "race_thorough": True},
        {"name": "TestInterleavings", "quick": 6000, "thorough": 600000, "shards_quick": 3, "shards_thorough": 16, "timeout": 1500},
    ],
    "rule": ("rapid-generated schedule trees (depth <= 3, <= 5 children; leaves once/const/line/step/instance_step/unlimited, zero-token "
             "and empty parts anywhere; in the finite tests also instance_step parts whose `to` is below `from` - omitted (0), anywhere below, or "
             "less than a step below: no step fits, `from` tokens at once, the part finishes at its own start - alone and before further parts) judged against manual chaining of separately drained parts. TestSeqDense (added after seeded defect C02/m16): composites whose first one or two parts are dense constant-rate parts (const, flat line, two-level step; 5e4-2e6 rps incl. rates that divide no whole number of nanoseconds, 3000-40000 tokens) in front of once / const / line parts - whatever a part's per-token arithmetic accumulates shows where the next part begins: times to one caller never decrease, the finish is not before the last token. TestSeqFinite: scripted Next/Left "
             "by one caller in virtual time, optional on-finish wrapper, config or constructor path. TestConcFinite: 2-8 free-running "
             "goroutines, 4 rounds per case, multiset + linearisability windows for Left. TestSeqUnlimited/TestConcUnlimited: real time, "
             "1-4 ms parts, callers wait for each token as coreutil.Waiter does; TestSeqUnlimited also draws the start mode (explicit Start, or - as the engine does - "
             "nobody calls Start and the first Next starts the tree: the start instant is the first finite token minus its chain offset and must lie inside that call), "
             "puts a part that is built as a composite of its own (nested profile, instance_step with steps, step with from != to) in front of every second tree, and an idle plan: "
             "having drawn the last token in front of an unknown-length part the caller may stop drawing, wait until the clock is 1.2 ms past the finish of that part "
             "(and of the unknown-length parts chained right behind it) and only poll Left() three times; any Left() that began >= 1 ms (guard band) after the last remaining "
             "unlimited part finished, with no undrawn token in front of that part, must be the exact count. TestImplicitStart: 2-8 goroutines released together "
             "race for the first Next of an UNSTARTED finite schedule (what the engine's instances do), 12 rounds per case; one start "
             "instant inside the measured window must explain every token. TestUnlimitedStartRace: 200 trials per case; a fresh unlimited(d) part (bare or first in a "
             "composite) is started implicitly by Next (or explicitly by one Start) while 1-4 other goroutines poll Left(); every "
             "answer that comes back before release+d must be negative. TestInterleavings: 2-3 callers whose interleaving at the "
             "composite's lock-free yield points (hook) is dictated by a drawn choice list. Non-trivial = >= 2 token-bearing parts and "
             "(nesting depth >= 2 or a zero-token part [seq]; any [conc]; >= 2 tokens [implicit start]; an unknown-length part that is not first [unlimited]; "
             "a lock-upgrade point reached [interleavings]); distinct = hash of tree+script(+choices)."),
    "floors": {"TestSeqDense/dense_part_interval_fraction_ge_half_ns": 0.3, "TestSeqUnlimited/unknown_not_first": 0.15, "TestSeqFinite/zero_token_part": 0.2, "TestConcFinite/left_callers": 0.3,
               "TestConcFinite/callers_ge_4": 0.3, "TestInterleavings/next_upgrade_contended": 0.1,
               "TestInterleavings/left_upgrade_point": 0.05, "TestImplicitStart/single_elementary_profile": 0.3,
               "TestImplicitStart/callers_ge_4": 0.3, "TestSeqUnlimited/left_negative_seen": 0.1,
               "TestSeqUnlimited/implicit_start": 0.15, "TestSeqUnlimited/composite_first_part": 0.25,
               "TestSeqUnlimited/idle_left_exact_demanded": 0.15, "TestSeqUnlimited/idle_left_exact_demanded_implicit_start": 0.05,
               "TestSeqUnlimited/idle_left_exact_demanded_behind_composite_first_part_implicit_start": 0.03,
               "TestSeqFinite/istep_to_below_from_before_parts": 0.15, "TestSeqFinite/istep_to_below_from_by_a_step": 0.12,
               "TestConcFinite/istep_to_below_from_before_parts": 0.12, "TestImplicitStart/istep_to_below_from": 0.1},
    "manifest": {
        "technique": "model-based property testing (rapid): manual-chaining reference, linearisability windows, harness-scheduled interleavings at hook yield points",
        "text": ("Schedule trees are generated and compared with a reference that drains each elementary part alone from the finish "
                 "of its predecessor: exact token sequence sequentially, exact multiset + per-caller monotonicity + Left() windows "
                 "under 2-8 concurrent callers, interval oracles in real time for unlimited parts, an implicit-start race (one common start instant within the measured window), and deterministic enumeration-by-"
                 "sampling of interleavings at the composite's lock-upgrade points. Exploration: interleavings are sampled, not exhausted."),
        "note": ("Trusts the elementary parts (judged by C01) as reference; goroutine ids parsed from runtime.Stack; real-time sub-checks "
                 "compare only measured instants that bracket each call, so load can make a sample inconclusive, never wrong. "
                 "Interleaving control exists only at the hook's four yield points, on flat composites."),
    },
    "assumptions": ["callers of trees with unlimited parts wait for a token's time before drawing the next (coreutil.Waiter behaviour)",
                    "Left() may stay negative while an unlimited part ahead has not been started because tokens in front of it are still undrawn, even if its window has passed on the clock (with nothing left in front of it, it must turn exact once the window has passed)"],
}
