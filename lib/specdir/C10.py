"""run specification for C10 (loaded by lib/specs.py)"""

SPEC = {
    "pkg": "c10",
    "tests": [
        {"name": "TestHTTPSamples", "quick": 480, "thorough": 24000, "shards_quick": 8, "shards_thorough": 16, "timeout": 3000},
        {"name": "TestGRPCCodes", "quick": 48, "thorough": 3200, "shards_quick": 4, "shards_thorough": 16, "timeout": 3000},
        {"name": "TestGRPCJSONTags", "quick": 96, "thorough": 3200, "shards_quick": 4, "shards_thorough": 16, "timeout": 3000},
        {"name": "TestGRPCUntaggedWitness", "quick": 1, "thorough": 1, "shards": 1, "timeout": 120},
        {"name": "TestGRPCScenarioTags", "quick": 160, "thorough": 8000, "shards_quick": 4, "shards_thorough": 16, "timeout": 3000},
        {"name": "TestScenarioSamples", "quick": 400, "thorough": 24000, "shards_quick": 8, "shards_thorough": 16, "timeout": 3000},
        # one process at a time is enough: each case already runs 2-16 goroutines flat out
        {"name": "TestIDsUnique", "quick": 60, "thorough": 3000, "shards_quick": 2, "shards_thorough": 4, "timeout": 3000},
    ],
    "rule": ("TestGRPCJSONTags: generated grpc/json files of 2-8 distinct lines, each tagged (1-3 tags that repeat) or untagged (no `tag` "
             "key, or `tag: \"\"`) with equal odds, answered with OK / InvalidArgument / NotFound / Unavailable / Unauthenticated; the lines "
             "are shot 40 / 200 / 300 / 450 times - three cases in four beyond the provider's 128-entry read-ahead, where entries are "
             "decoded into ammo objects that instances have released - by a long file or by passes over a short one, 1-4 instances, real "
             "grpc gun and provider, real phout; the i-th sample (one instance; multiset otherwise) must be {tag of line i mod n or "
             "__EMPTY__, documented code}; non-trivial = tagged and untagged lines mixed and shot beyond the read-ahead. "
             "TestGRPCUntaggedWitness: fixed witness of finding grpc-gun-untagged-sample-tag-empty (repaired), same oracle. TestGRPCScenarioTags: generated grpc/scenario descriptions with 2-4 weighted scenarios whose request lists (1-3 steps "
             "with multiplicities) draw on the same 1-4 `calls:` (tags may coincide, some calls answered with a non-OK status) plus one "
             "marker call of their own at a random position; in half of the descriptions the calls carry an assert/response postprocessor "
             "(status_code equal to / different from the documented code of the status the target answers, payload word the answer "
             "holds / does not hold, both) - a step whose assertion fails was executed and answered, it is the last step of its "
             "invocation (docs: further scenario execution is dropped) and the marker is never placed behind it; ammo limit 1-3 rounds of the weights, 1-3 instances, real grpc/scenario gun "
             "and provider, real phout. The recording server tells what ran: each call carries its name in metadata, the marker calls "
             "count the invocations of each scenario, and with one instance the call sequence decomposes uniquely into scenario "
             "invocations; samples must be, in order (one instance) or as a multiset (several), exactly {<scenario>.<call tag>, documented "
             "code of the status received} of every executed step, rejected by its postprocessor or not; non-trivial = two or more invoked "
             "scenarios ran the same call, or a step was rejected by its postprocessor. TestScenarioSamples: generated http scenarios (1-4 steps with multiplicities, postprocessors none / assert status / assert "
             "body / var/jsonpath before or after an assert) shot 1-5 times by one instance; the scripted target makes one request of "
             "some invocations carry a status or a body that the step's assertion rejects; the phout sample stream must be exactly one "
             "sample per executed step, tagged <scenario>.<step name>, completed steps with the status received, the failed step "
             "reported as failed, nothing after it; one bad answer in three is a REDIRECT: the same body under status 301 / 302 / 303 / 307 / 308 "
             "with a Location header that is absent, empty, well-formed or not parsable as a URL (same pools as TestHTTPSamples) - the "
             "gun does not follow redirects (`redirect` is false by default), so the step was executed and answered: its sample carries "
             "that status, the invocation goes on, and only a status assertion rejects it; non-trivial = a step failed by a "
             "postprocessor or was answered with a redirect status. TestIDsUnique: a real uri provider (streaming or preloaded) with limit 2000 / 20000 / 60000 is drained by 2-16 goroutines "
             "calling Acquire/Release as fast as they can (where the ids are issued); every id must occur once; non-trivial = >= 4 "
             "consumers and >= 20000 ammo. TestHTTPSamples: rapid-generated ammo (uri / uripost / raw / http-json written one object per line, as pretty-printed objects, "
             "or as one JSON array - the six layouts equally likely; 1-8 entries with 0-5 path elements, tagged or not "
             "- a tag in three is several words, separated by single spaces, sometimes a run of spaces or a tab, as in pandora's own uri test "
             "('some tag'): every format takes the rest of the line behind the delimiting blank, or a JSON string, as the tag; one entry in three "
             "of those with a path is tagged by a text RELATED TO ITS OWN URI, as ammo made from access logs is: the tag equals the auto-tag "
             "that the case's uri-elements derive from the entry's URI, contains it (the whole path, path?query, GET:path, a word glued "
             "before or behind it, the auto-tag twice), lies within it (the auto-tag without its slash / its last character, the first "
             "element) or starts like it and then differs - tags are opaque, so with no-tag-only: false the sample reads '<tag>|<auto-tag>' "
             "whatever the two have in common ('/e0/a|/e0/a', 'GET:/e0/a/b|/e0/a'), and the tag alone otherwise) x provider streaming or "
             "with preload x bounds {passes 1-3, a limit of 1..3n with the default unlimited passes, both; at most 24 shots} x scripted "
             "target answers (any status 200-599, one in six a redirect status 301 / 302 / 303 / 307 / 308; a Location header on the answer: "
             "most redirect answers carry one - half of them a value that url.Parse rejects ('http://[::1', '/next%zz', 'http://exa mple.org/', "
             "':next', 'http://host:port/x', '%', ...), the others a well-formed one, an empty one or none - and one other answer in four "
             "does too; the guns run with `redirect: false`, written out or left at its default, so the answer is the result of the shot "
             "whatever its status and its Location say: proto code = status received, net code 0; connection reset, response-header timeout, body shorter than Content-Length, chunked body "
             "that ends inside a chunk - the last two fail after status line and headers have arrived; target "
             "refusing connections) x auto-tag {enabled, uri-elements 1-3, no-tag-only} x 1-8 instances x what the run logs on the side: "
             "the engine's (and so every bound gun's) logger drops everything / takes info / takes debug messages (`log: level: debug`: "
             "the gun logs every request and response with its body) x the gun's `answlog` not enabled / enabled with filter all, "
             "warning, error (a real file) - the codes of a sample are the same at every log level; x gun kind http (half of the cases) / connect (through a CONNECT tunnel of the recording target) / http2 (TLS target "
             "speaking HTTP/2; failure kinds there: stream reset without an answer, header timeout, stream reset after headers and a first "
             "piece of the body); real guns, real provider, real engine "
             "instances (which Release every ammo after its shot), real phout aggregator with ids, pool built by config.DecodeAndValidate; "
             "the k-th ammo is entry k mod n, so the multiset of (tag, proto code, net code == 0) parsed from the phout file is compared with "
             "the model over all min(limit, passes x n) shots - an entry shot on a later pass must carry its tag and reach the target under "
             "its own path again (the target answers by path; anything else is a 599) - and ids must be pairwise distinct. Classes "
             "layout_<layout>_{stream,preload}, reshot_<layout>_{stream,preload} (more shots than entries: entries are shot again after "
             "their ammo was released), reshot_by_passes / reshot_by_limit_with_unlimited_passes, third_pass_entered, log_level_*, answlog_enabled, "
             "body_cut_after_headers_{debug_log, info_log, answ_logged, debug_log_and_answ_logged, nothing_logged}[_short_body|_short_chunked] "
             "(once per case: an entry whose body is cut was shot at that log level / was dumped by the answ log), gun_{http,connect,http2}, "
             "redirect_answered[_gun_*], redirect_location_{absent,empty,wellformed,malformed}, redirect_<status>_location_malformed, "
             "redirect_location_malformed_{gun_*, redirect_false_written, redirect_left_at_default, debug_log, answ_logged}, "
             "location_{malformed,wellformed}_on_other_status (once per case: such an entry was shot and answered in full), "
             "tag_of_several_words[_<format>], tag_with_tab_or_run_of_spaces, tag_of_several_words_with_auto_tag_appended, tag_related_to_uri, "
             "auto_tag_appended_to_related_tag, auto_tag_appended_to_tag_{equals,contains,within,prefix}, auto_tag_appended_to_tag_that_holds_it[_gun_*] "
             "(equals or contains), auto_tag_appended_to_tag_contains_reshot, related_tag_alone_{auto_tag_off,no_tag_only} (once per case: such "
             "an entry was shot). TestGRPCCodes (added after seeded defect C10/m17: in a third of the cases 1-2 further calls are left unanswered by the target until the gun's own `timeout` of 0.8-1.2 s expires - call status DeadlineExceeded on the client side, documented as 504): every case "
             "enumerates all gRPC status codes 0..16 (plus generated out-of-range values) returned by a recording TargetService; the "
             "sample's proto code must equal the table in docs/eng/grpc-generator.md as transcribed into the harness. Non-trivial = a "
             "non-2xx status, a failure kind, auto-tag on, or >= 2 instances (HTTP); every gRPC case; distinct = hash of the case."),
    "required_classes": ['TestHTTPSamples/reshot_tagged_uri_stream', 'TestHTTPSamples/reshot_tagged_uri_preload',
                         'TestHTTPSamples/reshot_tagged_uripost_stream', 'TestHTTPSamples/reshot_tagged_uripost_preload',
                         'TestHTTPSamples/reshot_tagged_raw_stream', 'TestHTTPSamples/reshot_tagged_raw_preload',
                         'TestHTTPSamples/reshot_tagged_jsonline_lines_stream', 'TestHTTPSamples/reshot_tagged_jsonline_lines_preload',
                         'TestHTTPSamples/reshot_tagged_jsonline_pretty_stream', 'TestHTTPSamples/reshot_tagged_jsonline_pretty_preload',
                         'TestHTTPSamples/reshot_tagged_jsonline_array_stream', 'TestHTTPSamples/reshot_tagged_jsonline_array_preload',
                         'TestHTTPSamples/reshot_by_limit_with_unlimited_passes_jsonline_array_stream',
                         'TestHTTPSamples/redirect_301_location_malformed', 'TestHTTPSamples/redirect_302_location_malformed',
                         'TestHTTPSamples/redirect_303_location_malformed', 'TestHTTPSamples/redirect_307_location_malformed',
                         'TestHTTPSamples/redirect_308_location_malformed'],
    "floors": {"TestHTTPSamples/gun_http": 0.25, "TestHTTPSamples/gun_connect": 0.09, "TestHTTPSamples/gun_http2": 0.1,
               "TestHTTPSamples/redirect_answered": 0.13, "TestHTTPSamples/redirect_location_malformed": 0.055,
               "TestHTTPSamples/redirect_location_absent": 0.04, "TestHTTPSamples/redirect_location_wellformed": 0.035,
               "TestHTTPSamples/redirect_location_empty": 0.018, "TestHTTPSamples/redirect_location_malformed_gun_http": 0.025,
               "TestHTTPSamples/redirect_location_malformed_gun_connect": 0.01, "TestHTTPSamples/redirect_location_malformed_gun_http2": 0.015,
               "TestHTTPSamples/redirect_location_malformed_redirect_false_written": 0.025,
               "TestHTTPSamples/redirect_location_malformed_redirect_left_at_default": 0.03,
               "TestHTTPSamples/redirect_location_malformed_debug_log": 0.018, "TestHTTPSamples/redirect_location_malformed_answ_logged": 0.016,
               "TestHTTPSamples/location_malformed_on_other_status": 0.08,
               "TestHTTPSamples/tag_of_several_words": 0.2, "TestHTTPSamples/tag_of_several_words_raw": 0.027,
               "TestHTTPSamples/tag_of_several_words_uri": 0.035, "TestHTTPSamples/tag_of_several_words_uripost": 0.025,
               "TestHTTPSamples/tag_of_several_words_jsonline": 0.09, "TestHTTPSamples/tag_with_tab_or_run_of_spaces": 0.085,
               "TestHTTPSamples/tag_of_several_words_with_auto_tag_appended": 0.04,
               "TestHTTPSamples/tag_related_to_uri": 0.26, "TestHTTPSamples/auto_tag_appended_to_related_tag": 0.055,
               "TestHTTPSamples/auto_tag_appended_to_tag_that_holds_it": 0.04, "TestHTTPSamples/auto_tag_appended_to_tag_contains": 0.03,
               "TestHTTPSamples/auto_tag_appended_to_tag_equals": 0.014, "TestHTTPSamples/auto_tag_appended_to_tag_within": 0.014,
               "TestHTTPSamples/auto_tag_appended_to_tag_prefix": 0.012, "TestHTTPSamples/auto_tag_appended_to_tag_contains_reshot": 0.011,
               "TestHTTPSamples/auto_tag_appended_to_tag_that_holds_it_gun_http": 0.022,
               "TestHTTPSamples/auto_tag_appended_to_tag_that_holds_it_gun_connect": 0.009,
               "TestHTTPSamples/auto_tag_appended_to_tag_that_holds_it_gun_http2": 0.009,
               "TestHTTPSamples/related_tag_alone_auto_tag_off": 0.12, "TestHTTPSamples/related_tag_alone_no_tag_only": 0.05,
               "TestScenarioSamples/step_answered_with_redirect": 0.2, "TestScenarioSamples/step_answered_with_redirect_location_malformed": 0.09,
               "TestScenarioSamples/step_answered_with_redirect_location_malformed_not_rejected": 0.06,
               "TestScenarioSamples/step_answered_with_redirect_location_malformed_not_rejected_before_last_step": 0.035,
               "TestScenarioSamples/step_answered_with_redirect_location_absent": 0.08,
               "TestScenarioSamples/step_answered_with_redirect_location_wellformed": 0.06,
               "TestHTTPSamples/status_3xx": 0.1, "TestHTTPSamples/status_4xx": 0.1, "TestHTTPSamples/status_5xx": 0.1,
               "TestHTTPSamples/fail_reset": 0.1, "TestHTTPSamples/fail_timeout": 0.1, "TestHTTPSamples/fail_short_body": 0.1,
               "TestHTTPSamples/fail_refused": 0.04, "TestHTTPSamples/fail_short_chunked": 0.1,
               "TestHTTPSamples/log_level_debug": 0.2, "TestHTTPSamples/log_level_info": 0.15, "TestHTTPSamples/log_level_none": 0.15,
               "TestHTTPSamples/answlog_enabled": 0.28, "TestHTTPSamples/answered_with_debug_log": 0.15,
               "TestHTTPSamples/answered_and_answ_logged": 0.15,
               "TestHTTPSamples/body_cut_after_headers_debug_log": 0.05, "TestHTTPSamples/body_cut_after_headers_debug_log_short_body": 0.022,
               "TestHTTPSamples/body_cut_after_headers_debug_log_short_chunked": 0.025, "TestHTTPSamples/body_cut_after_headers_info_log": 0.03,
               "TestHTTPSamples/body_cut_after_headers_answ_logged": 0.04, "TestHTTPSamples/body_cut_after_headers_answ_logged_short_body": 0.018,
               "TestHTTPSamples/body_cut_after_headers_answ_logged_short_chunked": 0.018,
               "TestHTTPSamples/body_cut_after_headers_debug_log_and_answ_logged": 0.01, "TestHTTPSamples/body_cut_after_headers_nothing_logged": 0.02, "TestHTTPSamples/auto_tag": 0.24, "TestHTTPSamples/auto_tag_appended": 0.1,
               "TestHTTPSamples/instances_ge_2": 0.5, "TestHTTPSamples/uri_without_path": 0.4,
               "TestHTTPSamples/auto_tag_of_uri_without_path_untagged": 0.15, "TestHTTPSamples/uri_without_path_abs": 0.1,
               "TestHTTPSamples/uri_without_path_query": 0.1, "TestHTTPSamples/uri_without_path_abs_query": 0.1,
               "TestHTTPSamples/preload": 0.27, "TestHTTPSamples/reshot": 0.3, "TestHTTPSamples/reshot_by_passes": 0.2,
               "TestHTTPSamples/reshot_by_limit_with_unlimited_passes": 0.1, "TestHTTPSamples/third_pass_entered": 0.12,
               "TestHTTPSamples/reshot_uri_stream": 0.01, "TestHTTPSamples/reshot_uri_preload": 0.008, "TestHTTPSamples/reshot_uripost_stream": 0.01, "TestHTTPSamples/reshot_uripost_preload": 0.008, "TestHTTPSamples/reshot_raw_stream": 0.01, "TestHTTPSamples/reshot_raw_preload": 0.008, "TestHTTPSamples/reshot_jsonline_lines_stream": 0.01, "TestHTTPSamples/reshot_jsonline_lines_preload": 0.008, "TestHTTPSamples/reshot_jsonline_pretty_stream": 0.01, "TestHTTPSamples/reshot_jsonline_pretty_preload": 0.008, "TestHTTPSamples/reshot_jsonline_array_stream": 0.01, "TestHTTPSamples/reshot_jsonline_array_preload": 0.008,
               "TestGRPCScenarioTags/one_instance_reruns_a_call_in_another_scenario": 0.24,
               "TestGRPCScenarioTags/call_shared_by_invoked_scenarios": 0.45, "TestGRPCScenarioTags/three_or_more_scenarios_invoked": 0.3,
               "TestGRPCScenarioTags/instances_ge_2_with_shared_call": 0.15, "TestGRPCScenarioTags/step_with_non_ok_status": 0.2,
               "TestGRPCScenarioTags/step_rejected_by_postprocessor": 0.11, "TestGRPCScenarioTags/invocation_cut_short_by_postprocessor": 0.096,
               "TestGRPCScenarioTags/rejected_by_payload_assertion": 0.08, "TestGRPCScenarioTags/rejected_by_status_code_assertion": 0.06,
               "TestGRPCScenarioTags/rejected_step_answered_ok": 0.049, "TestGRPCScenarioTags/rejected_step_answered_non_ok": 0.07,
               "TestGRPCScenarioTags/step_with_assertion_that_holds": 0.09, "TestGRPCScenarioTags/instances_ge_2_with_rejected_step": 0.028, "TestGRPCJSONTags/mixed_tags_beyond_read_ahead": 0.3, "TestGRPCJSONTags/mixed_tags_beyond_read_ahead_tag_key_absent": 0.27,
               "TestGRPCJSONTags/mixed_tags_beyond_read_ahead_one_instance": 0.12, "TestGRPCJSONTags/mixed_tags_beyond_read_ahead_instances_ge_2": 0.098,
               "TestGRPCJSONTags/mixed_tags_beyond_read_ahead_long_file": 0.11, "TestGRPCJSONTags/mixed_tags_beyond_read_ahead_by_passes": 0.12,
               "TestGRPCJSONTags/within_read_ahead": 0.1,
               "TestGRPCCodes/call_unanswered_until_gun_timeout": 0.15, "TestGRPCCodes/shared_client": 0.2, "TestGRPCCodes/out_of_range_codes": 0.2},
    "exhaustive_note": "gRPC status codes 0..16 are all exercised in every TestGRPCCodes case (the sub-space of defined codes is enumerated completely)",
    "manifest": {
        "technique": "model-based property testing (rapid) through the real guns and the real phout aggregator against scripted recording targets; documentation-transcribed table oracle for gRPC codes",
        "text": ("Samples are read where users read them (phout lines). HTTP: exactly one sample per fired request; proto code = status "
                 "received else 0; net code 0 iff a response was completely received (a body cut short after the headers - by length or inside "
                 "a chunk - is a failed exchange: status as proto code, non-zero net code), whatever the log level and the answ log setting, whichever gun (http, connect, http2) fired it, and whatever the answer's status and "
                 "Location header are - with `redirect: false` a 301/302/303/307/308 is reported as received, also when its Location is missing or no URL; tag = ammo tag / auto-tag of the first n path "
                 "elements (appended with '|' when the ammo is tagged and no-tag-only is off) / __EMPTY__ (also when auto-tag is on and the URI has no path to take elements from); ids unique across instances; "
                 "a tag of several words is reported whole; a tag that equals, contains, lies within or starts like the auto-tag of its own URI is a tag like any other ('<tag>|<auto-tag>' with no-tag-only off); all of it for every ammo layout (uri, uripost, raw, http/json as lines / pretty objects / one array), streamed or preloaded, also for entries shot "
                 "again on a second and third pass (by `passes` or by a limit above the file's length) after the engine released their ammo. "
                 "gRPC: proto code equals the documented mapping for all 17 defined codes and 500 for anything else; the tag is the one written "
                 "on the entry's own line, __EMPTY__ for a line without one, also once the provider recycles its ammo objects; a "
                 "scenario step that was answered and then rejected by its assert/response postprocessor keeps tag <scenario>.<call tag> "
                 "and the code of the status received."),
        "note": ("1xx statuses are not generated (Go's client consumes them); which errno a failure maps to is not asserted, only "
                 "non-zero. An ammo tag combined (no-tag-only off) with the auto-tag of a path-less URI is not generated: what it should "
                 "read like is not documented. gRPC scenario steps: tags and codes here (TestGRPCScenarioTags), templating in C20 TestGRPCScenario."),
    },
    "assumptions": ["responses are matched to entries by a unique first path element, so concurrent instances cannot be confused"],
}
