"""run specification for C01 (loaded by lib/specs.py)"""

SPEC = {
    "pkg": "c01",
    "tests": [
        {"name": "TestProfile", "quick": 24000, "thorough": 1600000, "shards_quick": 8, "shards_thorough": 16,
         "timeout": 1500},
        {"name": "TestHugeProfile", "quick": 16, "thorough": 480, "shards_quick": 8, "shards_thorough": 16, "timeout": 3000},
        {"name": "TestImplicitStartRace", "quick": 3200, "thorough": 160000, "shards_quick": 8, "shards_thorough": 16, "timeout": 1500,
         "race_thorough": True},
    ],
    "rule": ("TestHugeProfile (added after seeded defect C01/m17): const / line (flat, rising, falling) / two-level step profiles of 6-30 million "
             "operations (rates round / whole / three decimals / any float, 1e4-2e6 rps), drained completely and judged token by token without "
             "storing them by the rules of TestProfile's segments (inside [start, start+duration], never before the predecessor, "
             "|F(t_k)-k| <= rate x 2 ns + 1e-9 k, count against the exact integral, exact finish). TestProfile: rapid generator over const/line/step/once configs (whole-second, 100ms-, ms-, us- and ns-granular durations; "
             "integer, tenth, arbitrary-float and zero rates; random start instant; built through config.DecodeAndValidate "
             "or the constructors); each schedule is drained completely and judged against the exact closed-form integral "
             "(math/big). Non-trivial = at least 2 tokens and (fractional-second duration, or from != to, or a zero end-point, "
             "or >= 2 step levels); distinct = distinct config tuples (hash of the case). "
             "TestImplicitStartRace: one generated once/const/line/step profile left UNSTARTED (as the engine leaves RPS schedules), "
             "2-8 goroutines released together drain it, 48 rounds per case; one start instant inside the measured window must "
             "explain every token (reference recomputed from the inferred start); non-trivial = >= 2 tokens."),
    "floors": {"TestHugeProfile/tokens_gt_9300000": 0.6, "TestProfile/fractional_duration": 0.25, "TestProfile/line_decreasing": 0.05,
               "TestProfile/zero_endpoint": 0.05, "TestProfile/via_config": 0.3, "TestProfile/step_multi_level": 0.02},
    "manifest": {
        "technique": "property-based testing (rapid) against an exact closed-form integral oracle (math/big)",
        "text": ("Generated const/line/step/once configurations (fractional durations, zero rates, both construction paths) are "
                 "drained completely; every token instant, the token count, Left() and the finish time are compared with the "
                 "exact integral of the configured rate. Random search with shrinking; no exhaustiveness claimed."),
        "note": ("Trusts math/big and the stated float tolerances (count off by one only when the exact integral is within 1e-9 "
                 "relative of an integer; |F(t_k)-k| <= rate*2ns + 1e-9*max(1,k))."),
    },
    "assumptions": ["float tolerance: a token count one off the exact floor is accepted only when the exact integral is within "
                    "1e-9 (relative) of an integer; token instants are judged forward, |F(t_k)-k| <= rate*2ns + 1e-9*max(1,k)",
                    "step levels within 1e-9 of `to` are accepted either way when `from` is not an integer"],
}
