"""run specification for C08 (loaded by lib/specs.py)"""

SPEC = {
    "pkg": "c08",
    "tests": [
        {"name": "TestBounds", "quick": 1600, "thorough": 64000, "shards_quick": 8, "shards_thorough": 16, "timeout": 2400},
    ],
    "rule": ("rapid-generated cells of the matrix provider kind {uri, uripost, raw, http/json lines, http/json array, grpc/json, "
             "http/scenario, grpc/scenario, generic json} x preload on/off (HTTP kinds) x limit 0..2E+1 x passes 0..3 x entries 1..5 x "
             "1-4 consumers x {drained directly, run inside the real engine with a counting gun}; providers are built through "
             "config.DecodeAndValidate on a mem fs. Unbounded cells (no limit, no passes) are cancelled 0-20 ms after the consumers took their last ammo, so that the provider has filled "
             "its queue and is parked on the hand-over when the cancel arrives (generic json provider also with ammo-queue-size 1/4/64). "
             "Half of the unbounded cells use the live drain (provrun.DrainLive): the consumers never stop acquiring by themselves, so the cancel "
             "arrives while they are in or about to enter Acquire, and 0-3 late consumers call Acquire only after Run has returned; all of them "
             "must come to end of ammo. In a quarter of the unbounded cells of the kinds that read their file while running (uri, uripost, raw, "
             "http/json lines, grpc/json, generic json) the good entries are followed by a malformed one, so that the provider stops by failing "
             "while the consumers are acquiring (class provider_failed_with_consumers_acquiring). "
             "Non-trivial = a bound is hit (X finite) and the cell is not plain streaming uri; "
             "distinct = hash of the case. Every kind x bound-combination cell must occur (required classes)."),
    "required_classes": ['TestBounds/uri/limit_only', 'TestBounds/uri/passes_only', 'TestBounds/uri/both', 'TestBounds/uri/none', 'TestBounds/uripost/limit_only', 'TestBounds/uripost/passes_only', 'TestBounds/uripost/both', 'TestBounds/uripost/none', 'TestBounds/raw/limit_only', 'TestBounds/raw/passes_only', 'TestBounds/raw/both', 'TestBounds/raw/none', 'TestBounds/jsonline/limit_only', 'TestBounds/jsonline/passes_only', 'TestBounds/jsonline/both', 'TestBounds/jsonline/none', 'TestBounds/jsonarray/limit_only', 'TestBounds/jsonarray/passes_only', 'TestBounds/jsonarray/both', 'TestBounds/jsonarray/none', 'TestBounds/grpc/json/limit_only', 'TestBounds/grpc/json/passes_only', 'TestBounds/grpc/json/both', 'TestBounds/grpc/json/none', 'TestBounds/http/scenario/limit_only', 'TestBounds/http/scenario/passes_only', 'TestBounds/http/scenario/both', 'TestBounds/http/scenario/none', 'TestBounds/grpc/scenario/limit_only', 'TestBounds/grpc/scenario/passes_only', 'TestBounds/grpc/scenario/both', 'TestBounds/grpc/scenario/none', 'TestBounds/json/limit_only', 'TestBounds/json/passes_only', 'TestBounds/json/both', 'TestBounds/json/none'],
    "floors": {"TestBounds/preload": 0.15, "TestBounds/single_entry": 0.1, "TestBounds/through_engine": 0.2,
               "TestBounds/live_consumers": 0.07, "TestBounds/late_consumers": 0.04,
               "TestBounds/provider_failed_with_consumers_acquiring": 0.012},
    "manifest": {
        "technique": "property-based testing (rapid) over the provider-kind x bound matrix with a counting oracle and a hang watchdog",
        "text": ("For every generated cell the provider must deliver exactly min(limit, passes*entries) ammo (non-zero bounds only), then "
                 "consumers see end of ammo and Run returns nil without being cancelled; inside the engine the run ends successfully "
                 "with exactly that many shots; unbounded providers release all consumers and return promptly on cancel, also consumers that are acquiring "
                 "when the cancel (or a decode failure) stops the provider and consumers that call Acquire only after Run has returned."),
        "note": ("Hang verdicts use a 5 s deadline (normal completion < 10 ms) and require the provider to still be stuck after cancel "
                 "or to return only because of it. Scenario files are minimal hand-written YAML (n scenarios of weight 1)."),
    },
    "assumptions": ["entries of scenario providers = scenarios of weight 1 in the ammo ring"],
}
