"""run specification for C08 (loaded by lib/specs.py)"""

SPEC = {
    "pkg": "c08",
    "tests": [
        {"name": "TestBounds", "quick": 2000, "thorough": 64000, "shards_quick": 8, "shards_thorough": 16, "timeout": 2400},
        {"name": "TestLongRuns", "quick": 320, "thorough": 8000, "shards_quick": 2, "shards_thorough": 8, "timeout": 2400},
    ],
    "rule": ("rapid-generated cells of the matrix provider kind {uri, uripost, raw, http/json lines, http/json array, grpc/json, "
             "http/scenario, grpc/scenario, generic json (drawn three times as often as each of the others)} x preload on/off (HTTP kinds) x limit 0..2E+1 x passes 0..3 x entries 1..5 x "
             "1-4 consumers x {drained directly, run inside the real engine with a counting gun}; providers are built through "
             "config.DecodeAndValidate on a mem fs. Unbounded cells (no limit, no passes) are cancelled 0-20 ms after the consumers took their last ammo, so that the provider has filled "
             "its queue and is parked on the hand-over when the cancel arrives (generic json provider also with ammo-queue-size 1/4/64). "
             "Half of the unbounded cells use the live drain (provrun.DrainLive): the consumers never stop acquiring by themselves, so the cancel "
             "arrives while they are in or about to enter Acquire, and 0-3 late consumers call Acquire only after Run has returned; all of them "
             "must come to end of ammo. In a quarter of the unbounded cells of the kinds that read their file while running (uri, uripost, raw, "
             "http/json lines, grpc/json, generic json) the good entries are followed by a malformed one, so that the provider stops by failing "
             "while the consumers are acquiring (class provider_failed_with_consumers_acquiring). "
             "Kinds with the chosencases option (the five HTTP formats with and without preload, grpc/json): in a third of their cells chosencases lists the tags "
             "of a non-empty subset of the entries (optionally plus a tag nobody carries) and `entries` of the oracle is the number of chosen entries; in a sixth "
             "it lists only a tag that no entry carries (unrelated, next index, near misses) - two thirds of those stream without a pass bound, so that nothing but "
             "the cancel ends the provider: 1-4 consumers sit in Acquire, the cancel comes 0-20 ms after the start while the provider is reading its file "
             "(class cancelled_while_scanning = Run had not returned by itself), Run must return within the hang deadline, the waiting and 0-2 late consumers "
             "must see end of ammo, and no ammo may have been delivered; how a provider without any ammo ends by itself is not judged (C14's open question). "
             "Entry sizes: kinds with a body or payload (uripost, raw, http/json, grpc/json) get bodies of 1-48 KiB in a fifth of their cells; http/json and "
             "grpc/json get entries of 70-160 KiB (above bufio.MaxScanTokenSize, the documented default of maxammosize) in two fifths, always with maxammosize "
             "256 KiB-4 MiB (class entries_over_64k; entries_over_64k_read_again = the bounds make the provider read that entry more than once); "
             "maxammosize (4 KiB with tiny entries, 128 KiB, 1 MiB) is also set in 40 % of the other cells of the kinds that accept it. "
             "The generic json provider takes its data from one of six sources: the three a config can name - `source: {type: file}`, `{type: inline, data: ...}`, "
             "`{type: stdin}` (os.Stdin is a regular temp file while the config is decoded, as with `pandora conf.yaml < ammo`) - and the three a custom pandora hands to "
             "provider.NewJSONProvider itself: datasource.NewReader over a strings.Reader, over an open file, and datasource.NewString; all other dimensions (bounds, consumers, "
             "engine, queue size, live / late consumers, broken tail) are drawn independently of it, and all of these sources can be re-read from their start, so the same bound "
             "formula is asserted (classes json/source_<s> and json/source_<s>/read_again = the bounds need more than one pass over the data: passes >= 2, limit > entries, or "
             "no bound at all + cancel; split into read_again_passes_only / _to_limit / _unbounded). Pipes (not seekable: documented 'read only once') are not generated. "
             "(Floors of classes that belong to the other kinds were rescaled by 9/11 when the json kind got its triple weight.) "
             "File system: in two cells of five of the HTTP kinds (all formats and layouts, JSON array included, with and without preload) and of grpc/json the ammo file is a real file in a "
             "temporary directory of its own (removed with the case) and the provider is built over afero.NewOsFs() - the file system the pandora binary hands to the providers - by what the "
             "registered plugin factory does: the options are decoded into the provider's config struct by config.DecodeAndValidate and the provider's constructor is called with it (the "
             "registry of the test process stays bound to the mem fs, Import can be called only once). The provider then holds an *os.File, on which reading, seeking and closing after a close are "
             "errors, where afero's mem file forgives all of that. All other dimensions are drawn independently of it (classes os_fs, <kind>/os_fs_bounded = ends at its bounds, "
             "_bounded_through_engine, <kind>/os_fs_cancelled = unbounded and ended by the cancel); the assertions are the same, and for the cancelled cells on the OS file system the result "
             "of Run must be nil or have the context's error as its cause - the test core/engine applies (errutil.IsCtxError) -, not a context error bundled with another failure. "
             "Long lines (uri, uripost, raw; a quarter of their cells, with and without preload, any bounds, combined with the body sizes): one kind of LINE of the file - not a body - is "
             "4040-60000 bytes long (around 4096 and 8192, 4-9 KB, 9-20 KB, 20-60 KB; all below the 64 KiB line limit of the uri reader's bufio.Scanner): the entry's URI carries a long "
             "query string (uri: the `uri [tag]` line, uripost: the `bodySize uri [tag]` line, raw: the request line inside the sized block), the entry's tag is long (the same lines; "
             "raw: the `size tag` line; chosencases then lists those tags), or a header line is long (`[X-Long: ...]` before the first entry; raw: a header of the request); in one or "
             "several entries (classes long_line = above 4096 bytes, <kind>/long_line, <kind>/long_line_in_{uri,tag,header}, long_line_preload, long_line_read_again, long_line_over_8k). "
             "grpc/json key sets: in half of the grpc/json cells the lines of the file do not all carry the same optional keys (tag, metadata, payload; `call` always): one line has all three, "
             "another has no metadata, and untagged lines exist wherever chosencases leaves room - an untagged entry is never chosen, so `entries` of the oracle stays the number of listed entries "
             "(classes grpc/json/mixed_keys, _untagged_entries, _untagged_entries_chosencases[_long_run]). "
             "Long runs: in a sixth of the cells with entries of the default size (half of the grpc/json cells with mixed keys) the bounds are scaled so that 140-600 ammo are delivered - limit up to 600, passes up to 600 - "
             "(unbounded cells: that many are taken before the cancel): more than the 128-slot queue of the HTTP and grpc providers holds, so consumers release ammo while the provider is still reading and "
             "released objects come back to it (classes long_run, <kind>/long_run, long_run_bounded[_through_engine], long_run_chosencases; <kind>/released_ammo_object_delivered_again = the same grpc ammo object "
             "was seen twice). TestLongRuns runs the same check over cases that are all long runs of tiny entries, grpc/json drawn four times as often as every other kind and always with 2-5 lines of differing key sets, "
             "chosencases a subset in two cells of three of the kinds that have it. "
             "Identity: for the HTTP formats and grpc/json every delivered ammo is read before it is released (direct drain: before Release; engine: in Shoot) - request URI, tag and body; tag, call, metadata, payload - "
             "and the N ammo of a bounded run (or the first N of an unbounded one that stops acquiring after N) must be the first N of the sequence `entries that count, pass after pass in file order`: "
             "none that is no such entry (truncated or stale fields, an entry chosencases does not list), every entry the right number of times. "
             "Non-trivial = a bound is hit (X finite) and the cell is not plain streaming uri, or chosencases matches nothing; "
             "distinct = hash of the case. Every kind x bound-combination cell must occur (required classes)."),
    "required_classes": ['TestBounds/uri/limit_only', 'TestBounds/uri/passes_only', 'TestBounds/uri/both', 'TestBounds/uri/none', 'TestBounds/uripost/limit_only', 'TestBounds/uripost/passes_only', 'TestBounds/uripost/both', 'TestBounds/uripost/none', 'TestBounds/raw/limit_only', 'TestBounds/raw/passes_only', 'TestBounds/raw/both', 'TestBounds/raw/none', 'TestBounds/jsonline/limit_only', 'TestBounds/jsonline/passes_only', 'TestBounds/jsonline/both', 'TestBounds/jsonline/none', 'TestBounds/jsonarray/limit_only', 'TestBounds/jsonarray/passes_only', 'TestBounds/jsonarray/both', 'TestBounds/jsonarray/none', 'TestBounds/grpc/json/limit_only', 'TestBounds/grpc/json/passes_only', 'TestBounds/grpc/json/both', 'TestBounds/grpc/json/none', 'TestBounds/http/scenario/limit_only', 'TestBounds/http/scenario/passes_only', 'TestBounds/http/scenario/both', 'TestBounds/http/scenario/none', 'TestBounds/grpc/scenario/limit_only', 'TestBounds/grpc/scenario/passes_only', 'TestBounds/grpc/scenario/both', 'TestBounds/grpc/scenario/none', 'TestBounds/json/limit_only', 'TestBounds/json/passes_only', 'TestBounds/json/both', 'TestBounds/json/none',
                         'TestBounds/uri/cancelled_while_scanning', 'TestBounds/uripost/cancelled_while_scanning', 'TestBounds/raw/cancelled_while_scanning',
                         'TestBounds/jsonline/cancelled_while_scanning', 'TestBounds/jsonarray/cancelled_while_scanning',
                         'TestBounds/grpc/json/chosencases_match_nothing',
                         'TestBounds/jsonline/entries_over_64k_read_again', 'TestBounds/jsonarray/entries_over_64k_read_again',
                         'TestBounds/grpc/json/entries_over_64k_read_again',
                         'TestBounds/json/source_file/read_again', 'TestBounds/json/source_inline/read_again', 'TestBounds/json/source_stdin/read_again', 'TestBounds/json/source_reader_strings/read_again', 'TestBounds/json/source_reader_file/read_again', 'TestBounds/json/source_string/read_again',
                         'TestBounds/json/source_inline/read_again_passes_only', 'TestBounds/json/source_inline/read_again_to_limit', 'TestBounds/json/source_inline/read_again_unbounded',
                         'TestBounds/uri/os_fs_bounded', 'TestBounds/uripost/os_fs_bounded', 'TestBounds/raw/os_fs_bounded', 'TestBounds/jsonline/os_fs_bounded',
                         'TestBounds/jsonarray/os_fs_bounded', 'TestBounds/grpc/json/os_fs_bounded', 'TestBounds/jsonarray/os_fs_bounded_through_engine',
                         'TestBounds/uri/os_fs_cancelled', 'TestBounds/uripost/os_fs_cancelled', 'TestBounds/raw/os_fs_cancelled', 'TestBounds/jsonline/os_fs_cancelled',
                         'TestBounds/jsonarray/os_fs_cancelled', 'TestBounds/grpc/json/os_fs_cancelled',
                         'TestBounds/uri/long_line_in_uri', 'TestBounds/uri/long_line_in_tag', 'TestBounds/uri/long_line_in_header',
                         'TestBounds/uripost/long_line_in_uri', 'TestBounds/uripost/long_line_in_tag', 'TestBounds/uripost/long_line_in_header',
                         'TestBounds/raw/long_line_in_uri', 'TestBounds/raw/long_line_in_tag', 'TestBounds/raw/long_line_in_header',
                         'TestBounds/grpc/json/mixed_keys_untagged_entries_chosencases', 'TestBounds/grpc/json/released_ammo_object_delivered_again',
                         'TestLongRuns/grpc/json/mixed_keys_untagged_entries_chosencases_long_run', 'TestLongRuns/grpc/json/released_ammo_object_delivered_again',
                         'TestLongRuns/uri/long_run', 'TestLongRuns/uripost/long_run', 'TestLongRuns/raw/long_run', 'TestLongRuns/jsonline/long_run', 'TestLongRuns/jsonarray/long_run',
                         'TestLongRuns/http/scenario/long_run', 'TestLongRuns/grpc/scenario/long_run', 'TestLongRuns/json/long_run'],
    "floors": {"TestBounds/preload": 0.15, "TestBounds/single_entry": 0.1, "TestBounds/through_engine": 0.18,
               "TestBounds/live_consumers": 0.065, "TestBounds/late_consumers": 0.04,
               "TestBounds/provider_failed_with_consumers_acquiring": 0.012,
               "TestBounds/chosencases_subset": 0.1, "TestBounds/chosencases_proper_subset": 0.048,
               "TestBounds/chosencases_match_nothing": 0.05, "TestBounds/cancelled_while_scanning": 0.04,
               "TestBounds/jsonline/cancelled_while_scanning": 0.0033, "TestBounds/jsonarray/cancelled_while_scanning": 0.0033,
               "TestBounds/maxammosize_set": 0.17, "TestBounds/entries_1k_to_48k": 0.07,
               "TestBounds/entries_over_64k": 0.05, "TestBounds/entries_over_64k_read_again": 0.03,
               "TestBounds/grpc/json/entries_over_64k_read_again": 0.0085, "TestBounds/jsonline/entries_over_64k_read_again": 0.009,
               "TestBounds/jsonarray/entries_over_64k_read_again": 0.007,
               "TestBounds/json/source_file/read_again": 0.006, "TestBounds/json/source_inline/read_again": 0.006, "TestBounds/json/source_stdin/read_again": 0.006, "TestBounds/json/source_reader_strings/read_again": 0.006, "TestBounds/json/source_reader_file/read_again": 0.006, "TestBounds/json/source_string/read_again": 0.006,
               "TestBounds/json/source_inline/read_again_passes_only": 0.002, "TestBounds/json/source_inline/read_again_to_limit": 0.003, "TestBounds/json/source_inline/read_again_unbounded": 0.003,
               # the ammo file is a real OS file read through afero.NewOsFs() (HTTP formats and grpc/json)
               "TestBounds/os_fs": 0.14, "TestBounds/os_fs_bounded": 0.1, "TestBounds/os_fs_bounded_through_engine": 0.033, "TestBounds/os_fs_cancelled": 0.015,
               "TestBounds/uri/os_fs_bounded": 0.02, "TestBounds/uripost/os_fs_bounded": 0.022, "TestBounds/raw/os_fs_bounded": 0.015,
               "TestBounds/jsonline/os_fs_bounded": 0.014, "TestBounds/jsonarray/os_fs_bounded": 0.008, "TestBounds/grpc/json/os_fs_bounded": 0.009,
               "TestBounds/jsonarray/os_fs_preload": 0.006, "TestBounds/jsonarray/os_fs_cancelled": 0.0007,
               # a line (entry line / tag / header line, not a body) above 4096 bytes in uri, uripost, raw files
               "TestBounds/long_line": 0.045, "TestBounds/long_line_over_8k": 0.025, "TestBounds/long_line_preload": 0.02, "TestBounds/long_line_read_again": 0.027,
               "TestBounds/uri/long_line": 0.015, "TestBounds/uripost/long_line": 0.016, "TestBounds/raw/long_line": 0.01,
               "TestBounds/uri/long_line_in_uri": 0.01, "TestBounds/uripost/long_line_in_uri": 0.011, "TestBounds/raw/long_line_in_uri": 0.006,
               # more ammo delivered than a provider's queue holds; grpc/json lines with differing key sets
               "TestBounds/long_run": 0.06, "TestBounds/long_run_bounded": 0.05, "TestBounds/long_run_bounded_through_engine": 0.017, "TestBounds/long_run_chosencases": 0.007,
               "TestBounds/grpc/json/mixed_keys": 0.009, "TestBounds/grpc/json/mixed_keys_untagged_entries": 0.006,
               "TestLongRuns/long_run_bounded": 0.38, "TestLongRuns/long_run_bounded_through_engine": 0.11, "TestLongRuns/long_run_chosencases": 0.24,
               "TestLongRuns/grpc/json/mixed_keys_long_run": 0.11, "TestLongRuns/grpc/json/mixed_keys_untagged_entries_chosencases_long_run": 0.03,
               "TestLongRuns/grpc/json/released_ammo_object_delivered_again": 0.06},
    "manifest": {
        "technique": "property-based testing (rapid) over the provider-kind x bound matrix with a counting oracle and a hang watchdog",
        "text": ("For every generated cell the provider must deliver exactly min(limit, passes*entries) ammo (non-zero bounds only), then "
                 "consumers see end of ammo and Run returns nil without being cancelled; inside the engine the run ends successfully "
                 "with exactly that many shots; unbounded providers release all consumers and return promptly on cancel, also consumers that are acquiring "
                 "when the cancel (or a decode failure) stops the provider and consumers that call Acquire only after Run has returned. "
                 "The matrix includes chosencases (a subset of the entries: the bound formula counts the chosen entries; no entry at all: the provider is "
                 "cancelled while it scans its file and must return promptly without having delivered anything), maxammosize, and entries of up to 160 KiB "
                 "(above 64 KiB only with maxammosize raised) read for one or several passes, and - for the HTTP formats and grpc/json - the real OS file system next to the in-memory one: "
                 "there too Run returns nil at the bounds (not the error of a file closed twice or read after close), the engine run succeeds, and a cancelled provider returns nil or the bare context error. "
                 "uri / uripost / raw files also have entry lines, tags and header lines of 4-60 KB (long query strings); grpc/json files also have lines that differ in the keys they carry (untagged entries, entries "
                 "without metadata or payload); and runs of 140-600 ammo (limit / passes up to 600) make the providers recycle the ammo their consumers release. For the HTTP formats and grpc/json the delivered ammo "
                 "are read (URI, tag, body / tag, call, metadata, payload): the N delivered ammo must be the first N of the entries that count, pass after pass in file order."),
        "note": ("Hang verdicts use a 5 s deadline (normal completion < 10 ms) and require the provider to still be stuck after cancel "
                 "or to return only because of it. Scenario files are minimal hand-written YAML (n scenarios of weight 1)."),
    },
    "assumptions": ["entries of scenario providers = scenarios of weight 1 in the ammo ring",
                    "with chosencases the `entries` of the bound formula are the entries carrying a listed tag (docs/eng/providers.md: 'use only \"tag1\" and \"tag2\" ammo for this test'; limit counts delivered ammo, passes counts file passes - as C14 asserts)",
                    "identity of the delivered ammo: a pass hands over the entries that count in file order (all readers are sequential; C07 and C14 assert the same order), so the N ammo of a run are the first N of that cyclic sequence; "
                    "a grpc/json line without `tag` is an untagged entry (the grpc gun reports it as __EMPTY__) and is never chosen by a non-empty chosencases (confutil.IsChosenCase compares the tag with the list)"],
}
