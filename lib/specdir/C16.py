"""run specification for C16 (loaded by lib/specs.py)"""

SPEC = {
    "pkg": "c16",
    "tests": [
        {"name": "TestEquivalence", "quick": 2400, "thorough": 96000, "shards_quick": 8, "shards_thorough": 16, "timeout": 2400},
        {"name": "TestLocals", "quick": 1600, "thorough": 64000, "shards_quick": 8, "shards_thorough": 16, "timeout": 2400},
        {"name": "TestKnownWitness", "quick": 1, "thorough": 1, "shards": 1, "timeout": 120},
    ],
    # thorough tier: coverage-guided campaigns over the same generators + oracles (rapid.MakeFuzz)
    "fuzz": [{"name": "FuzzEquivalence", "seconds": 60}, {"name": "FuzzLocals", "seconds": 60}],
    "rule": ("rapid-generated scenario descriptions (internal/scengen; structural choices are drawn bit by bit from rapid.Bool, so they are "
             "uniform rather than biased to small values): HTTP (60%) or gRPC (40%); 0-3 variable sources (file/csv with "
             "optional fields / ignore_first_line / delimiter, file/json, variables incl. randomisation-function values and bare "
             "number / boolean values); 1-4 requests "
             "(method, uri, optional headers / tag / body / preprocessor / templater text|html, 0-4 postprocessors var/jsonpath, "
             "var/xpath, var/header, assert/response with optional headers / body / status_code / size{val?, op}) or calls (call, "
             "payload, optional tag / metadata, 0-2 prepare preprocessors, 0-2 assert/response postprocessors with optional payload / "
             "status_code); 1-3 scenarios with optional weight (1-6 times a common factor) and min_waiting_time and 1-6 step entries in "
             "the forms name, name(n), name(n, ms), name(n,ms), sleep(ms). Half of the free-text strings (values, map keys, 35% of the "
             "names) are concatenations of 1-3 pieces from the classes quotes, backslashes, newlines/CR/tab, unicode (incl. U+2028, "
             "U+0085, BOM, astral), `%{` / unterminated `${` / `$${`, YAML-special scalars (yes, null, ~, 1e3, 0x1F, `- a`, `#c`, "
             "`a: b`, `<<`, timestamps, base-60, leading/trailing blanks, empty), control characters, go-template text; all NFC, "
             "never a complete ${...}. 35% of the bodies / payloads and 6% of the other free-text values are pasted text blocks: 1-5 "
             "lines from a pool of TSV rows (also with an empty first column), tab- / space-indented JSON, XML, YAML and Makefile "
             "text, lines with `#`, `: `, `- `, trailing blanks or tabs, empty lines; LF (8%: CR LF) line ends; no, one or 2-3 "
             "trailing newlines. The description is rendered to x.hcl with hclwrite (block types in a drawn order; bodies / "
             "payloads optionally as heredocs) and to x.yaml with yaml.v2 (ordered maps; empty sections optionally written as []). "
             "In 85% of the descriptions string values of x.yaml (bodies / payloads 65%, other values - names, uri, tags, header / "
             "metadata / mapping / variables values, list items - 20%, 40% when multi-line or with a tab) are written by hand instead "
             "of by Marshal, in a drawn style: literal `|` or folded `>` block scalar (content indented 1-8 columns; indentation "
             "indicator when the first line starts with a space or tab, else in 25%; chomping `-` / clip / `+` as the trailing "
             "newlines demand, `+` also for one newline in 25%; folded: breaks between non-indented lines doubled, optionally "
             "wrapped at single spaces), multi-line plain scalar, single-quoted scalar (both with folded continuation lines, "
             "optionally wrapped), double-quoted scalar with only the necessary escapes (literal tabs / unicode, optionally "
             "continued after each \\n with a trailing backslash). A hand-written scalar is kept only if yaml.v2's own Unmarshal reads "
             "the file back exactly as it reads the Marshal form (e.g. CR, NEL, control characters cannot be said in a block "
             "scalar); otherwise the Marshal form is written and the case counts yaml_style_fallback. "
             "TestLocals additionally writes 1-3 `locals` blocks (later ones refer to earlier ones; a local may be re-declared with "
             "the same value, or given a new value by a later block, also one built from its old value) and ~40% of the map / list / string attributes as expressions (depth <= 3) over local.* references, the 17 "
             "documented functions and quoted templates with ${} interpolation, built so that the documented preconditions hold "
             "(element on a non-empty list, slice within bounds, zipmap with equally long lists, index of a present item, split with "
             "a non-empty separator); the YAML file holds the value scengen's own evaluator computes; 60% of the scenario `requests` "
             "lists are wrapped by value-preserving constructions (concat, reverse, slice, flatten, compact, distinct, coalescelist, "
             "values(zipmap()), split, a local). While a finding is listed as known, descriptions of exactly its shape are redrawn "
             "(counted in excluded_known): a map key `<<`; a call of index(); a bare number / boolean in a `variables` source. "
             "Non-trivial = at least one optional field left out and at least one present, or a string of a special class, or an "
             "HCL-only expression; distinct = hash of the whole description."),
    "floors": {
        "TestEquivalence/kind_http": 0.29, "TestEquivalence/kind_grpc": 0.19,
        "TestEquivalence/source_file_csv": 0.22, "TestEquivalence/source_file_json": 0.15, "TestEquivalence/source_variables": 0.17,
        "TestEquivalence/variables_rand_func": 0.03, "TestEquivalence/body_absent": 0.2, "TestEquivalence/sources_none": 0.1,
        "TestEquivalence/yaml_empty_sections": 0.15,
        "TestEquivalence/post_var_jsonpath": 0.1, "TestEquivalence/post_var_xpath": 0.1, "TestEquivalence/post_var_header": 0.1,
        "TestEquivalence/post_assert_response": 0.15, "TestEquivalence/post_assert_size": 0.05,
        "TestEquivalence/pre_http": 0.2, "TestEquivalence/templater_text": 0.1, "TestEquivalence/templater_html": 0.1,
        "TestEquivalence/pre_grpc_prepare": 0.1, "TestEquivalence/post_grpc_assert_response": 0.1,
        "TestEquivalence/headers_absent": 0.1, "TestEquivalence/heredoc": 0.05,
        "TestEquivalence/scenarios_gt_1": 0.4, "TestEquivalence/ring_gt_scenarios": 0.2,
        "TestEquivalence/step_sleep": 0.2, "TestEquivalence/step_count": 0.3, "TestEquivalence/step_count_sleep": 0.3,
        "TestEquivalence/str_quote": 0.3, "TestEquivalence/str_backslash": 0.2, "TestEquivalence/str_newline": 0.3,
        "TestEquivalence/str_unicode": 0.3, "TestEquivalence/str_hcl_percent_brace": 0.1, "TestEquivalence/str_hcl_dollar_brace": 0.1,
        "TestEquivalence/str_yaml_special": 0.4, "TestEquivalence/str_control": 0.15,
        "TestEquivalence/key_yaml_special": 0.15, "TestEquivalence/name_yaml_special": 0.1,
        "TestEquivalence/hcl_block_order_permuted": 0.5,
        "TestEquivalence/str_line_starts_with_tab": 0.25, "TestEquivalence/str_cr": 0.15, "TestEquivalence/str_several_trailing_newlines": 0.15,
        "TestEquivalence/yaml_hand_scalar": 0.42, "TestEquivalence/yaml_literal": 0.4, "TestEquivalence/yaml_folded": 0.3,
        "TestEquivalence/yaml_block_line_starts_with_tab": 0.08, "TestEquivalence/yaml_block_first_line_starts_with_tab": 0.04,
        "TestEquivalence/yaml_block_line_starts_with_space": 0.1, "TestEquivalence/yaml_block_trailing_blanks": 0.06,
        "TestEquivalence/yaml_block_hash": 0.04, "TestEquivalence/yaml_block_colon_space": 0.1,
        "TestEquivalence/yaml_block_several_trailing_newlines": 0.05, "TestEquivalence/yaml_block_indent_indicator": 0.25,
        "TestEquivalence/yaml_block_keep": 0.1, "TestEquivalence/yaml_block_strip": 0.4, "TestEquivalence/yaml_folded_inner_newline": 0.08,
        "TestEquivalence/yaml_block_not_body_or_payload": 0.4,
        "TestEquivalence/yaml_plain_multiline": 0.02, "TestEquivalence/yaml_single_quoted_multiline": 0.05,
        "TestEquivalence/yaml_double_quoted_multiline": 0.015, "TestEquivalence/yaml_double_quoted_literal_tab": 0.015,
        "TestEquivalence/yaml_style_fallback": 0.05,
        "TestLocals/yaml_literal": 0.4, "TestLocals/yaml_folded": 0.3, "TestLocals/yaml_block_line_starts_with_tab": 0.08,
        "TestLocals/yaml_block_first_line_starts_with_tab": 0.04,
        "TestLocals/fn_coalesce": 0.05, "TestLocals/fn_coalescelist": 0.05, "TestLocals/fn_compact": 0.05, "TestLocals/fn_concat": 0.2,
        "TestLocals/fn_distinct": 0.05, "TestLocals/fn_element": 0.1, "TestLocals/fn_flatten": 0.05, "TestLocals/fn_keys": 0.03,
        "TestLocals/fn_lookup": 0.05, "TestLocals/fn_merge": 0.1, "TestLocals/fn_reverse": 0.05, "TestLocals/fn_slice": 0.05,
        "TestLocals/fn_sort": 0.03, "TestLocals/fn_split": 0.05, "TestLocals/fn_values": 0.05, "TestLocals/fn_zipmap": 0.05,
        "TestLocals/local_refers_to_earlier_block": 0.2, "TestLocals/attr_refers_to_local": 0.3,
        "TestLocals/template_interpolation": 0.1, "TestLocals/local_redeclared": 0.03, "TestLocals/local_overridden_by_later_block": 0.05,
        "TestLocals/locals_blocks_2": 0.15, "TestLocals/locals_blocks_3": 0.15,
    },
    "manifest": {
        "technique": ("differential property testing (rapid): one generated description rendered by two independent renderers "
                      "(hclwrite / yaml.v2 plus hand-written scalar styles) and read through pandora's two front-ends, plus a field-by-field statement of the "
                      "description and a reference evaluator for the HCL-only expressions"),
        "text": ("For every generated description config.ReadAmmoConfig(x.hcl) and config.ReadAmmoConfig(x.yaml) must both succeed and "
                 "be equal under a normalising comparison (nil = empty map/slice, pointers by value, exported fields only, dynamic "
                 "types of processors / templaters / sources kept); the HCL result must also equal the configuration the description "
                 "states field by field (nothing lost or altered by the struct -> YAML text -> map -> decoder hop); and the real "
                 "http/scenario / grpc/scenario providers built through config decoding from the two files must deliver, over one "
                 "full weight cycle plus one item, ammo that is identical as the guns see it (id, scenario name, min waiting time, "
                 "every step with all request / call fields, processors, templater type, sleeps, variable storage via Variables())."),
        "note": ("Values produced by randomisation functions in `variables` sources are masked (they are random by design). The HCL "
                 "`headers` argument is required by the HCL front-end, so a request without headers is written `headers = {}` there "
                 "and left out in YAML. coalesce() is only called with null or non-empty arguments (the linked documentation and the "
                 "implementation differ on empty strings). Three findings (a map key `<<` is unreadable after the HCL -> YAML text hop; "
                 "`index` is bound to element access instead of the documented search; bare numbers / booleans in a `variables` "
                 "source become strings in HCL only) are steered around by redrawing while listed as known and re-confirmed by fixed "
                 "witnesses in TestKnownWitness (which also runs the documentation's own HCL / YAML example); while index() is "
                 "excluded no generated case calls it. Of the YAML layout only the scalar styles of string values vary (block, plain, "
                 "single- and double-quoted by hand); keys, the block structure and numbers are as yaml.v2 writes them (no flow "
                 "collections, no indented sequences, no comments), and HCL strings are quoted or `<<EOT` heredocs (no `<<-`). The "
                 "native byte-mutation campaign of the design, YAML anchors / the YAML `locals` helper block and HCL comment / "
                 "CRLF layouts are not implemented."),
    },
    "assumptions": [
        "locals blocks are evaluated in file order and a name assigned again by a later block means the later value from then on (the documentation only shows re-declaration with the same value)",
        "all cases of a process rewrite the same file names: a front-end may not remember anything by file name",
        "strings are NFC-normalised: HCL normalises string values to NFC by specification, so other strings are not expressible in both syntaxes",
        "complete ${...} sequences are not generated (placeholder language of the config layer, property C17)",
        "the documented semantics of the HCL functions are those of the pages docs/eng/scenario/functions.md links to",
        "hclwrite's quoted-string escaping and yaml.v2's Marshal are the trusted base of the two renderers (the key `<<`, which yaml.v2 writes unquoted, is quoted by the harness)",
        "a hand-written YAML scalar means what yaml.v2's Unmarshal (the library the YAML front-end, config.DecodeMap, reads files with) reads from it: it is only written when the whole file then decodes exactly as the Marshal form does",
    ],
}
