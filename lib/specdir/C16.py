"""run specification for C16 (loaded by lib/specs.py)"""

SPEC = {
    "pkg": "c16",
    "tests": [
        {"name": "TestEquivalence", "quick": 2400, "thorough": 96000, "shards_quick": 8, "shards_thorough": 16, "timeout": 2400},
        {"name": "TestLocals", "quick": 1600, "thorough": 64000, "shards_quick": 8, "shards_thorough": 16, "timeout": 2400},
        {"name": "TestConcurrentLoads", "quick": 64, "thorough": 480, "shards_quick": 8, "shards_thorough": 16, "timeout": 2400,
         "race_thorough": True, "replay_repeat": 50},
        {"name": "TestKnownWitness", "quick": 1, "thorough": 1, "shards": 1, "timeout": 120},
    ],
    # thorough tier: coverage-guided campaigns over the same generators + oracles (rapid.MakeFuzz)
    "fuzz": [{"name": "FuzzEquivalence", "seconds": 60}, {"name": "FuzzLocals", "seconds": 60}],
    "rule": ("rapid-generated scenario descriptions (internal/scengen; structural choices are drawn bit by bit from rapid.Bool, so they are "
             "uniform rather than biased to small values): HTTP (60%) or gRPC (40%); 0-3 variable sources (file/csv with "
             "optional fields / ignore_first_line / delimiter, file/json, variables incl. randomisation-function values and bare "
             "number / boolean values); 1-4 requests "
             "(method, uri, optional headers / tag / body / preprocessor / templater text|html, 0-4 postprocessors var/jsonpath, "
             "var/xpath, var/header, assert/response with optional headers / body / status_code / size{val?, op}) or calls (call, "
             "payload, optional tag / metadata, 0-2 prepare preprocessors, 0-2 assert/response postprocessors with optional payload / "
             "status_code); 1-3 scenarios with optional weight (1-6 times a common factor) and min_waiting_time and 1-6 step entries in "
             "the forms name, name(n), name(n, ms), name(n,ms), sleep(ms); one written weight in five is `weight = 0` / `weight: 0`, the "
             "lower bound of the allowed range (it counts as 1, like a weight that is left out), also for the only scenario of a file. Half of the free-text strings (values, map keys, 35% of the "
             "names) are concatenations of 1-3 pieces from the classes quotes, backslashes, newlines/CR/tab, unicode (incl. U+2028, "
             "U+0085, BOM, astral), `%{` / unterminated `${` / `$${`, YAML-special scalars (yes, null, ~, 1e3, 0x1F, `- a`, `#c`, "
             "`a: b`, `<<`, timestamps, base-60, leading/trailing blanks, empty), control characters, go-template text; all NFC, "
             "never a complete ${...} by themselves (config placeholders are written on purpose, see below). 35% of the bodies / payloads and 6% of the other free-text values are pasted text blocks: 1-5 "
             "lines from a pool of TSV rows (also with an empty first column), tab- / space-indented JSON, XML, YAML and Makefile "
             "text, lines with `#`, `: `, `- `, trailing blanks or tabs, empty lines; LF (8%: CR LF) line ends; no, one or 2-3 "
             "trailing newlines. The description is rendered to x.hcl with hclwrite (block types in a drawn order; bodies / "
             "payloads optionally as heredocs) and to x.yaml with yaml.v2 (ordered maps; empty sections optionally written as []). "
             "In 85% of the descriptions string values of x.yaml (bodies / payloads 65%, other values - names, uri, tags, header / "
             "metadata / mapping / variables values, list items - 20%, 40% when multi-line or with a tab) are written by hand instead "
             "of by Marshal, in a drawn style: literal `|` or folded `>` block scalar (content indented 1-8 columns; indentation "
             "indicator when the first line starts with a space or tab, else in 25%; chomping `-` / clip / `+` as the trailing "
             "newlines demand, `+` also for one newline in 25%; folded: breaks between non-indented lines doubled, optionally "
             "wrapped at single spaces), multi-line plain scalar, single-quoted scalar (both with folded continuation lines, "
             "optionally wrapped), double-quoted scalar with only the necessary escapes (literal tabs / unicode, optionally "
             "continued after each \\n with a trailing backslash). A hand-written scalar is kept only if yaml.v2's own Unmarshal reads "
             "the file back exactly as it reads the Marshal form (e.g. CR, NEL, control characters cannot be said in a block "
             "scalar); otherwise the Marshal form is written and the case counts yaml_style_fallback. "
             "Key order of x.yaml: in 75% of the descriptions every mapping with fixed keys (the document, sources, requests, calls, "
             "processors, size, scenarios) is written in a uniformly drawn key order with 60% (so `scenarios:` is not the last section in "
             "about half of the files); 40% of those put the bulky part last: `requests:` / `calls:` is the last section and its last "
             "entry ends with a string value (body / payload in 85% when present), written as a `|` / `>` block scalar in 70% - the "
             "document then ENDS inside a block scalar, which owns the final line break(s) of the file (clip: exactly one, `+`: all). "
             "End of file: three files in seven (each syntax separately) end without the final newline, with two blank lines or with a "
             "`#` comment line; for x.yaml only where yaml.v2 reads the file as before (else yaml_tail_fallback). "
             "TestEquivalence / TestLocals (and the fuzz targets) then turn a drawn share of the descriptions into two further classes "
             "(c16/extra_test.go). 6%: a description WITHOUT scenarios - the scenarios are taken out, x.hcl has no `scenario` block, x.yaml no "
             "`scenarios` key (sources and 1-4 requests / calls stay). Nothing says what such a description means, so nothing but sameness is "
             "demanded: ReadAmmoConfig accepts both files or rejects both; when it accepts them both are the stated configuration; the two "
             "providers both cannot be built, or both end without ammo, or deliver the same ammo (items asked for: number of steps + 1). On the "
             "present tree both load and both providers end with `no ammo in file`. The third spelling, x.yaml with `scenarios: []`, is run "
             "and only counted (no_scenarios_yaml_empty_list_like_hcl / _unlike_hcl). "
             "9%: ONE VERY LONG PHYSICAL LINE in one request / call: 72% a minified JSON document on one line as body / payload (array of 1-6 "
             "drawn fragments - go-templates, blanks, cyrillic / CJK, backslashes and quotes, `%{`, `a: b # c` - repeated and padded to the exact size; "
             "35% with 0-2 short lines before and after; HCL: `<<EOT` heredoc 60%, else a quoted string on one line; x.yaml: literal block 50%, folded 12%, "
             "double- / single-quoted by hand 20% (half of them wrapped at blanks), else the Marshal form, which yaml.v2 folds at blanks), 16% (gRPC 28%) a header / metadata value "
             "(`Authorization: Bearer <token without blanks>` or a `Cookie` list with blanks), 12% (http) the query string of the uri. Size of the line: 30% "
             "4096 +-64 bytes, 10% 4096-4098, 10% 8192 +-64, 15% 65536 +-64, the rest log-uniform in 4 KiB - 70 KiB. The case stores the recipe, not the text. "
             "Such a case is checked like any other (stated configuration, both readings, delivered ammo): the line must arrive byte for byte. "
             "35% of the descriptions of TestEquivalence / TestLocals (and the fuzz targets) that have a non-empty user map (headers, metadata, "
             "mapping, variables with string values, no key `<<`) write x.yaml with ANCHORS AND MERGE KEYS, the YAML counterpart of HCL locals + merge() "
             "(docs/eng/scenario/locals.md; internal/scengen/yamlanchor.go, c16/anchors_test.go): 1-3 anchors, each from a donor map - 70% in a "
             "`locals:` helper block at the top of the file (a drawn part of the donor's entries, each entry given ANOTHER value with 30%, 25% with a `<<` of "
             "1-2 earlier anchors of the block), 30% inline on the donor map (`headers: &name`); every later map that has all keys of an anchor merges it "
             "with 70% (`<<: *a`, two anchors `<<: [*a, *b]` in a drawn order - the earlier one wins a common key), a map equal to its only anchor is written "
             "`headers: *a` with 40%; keys the merge lacks or holds with another value are set by the mapping itself AFTER the `<<` (the explicit key wins: "
             "class yaml_merge_override, also after a long header / metadata value was written into the map), other keys are repeated with 25% before or after "
             "the `<<`. The plan never changes the meaning: the anchored file is kept only when yaml.v2's own Unmarshal reads it exactly as the Marshal form "
             "plus the `locals` key (else yaml_anchor_fallback); x.hcl is untouched. The oracle is that of every case; the `locals` block must be read as "
             "written (merges resolved) and is then put aside (HCL locals do not show in the configuration either). "
             "14% of the descriptions of TestEquivalence / TestLocals (and the fuzz targets) that carry no long line hold CONFIG PLACEHOLDERS "
             "(c16/placeholders_test.go; docs/eng/config.md `Variables from env and files`; the resolvers are registered as core/import does at start-up): 1-3 "
             "variables - `${env:NAME}` 45%, the bare form `${NAME}` 20%, `${property:<dir>/<file>#key}` 35% (a real file with other lines around the key), 15% "
             "written with a blank after the colon - holding a drawn value (tokens, host:port, numbers, true, the empty string, quotes, backslashes, YAML-special "
             "text such as `a: b`, `- x`, `#c`, yes, null, ~, leading / trailing blanks, cyrillic / CJK, JSON, go-template text, `%{`, `$$`, lone braces, two lines "
             "(environment only); never a `${`), written into 1-4 string VALUES of the description: a request body / call payload with 55% (when there is one), "
             "else any of uri, tag, header / metadata value, preprocessor / postprocessor mapping value, assert headers value, assert body / payload item, string "
             "value of a `variables` source (not: names, keys, method / call / file / fields / delimiter, attributes written as HCL-only expressions); the placeholder is "
             "the whole value 25%, in front 15%, at the end 25%, at a drawn rune position 35%; a second placeholder of one value goes to an end. With few variables and "
             "several sites one variable often stands in a body AND in a header / uri / mapping of the same file. x.hcl holds the text as hclwrite escapes it "
             "(`$${...}`, also inside heredocs), x.yaml as any other string (Marshal form or a hand-written scalar). Oracle: the unchanged one, against the description "
             "with the values filled in by the harness's own reading of the format (both files are read as that configuration, field by field, and deliver the same ammo). "
             "7% of these recipes leave one variable undefined (environment variable unset / no such key in the property file): then both files must be rejected. "
             "Where a filled-in value forms a NEW complete placeholder with the text around it (a value ending in `$` in front of `{x}`, a `}` closing a `${ x` of the "
             "host string; class ph_filled_in_text_forms_new_placeholder) nothing says whether it is looked at again (measured, not asserted: a request body is, a uri is "
             "not, in both syntaxes alike): such a description must only be read the same way in both syntaxes or be rejected in both. "
             "The case stores the recipe (Case.Ph), the path of the property files is per process. "
             "TestConcurrentLoads: 3-6 different descriptions (30% with locals), each in both syntaxes in its own directory, are first "
             "read alone (reference, checked like a TestEquivalence case incl. delivered ammo) and then loaded 4 (thorough 12) times each by 12-24 "
             "goroutines released together in a process with GOMAXPROCS=4 (3-6 loaders per processor, so that loaders are descheduled "
             "in the middle of a conversion and another one continues on the same processor): two loaders in three read the .hcl file, "
             "one in three the .yaml file; three in four call config.ReadAmmoConfig, one in four builds the provider and takes one weight "
             "cycle plus one item; the thorough tier runs it under the race detector. "
             "TestLocals additionally writes 1-3 `locals` blocks (later ones refer to earlier ones; a local may be re-declared with "
             "the same value, or given a new value by a later block, also one built from its old value) and ~40% of the map / list / string attributes as expressions (depth <= 3) over local.* references, the 17 "
             "documented functions and quoted templates with ${} interpolation, built so that the documented preconditions hold "
             "(element on a non-empty list, slice within bounds, zipmap with equally long lists, index of a present item, split with "
             "a non-empty separator); the YAML file holds the value scengen's own evaluator computes; 60% of the scenario `requests` "
             "lists are wrapped by value-preserving constructions (concat, reverse, slice, flatten, compact, distinct, coalescelist, "
             "values(zipmap()), split, a local). While a finding is listed as known, descriptions of exactly its shape are redrawn "
             "(counted in excluded_known): a map key `<<`; a call of index(); a bare number / boolean in a `variables` source. "
             "Non-trivial = at least one optional field left out and at least one present, or a string of a special class, or an "
             "HCL-only expression; distinct = hash of the whole description."),
    "floors": {
        # added after seeded defect C16/m16: HCL-only functions in block attributes of a file WITHOUT any locals block
        "TestLocals/hcl_functions_without_any_locals_block": 0.1,
        "TestEquivalence/kind_http": 0.29, "TestEquivalence/kind_grpc": 0.19,
        "TestEquivalence/source_file_csv": 0.22, "TestEquivalence/source_file_json": 0.15, "TestEquivalence/source_variables": 0.17,
        "TestEquivalence/variables_rand_func": 0.03, "TestEquivalence/body_absent": 0.2, "TestEquivalence/sources_none": 0.1,
        "TestEquivalence/yaml_empty_sections": 0.15,
        "TestEquivalence/post_var_jsonpath": 0.1, "TestEquivalence/post_var_xpath": 0.1, "TestEquivalence/post_var_header": 0.1,
        "TestEquivalence/post_assert_response": 0.15, "TestEquivalence/post_assert_size": 0.05,
        "TestEquivalence/pre_http": 0.2, "TestEquivalence/templater_text": 0.1, "TestEquivalence/templater_html": 0.1,
        "TestEquivalence/pre_grpc_prepare": 0.1, "TestEquivalence/post_grpc_assert_response": 0.1,
        "TestEquivalence/headers_absent": 0.1, "TestEquivalence/heredoc": 0.05,
        "TestEquivalence/scenarios_gt_1": 0.4, "TestEquivalence/ring_gt_scenarios": 0.2,
        "TestEquivalence/step_sleep": 0.2, "TestEquivalence/step_count": 0.3, "TestEquivalence/step_count_sleep": 0.3,
        "TestEquivalence/str_quote": 0.3, "TestEquivalence/str_backslash": 0.2, "TestEquivalence/str_newline": 0.3,
        "TestEquivalence/str_unicode": 0.3, "TestEquivalence/str_hcl_percent_brace": 0.1, "TestEquivalence/str_hcl_dollar_brace": 0.1,
        "TestEquivalence/str_yaml_special": 0.4, "TestEquivalence/str_control": 0.15,
        "TestEquivalence/key_yaml_special": 0.15, "TestEquivalence/name_yaml_special": 0.1,
        "TestEquivalence/hcl_block_order_permuted": 0.5,
        "TestEquivalence/str_line_starts_with_tab": 0.25, "TestEquivalence/str_cr": 0.15, "TestEquivalence/str_several_trailing_newlines": 0.15,
        "TestEquivalence/yaml_hand_scalar": 0.42, "TestEquivalence/yaml_literal": 0.4, "TestEquivalence/yaml_folded": 0.3,
        "TestEquivalence/yaml_block_line_starts_with_tab": 0.08, "TestEquivalence/yaml_block_first_line_starts_with_tab": 0.04,
        "TestEquivalence/yaml_block_line_starts_with_space": 0.1, "TestEquivalence/yaml_block_trailing_blanks": 0.06,
        "TestEquivalence/yaml_block_hash": 0.04, "TestEquivalence/yaml_block_colon_space": 0.1,
        "TestEquivalence/yaml_block_several_trailing_newlines": 0.05, "TestEquivalence/yaml_block_indent_indicator": 0.25,
        "TestEquivalence/yaml_block_keep": 0.1, "TestEquivalence/yaml_block_strip": 0.4, "TestEquivalence/yaml_folded_inner_newline": 0.08,
        "TestEquivalence/yaml_block_not_body_or_payload": 0.4,
        "TestEquivalence/yaml_plain_multiline": 0.02, "TestEquivalence/yaml_single_quoted_multiline": 0.05,
        "TestEquivalence/yaml_double_quoted_multiline": 0.015, "TestEquivalence/yaml_double_quoted_literal_tab": 0.015,
        "TestEquivalence/yaml_style_fallback": 0.05,
        # classes added after seeded defects C16/m7-m9
        "TestEquivalence/weight_zero": 0.12, "TestEquivalence/weight_zero_only_scenario": 0.012, "TestEquivalence/weight_zero_among_several": 0.1,
        "TestEquivalence/yaml_key_order_permuted": 0.37, "TestEquivalence/yaml_scenarios_section_not_last": 0.22,
        "TestEquivalence/yaml_body_or_payload_last_key": 0.25, "TestEquivalence/yaml_ends_with_block_scalar": 0.13,
        "TestEquivalence/yaml_ends_with_block_scalar_owning_final_newline": 0.035, "TestEquivalence/yaml_ends_with_block_scalar_clip": 0.02,
        "TestEquivalence/yaml_ends_with_block_scalar_keep": 0.015, "TestEquivalence/yaml_ends_with_block_scalar_keep_blank_lines": 0.006,
        "TestEquivalence/yaml_ends_with_folded": 0.04, "TestEquivalence/yaml_ends_with_body_or_payload_block": 0.07,
        "TestEquivalence/yaml_tail_nonl": 0.07, "TestEquivalence/yaml_tail_blank": 0.07, "TestEquivalence/yaml_tail_comment": 0.07,
        "TestEquivalence/hcl_tail_nonl": 0.07, "TestEquivalence/hcl_tail_blank": 0.07, "TestEquivalence/hcl_tail_comment": 0.07,
        "TestLocals/weight_zero": 0.12, "TestLocals/yaml_scenarios_section_not_last": 0.22, "TestLocals/yaml_ends_with_block_scalar": 0.12,
        "TestLocals/yaml_ends_with_block_scalar_owning_final_newline": 0.03,
        # classes added after seeded defects C16/m10-m11
        "TestEquivalence/no_scenarios": 0.025, "TestEquivalence/no_scenarios_http": 0.014, "TestEquivalence/no_scenarios_grpc": 0.008,
        "TestEquivalence/no_scenarios_several_steps": 0.015,
        "TestEquivalence/long_line": 0.045, "TestEquivalence/hcl_physical_line_4k_or_more": 0.04, "TestEquivalence/hcl_physical_line_64k_or_more": 0.008,
        "TestEquivalence/yaml_physical_line_4k_or_more": 0.03, "TestEquivalence/long_line_around_4k": 0.015,
        "TestEquivalence/long_line_in_hcl_heredoc": 0.015, "TestEquivalence/long_line_in_hcl_quoted_string": 0.02,
        "TestEquivalence/long_line_in_yaml_literal": 0.015, "TestEquivalence/long_line_in_yaml_marshal_form": 0.008,
        "TestEquivalence/long_line_header": 0.006,
        "TestLocals/no_scenarios": 0.02, "TestLocals/long_line": 0.038, "TestLocals/hcl_physical_line_4k_or_more": 0.04,
        # classes added after seeded defect C16/m12 (anchors and merge keys in x.yaml)
        "TestEquivalence/yaml_anchors": 0.17, "TestEquivalence/yaml_anchor_locals_block": 0.17, "TestEquivalence/yaml_anchor_inline": 0.09,
        "TestEquivalence/yaml_merge_key": 0.12, "TestEquivalence/yaml_merge_override": 0.06, "TestEquivalence/yaml_merge_adds_new_key": 0.05,
        "TestEquivalence/yaml_merge_override_in_headers": 0.018, "TestEquivalence/yaml_merge_override_in_mapping": 0.03,
        "TestEquivalence/yaml_merge_override_in_metadata": 0.006, "TestEquivalence/yaml_merge_list": 0.015,
        "TestEquivalence/yaml_merge_list_with_common_key": 0.012, "TestEquivalence/yaml_alias_of_whole_map": 0.015,
        "TestEquivalence/yaml_merge_key_after_explicit_keys": 0.02,
        "TestLocals/yaml_anchors": 0.16, "TestLocals/yaml_merge_key": 0.12, "TestLocals/yaml_merge_override": 0.05, "TestLocals/yaml_merge_list": 0.012,
        # classes added after seeded defect C16/m14 (config placeholders in the string values of a description)
        "TestEquivalence/placeholders": 0.06, "TestEquivalence/ph_in_body_or_payload": 0.045, "TestEquivalence/ph_in_body": 0.022,
        "TestEquivalence/ph_in_payload": 0.02, "TestEquivalence/ph_outside_body_and_payload": 0.04, "TestEquivalence/ph_in_uri": 0.008,
        "TestEquivalence/ph_in_header_value": 0.006, "TestEquivalence/ph_in_metadata_value": 0.003, "TestEquivalence/ph_in_tag": 0.006,
        "TestEquivalence/ph_in_mapping_value": 0.016, "TestEquivalence/ph_in_assert_item": 0.007, "TestEquivalence/ph_in_variables_value": 0.0008,
        "TestEquivalence/ph_src_env": 0.033, "TestEquivalence/ph_src_bare": 0.012, "TestEquivalence/ph_src_property": 0.029,
        "TestEquivalence/ph_whole_value": 0.023, "TestEquivalence/ph_embedded": 0.055, "TestEquivalence/ph_several_in_one_value": 0.023,
        "TestEquivalence/ph_one_variable_in_several_values": 0.03, "TestEquivalence/ph_one_variable_in_body_and_elsewhere": 0.018,
        "TestEquivalence/ph_in_hcl_heredoc": 0.004, "TestEquivalence/ph_in_yaml_block_scalar": 0.02, "TestEquivalence/ph_blank_after_colon": 0.009,
        "TestEquivalence/ph_value_special": 0.04, "TestEquivalence/ph_value_empty": 0.0008, "TestEquivalence/ph_value_several_lines": 0.0008,
        "TestEquivalence/ph_names_nothing_both_must_reject": 0.0024,
        "TestLocals/placeholders": 0.055, "TestLocals/ph_in_body_or_payload": 0.033, "TestLocals/ph_outside_body_and_payload": 0.039,
        "TestLocals/ph_src_property": 0.028, "TestLocals/ph_one_variable_in_body_and_elsewhere": 0.014,
        "TestLocals/ph_names_nothing_both_must_reject": 0.001,
        "TestConcurrentLoads/conc_all_descriptions_differ": 0.6, "TestConcurrentLoads/conc_http_and_grpc": 0.4,
        "TestConcurrentLoads/conc_hcl_over_2k": 0.3, "TestConcurrentLoads/conc_loaders_5_per_processor_or_more": 0.2,
        "TestConcurrentLoads/conc_40_hcl_loads_or_more": 0.4, "TestConcurrentLoads/conc_12_provider_builds_or_more": 0.6,
        "TestLocals/yaml_literal": 0.4, "TestLocals/yaml_folded": 0.3, "TestLocals/yaml_block_line_starts_with_tab": 0.08,
        "TestLocals/yaml_block_first_line_starts_with_tab": 0.04,
        "TestLocals/fn_coalesce": 0.05, "TestLocals/fn_coalescelist": 0.05, "TestLocals/fn_compact": 0.05, "TestLocals/fn_concat": 0.2,
        "TestLocals/fn_distinct": 0.05, "TestLocals/fn_element": 0.1, "TestLocals/fn_flatten": 0.05, "TestLocals/fn_keys": 0.03,
        "TestLocals/fn_lookup": 0.05, "TestLocals/fn_merge": 0.1, "TestLocals/fn_reverse": 0.05, "TestLocals/fn_slice": 0.05,
        "TestLocals/fn_sort": 0.03, "TestLocals/fn_split": 0.05, "TestLocals/fn_values": 0.05, "TestLocals/fn_zipmap": 0.05,
        "TestLocals/local_refers_to_earlier_block": 0.2, "TestLocals/attr_refers_to_local": 0.3,
        "TestLocals/template_interpolation": 0.1, "TestLocals/local_redeclared": 0.03, "TestLocals/local_overridden_by_later_block": 0.05,
        "TestLocals/locals_blocks_2": 0.15, "TestLocals/locals_blocks_3": 0.15,
    },
    "manifest": {
        "technique": ("differential property testing (rapid): one generated description rendered by two independent renderers "
                      "(hclwrite / yaml.v2 plus hand-written scalar styles) and read through pandora's two front-ends, plus a field-by-field statement of the "
                      "description and a reference evaluator for the HCL-only expressions"),
        "text": ("For every generated description config.ReadAmmoConfig(x.hcl) and config.ReadAmmoConfig(x.yaml) must both succeed and "
                 "be equal under a normalising comparison (nil = empty map/slice, pointers by value, exported fields only, dynamic "
                 "types of processors / templaters / sources kept); each of the two results must also equal the configuration the description "
                 "states field by field (nothing lost or altered by the struct -> YAML text -> map -> decoder hop, nor by the way the "
                 "file is read: body / payload text incl. its final line breaks; config placeholders filled in, in a body or payload as in a uri or header); and the real "
                 "http/scenario / grpc/scenario providers built through config decoding from the two files must deliver, over one "
                 "full weight cycle plus one item, ammo that is identical as the guns see it (id, scenario name, min waiting time, "
                 "every step with all request / call fields, processors, templater type, sleeps, variable storage via Variables()). "
                 "TestConcurrentLoads: every configuration / every ammo list obtained while other goroutines convert other descriptions "
                 "must be the one the same file gives when it is loaded alone (hence the one of its twin in the other syntax and the one "
                 "the description states); no load may fail; no data race (thorough)."),
        "note": ("Values produced by randomisation functions in `variables` sources are masked (they are random by design). The HCL "
                 "`headers` argument is required by the HCL front-end, so a request without headers is written `headers = {}` there "
                 "and left out in YAML. coalesce() is only called with null or non-empty arguments (the linked documentation and the "
                 "implementation differ on empty strings). Three findings (a map key `<<` is unreadable after the HCL -> YAML text hop; "
                 "`index` is bound to element access instead of the documented search; bare numbers / booleans in a `variables` "
                 "source become strings in HCL only) are steered around by redrawing while listed as known and re-confirmed by fixed "
                 "witnesses in TestKnownWitness (which also runs the documentation's own HCL / YAML example); while index() is "
                 "excluded no generated case calls it. Of the YAML layout the scalar styles of string values (block, plain, "
                 "single- and double-quoted by hand), the order of the keys of the mappings with fixed keys and the end of the file vary; "
                 "the order inside user maps (headers, mapping, ...), keys, the block structure and numbers are as yaml.v2 writes them (no flow "
                 "collections, no indented sequences, no comments), and HCL strings are quoted or `<<EOT` heredocs (no `<<-`). The "
                 "user maps are optionally written through anchors, aliases and merge keys with a `locals` helper block (values inside such a map as Marshal "
                 "writes them; an overriding key always AFTER the `<<`: measured, not asserted - yaml.v2 lets a `<<` that stands after an explicit key win "
                 "over it, unlike YAML 1.1). The native byte-mutation campaign of the design and HCL comment / "
                 "CRLF layouts are not implemented (measured, not asserted: in a file saved with CR LF line ends an HCL heredoc body keeps "
                 "\\r\\n while a YAML block scalar gives \\n). A description without scenarios is only required to mean the same in both syntaxes."),
    },
    "assumptions": [
        "locals blocks are evaluated in file order and a name assigned again by a later block means the later value from then on (the documentation only shows re-declaration with the same value)",
        "ReadAmmoConfig / ConvertHCLToAmmo / ParseAmmoConfig may be called from several goroutines at once (providers are built by embedding applications, parallel tests and per-pool constructors; nothing documents a one-caller restriction): what a file means does not depend on what else the process converts at that moment",
        "the interleavings of TestConcurrentLoads are those the Go scheduler produces with 3-6 busy loaders per processor (GOMAXPROCS=4); the race detector (thorough) reports unsynchronised sharing also where no visible difference resulted",
        "all cases of a process rewrite the same file names: a front-end may not remember anything by file name",
        "strings are NFC-normalised: HCL normalises string values to NFC by specification, so other strings are not expressible in both syntaxes",
        "a scenario description is read through the config decoder, so ${env:NAME} / ${NAME} / ${property:file#key} in any of its string values is replaced by the variable's value and a placeholder that names nothing makes the file unreadable (docs/eng/config.md; what C17 TestScenarioPlaceholders establishes for the YAML form) - in both syntaxes alike, HCL writing the text as $${...}; the placeholder language itself (spelling of names, casts to numbers / booleans) is property C17: C16 writes plain names, string fields and values without `${`, and no other complete ${...} sequence is generated",
        "the documented semantics of the HCL functions are those of the pages docs/eng/scenario/functions.md links to",
        "hclwrite's quoted-string escaping and yaml.v2's Marshal are the trusted base of the two renderers (the key `<<`, which yaml.v2 writes unquoted, is quoted by the harness)",
        "a YAML file with anchors, aliases and merge keys means what yaml.v2's Unmarshal reads from it (explicit key over merged key when written after the `<<`, earlier anchor of a merge list over later): it is only written when the whole file then decodes exactly as the Marshal form does, plus the `locals` helper block, which docs/eng/scenario/locals.md offers for common values and which is not part of the description",
        "a hand-written YAML scalar means what yaml.v2's Unmarshal (the library the YAML front-end, config.DecodeMap, reads files with) reads from it: it is only written when the whole file then decodes exactly as the Marshal form does",
    ],
}
