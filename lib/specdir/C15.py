"""run specification for C15 (loaded by lib/specs.py)"""

SPEC = {
    "pkg": "c15",
    "tests": [
        {"name": "TestScenarioExecution", "quick": 800, "thorough": 48000, "shards_quick": 16, "shards_thorough": 16, "timeout": 3000},
        {"name": "TestNextAcrossInstances", "quick": 320, "thorough": 24000, "shards_quick": 8, "shards_thorough": 16, "timeout": 3000},
        {"name": "TestNextFirstTouchRace", "quick": 1600, "thorough": 64000, "shards_quick": 8, "shards_thorough": 16, "timeout": 3000,
         "race_thorough": True},
        {"name": "TestHeavyWeights", "quick": 240, "thorough": 12000, "shards_quick": 8, "shards_thorough": 16, "timeout": 3000},
        {"name": "TestKnownWitness", "quick": 1, "thorough": 1, "shards": 1, "timeout": 300},
    ],
    "rule": ("TestHeavyWeights (added after seeded defect C15/m16): 2-4 scenarios of which one or two carry nearly all of the load "
             "(weights 300-12000 next to 1-40, any order, all optionally multiplied by 2 / 5 / 10 / 100), http and grpc scenario "
             "provider drained for 1-2 whole cycles of the weights by 1-4 consumers: scenario i must be delivered exactly cycles x w_i / gcd times. "
             "TestNextFirstTouchRace: 150 trials per case; in each a FRESH lib/mp iterator (what every scenario gets at provider "
             "construction) is used by 2-8 goroutines released together, each evaluating 1-3 `source.<name>[next].id` paths 1-4 times "
             "over 1-5 rows; per path the rows handed out must be exactly round-robin as a multiset. rapid-generated scenario programs (internal/sceninterp.Program: every templated string is a list of literal parts and "
             "references, so the oracle never parses a Go template): 1-3 csv / json / variables sources with 1-5 rows (header line, "
             "delimiter, wrapped json array, numeric cells, values with spaces/quotes/commas), 1-3 weighted scenarios (weights 1-6, "
             "min_waiting_time 0-5 ms) each starting with a request of its own, 0-3 shared requests; request lists with name, name(n), "
             "name(n,ms), sleep(ms) (n <= 3, pauses <= 3 ms, <= 8 executed steps), in three scenarios of ten a request is listed a "
             "second time with another pause argument or none (a pause belongs to the occurrence it is written at); about one "
             "request in five has no postprocessors at all; in 55 % of the programs (added after seeded defect C15/m10) scenarios and requests are "
             "renamed to snake_case names of 1-3 words from a nine-word vocabulary (like auth_req / scenario_name of the documentation) everywhere a "
             "name is written (request lists, the leading /<name> of the URI, preprocessor paths, template references), and in three "
             "quarters of those with >= 2 scenarios a word sequence is cut at two places so that two different (scenario, request) uses "
             "read the same when joined by an underscore (scenario `order` + request `new_item`, scenario `order_new` + request `item`); "
             "half of these pairs get a header of the same name with differing values and a third both a body; 40 % of the requests name "
             "a templater explicitly - `text`, or (60 % of them) `html`: Go's html/template, for which the interpreter states that each of "
             "uri / header value / body is a template of its own in HTML text context, so literal text stays as written (the generator's literal "
             "fragments hold complete plain tags only - checked per request, not assumed), every value is written with & < > \" ' + and NUL "
             "replaced by &amp; &lt; &gt; &#34; &#39; &#43; U+FFFD and a missing variable prints nothing (internal/sceninterp "
             "TestHTMLModel compares this statement with the library over the generator's fragments) -, the others leave the templater out; URI / header / body templates over source "
             "rows, variables, own and earlier steps' preprocessor variables and values captured by var/jsonpath, var/header (with "
             "lower/upper/substr/replace) and var/xpath of earlier steps, incl. references to steps that did not run; preprocessors with "
             "[next], [last], [i], variables and earlier steps' values; assert/response (status, body, header, and - added after seeded "
             "defect C15/m7 - `size` with op > / < / = in 45 % of the assertions, with or without body patterns next to it: thresholds of "
             "< and > lie at least 40 bytes above or below every body the request can be answered with, 70 % chosen to hold and 30 % to "
             "fail, `=` takes the exact size of one planned answer or a size no answer has; a body of exactly val bytes under < or >, which "
             "the documentation does not settle, is never generated and checked for at run time). One request in four is answered with "
             "bodies padded by 300 / 1500 / 2500 / 5000 bytes. In 65 % of the cases the target sends part of its answers (a drawn periodic "
             "pattern over the request number) WITHOUT Content-Length, flushed in two pieces at a drawn offset (chunked transfer "
             "encoding); all other answers carry Content-Length, also beyond Go's 2 KiB write buffer. The method of a request is GET / POST / "
             "PUT / DELETE or - added after seeded defect C15/m13, 13 % of the requests - HEAD: the target answers a HEAD step as net/http "
             "servers do, status line and headers and NO body, with the Content-Length of the body the same request would get under GET "
             "where that answer carries Content-Length and without any where it would be chunked; a HEAD step has no postprocessors (three "
             "in ten), or var/header and assert/response on status, headers and `size` (the body has 0 bytes: `<` 40.. and `= 0` "
             "hold, `>` 40.. and `=` another size fail) - what var/jsonpath, var/xpath and body patterns make of an absent body the "
             "documentation does not say; such a step passes, leaves a sample with the status of the answer, and the later steps run. In "
             "25 % of the cases the gun's answer log is on (`answlog: {enabled: true, filter: all}`, written to /dev/null), so the gun reads "
             "the body of every answer, also of steps without postprocessors. Added after seeded defect C15/m14: in 60 % of the programs in "
             "which several scenarios list the same request, one such request gets a data source of its own (2-5 rows) that its "
             "preprocessor indexes with [next] - the common first action of different kinds of users that takes the next user: over all "
             "its executions, whichever scenario (and instance) runs it, it must get rows 0,1,2,... mod R (one counter in the reference "
             "interpreter for a request listed by several scenarios; in TestNextAcrossInstances this request refers to no other step and "
             "no step refers to it, so that the multiset of requests does not depend on which invocation got which row). The description is "
             "rendered to YAML (internal/scengen) and run by the real http/scenario provider + gun + engine (pool built by "
             "config.DecodeAndValidate, recording aggregator) against the in-process recording target, which answers the n-th request "
             "with values unique to n and the generated faults (non-200 status, connection closed without a response, connection dropped "
             "in the middle of the body after status line, headers and the Content-Length of the whole body were sent - both kinds "
             "of transport failure also aimed at steps without postprocessors -, body 4000 bytes longer than usual (aimed at steps with a size "
             "assertion), body without the asserted marker, "
             "missing asserted header, captured JSON object turned into a string so that a later template cannot be executed). "
             "Added after seeded defect C15/m15: the connection closed without a response also where the gun keeps connections alive "
             "(disable-keep-alives: false), i.e. on a connection taken from the idle pool - a later step of a shot or the first step of a "
             "later shot: 22 % of the faults are aimed at a POST / PUT / DELETE request that is not the first of the run, and connections "
             "are then kept alive in three cases of four; the step must be reported failed, the shot must end and the target must have "
             "received the request exactly once (request log and sample stream are compared one by one). net/http's Transport re-sends "
             "replayable requests (GET / HEAD) by itself when a REUSED connection is closed before any byte of an answer - below the "
             "gun, the property is silent about it -, so with keep-alive the target drops connections only for the first request of "
             "the run (fresh connection) and for POST / PUT / DELETE (never re-sent); a close fault that turns out to hit a GET / HEAD on "
             "a kept-alive connection is void (Case.reply), and cases with close faults planned at GET / HEAD positions run without "
             "keep-alive as before. "
             "TestScenarioExecution: one instance, whole multiples of sum(w)/gcd shots; the reference interpreter is replayed against "
             "the request log and the sample stream step by step; the engine's provider is wrapped by a pass-through recorder and the "
             "scenario ammo of every Acquire (exported fields of the http/scenario gun's ammo: step names, Sleep per step, "
             "MinWaitingTime) is compared with the interpreter's expansion of the request list. TestNextAcrossInstances: 1-4 instances, programs whose first step "
             "takes one [next] row per invocation, target answers as a function of the request; multisets of rendered requests and of "
             "samples are compared. Non-trivial = a captured value of an earlier step was rendered into a later request, or a "
             "multiplicity != 1, or a step failed, or >= 2 weighted scenarios (TestScenarioExecution); [next] used with >= 2 instances "
             "or wrapped around the source (TestNextAcrossInstances); distinct = hash of the case."),
    "floors": {"TestScenarioExecution/flow_captured_value": 0.15, "TestScenarioExecution/multiplicity": 0.3,
               "TestScenarioExecution/multiplicity_with_sleep": 0.08, "TestScenarioExecution/pause_checked": 0.2,
               "TestScenarioExecution/ammo_pauses_checked": 0.5,
               "TestScenarioExecution/repeated_request_pause_argument_differs": 0.2,
               "TestScenarioExecution/fail_transport_body_cut": 0.08,
               "TestScenarioExecution/fail_transport_close_on_reused_connection": 0.06,
               "TestScenarioExecution/fail_transport_close_on_reused_connection_later_step": 0.035,
               "TestScenarioExecution/fail_transport_close_on_reused_connection_first_step_of_later_shot": 0.02,
               "TestScenarioExecution/fail_transport_close_on_reused_connection_before_last_step": 0.045,
               "TestScenarioExecution/fail_transport_step_without_postprocessors": 0.06,
               "TestScenarioExecution/fail_body_cut_step_without_postprocessors": 0.04,
               # classes added after seeded defect C15/m7 (size-only assertion judged on an answer without Content-Length)
               "TestScenarioExecution/assert_size_only_chunked_holds": 0.03, "TestScenarioExecution/assert_size_only_chunked_fails": 0.015,
               "TestScenarioExecution/assert_size_only_chunked_lt_fails": 0.005, "TestScenarioExecution/assert_size_only_chunked_gt_holds": 0.01,
               "TestScenarioExecution/assert_size_only_content_length_holds": 0.04, "TestScenarioExecution/assert_size_only_content_length_fails": 0.015,
               "TestScenarioExecution/assert_size_with_body_patterns_chunked": 0.04, "TestScenarioExecution/fail_assert_size": 0.06,
               "TestScenarioExecution/fail_assert_size_chunked_reply": 0.035, "TestScenarioExecution/reply_chunked": 0.3,
               "TestScenarioExecution/fail_assert": 0.1, "TestScenarioExecution/fail_transport": 0.05,
               "TestScenarioExecution/fail_template_by_captured_value": 0.02, "TestScenarioExecution/fail_at_middle_step": 0.08,
               "TestScenarioExecution/scenarios_ge_2": 0.25, "TestScenarioExecution/weights_gcd_gt_1": 0.03,
               "TestScenarioExecution/next_used": 0.3, "TestScenarioExecution/next_wrapped": 0.15,
               "TestScenarioExecution/non2xx_without_assert_continues": 0.036,
               "TestScenarioExecution/header_named_url_or_body": 0.03,
               # classes added after seeded defect C15/m10 (two (scenario, request) uses whose names join to the same string)
               "TestScenarioExecution/request_names_with_underscore": 0.3,
               "TestScenarioExecution/names_join_equally_both_rendered_default_templater": 0.05,
               "TestScenarioExecution/names_join_equally_default_templater_same_header_name": 0.025,
               "TestScenarioExecution/names_join_equally_default_templater_both_body": 0.015,
               "TestNextAcrossInstances/names_join_equally_both_rendered_default_templater": 0.04,
               "TestHeavyWeights/ring_gt_1000": 0.35, "TestHeavyWeights/ring_gt_5000": 0.12, "TestHeavyWeights/provider_grpc/scenario": 0.2,
               # the html templater as a dimension (not prompted by a seed)
               "TestScenarioExecution/templater_html_step_rendered": 0.25, "TestScenarioExecution/templater_html_and_text_steps_in_one_run": 0.2,
               "TestScenarioExecution/templater_html_value_needs_escaping": 0.03, "TestScenarioExecution/templater_html_missing_var": 0.02,
               "TestScenarioExecution/templater_html_value_in_uri": 0.15, "TestScenarioExecution/templater_html_value_in_header": 0.2,
               "TestScenarioExecution/templater_html_value_in_body": 0.07,
               # classes added after seeded defect C15/m13 (HEAD step whose absent body the gun reads under an announced Content-Length)
               "TestScenarioExecution/head_step": 0.12, "TestScenarioExecution/head_step_body_read_content_length_announced": 0.06,
               "TestScenarioExecution/head_step_with_postprocessors_content_length_announced": 0.05,
               "TestScenarioExecution/head_step_without_postprocessors_answlog_content_length_announced": 0.004,
               "TestScenarioExecution/head_step_no_content_length": 0.07,
               "TestScenarioExecution/step_after_head_step_body_read_content_length_announced": 0.05,
               "TestScenarioExecution/assert_size_only_head": 0.015, "TestScenarioExecution/answlog_enabled": 0.11,
               "TestNextAcrossInstances/head_step": 0.13, "TestNextAcrossInstances/answlog_enabled": 0.11,
               # classes added after seeded defect C15/m14 ([next] in the preprocessor of a request that several scenarios list)
               "TestScenarioExecution/next_in_request_shared_by_scenarios": 0.03,
               "TestScenarioExecution/next_in_request_shared_by_scenarios_wrapped": 0.03,
               "TestNextAcrossInstances/next_in_request_shared_by_scenarios": 0.04,
               "TestNextAcrossInstances/next_in_request_shared_by_scenarios_instances_ge_2": 0.025,
               "TestNextAcrossInstances/next_wrapped": 0.25, "TestNextAcrossInstances/invocations_interleaved_at_target": 0.2,
               "TestNextAcrossInstances/instances_4": 0.1},
    "manifest": {
        "technique": ("model-based property testing (rapid): generated scenario programs executed by the real provider, gun and engine "
                      "against a scripted recording target, judged by a reference interpreter written from the documentation"),
        "text": ("Per invocation the target's request log must be the expanded step list (multiplicities, order) cut after the first "
                 "failing step, every URI / header / body must equal the interpreter's rendering from source rows and from values set "
                 "earlier in the same invocation - by the templates of the step's own request, whatever the scenario and request names are -, every executed step must leave exactly one sample (status of the response, or marked "
                 "failed for the failing step: failed assertion - a `size` assertion is judged on the number of body bytes the target sent, whether they "
                 "came with Content-Length or chunked -, closed connection, response body cut short by a dropped connection - with "
                 "or without postprocessors on the step -, template or preprocessor that cannot be evaluated; a HEAD step answered with headers "
                 "only - with or without Content-Length - is not a failed step, whether or not the gun reads bodies because of "
                 "postprocessors or the answer log), "
                 "nothing may be sent after a failed step, pauses (name(n,ms), sleep(ms), min_waiting_time) must separate the "
                 "recorded arrival times by at least their length, the scenario handed to the gun for an invocation must carry after every "
                 "step exactly the pause its own occurrence in the list states (none where none is stated), over whole cycles scenario i must run w_i/gcd times per cycle, and "
                 "[next] must hand out rows 0,1,2,... mod R per scenario and path - to a request that several scenarios list: over all its "
                 "executions in all of them - (exact sequence with one instance, multiset with 1-4)."),
        "note": ("[rand], the randomisation functions, HCL input (C16) and the http2 gun "
                 "are not exercised. The html templater is exercised in HTML text context only (no template whose literal text opens a tag, "
                 "attribute, script, style or comment in front of an action: what html/template does there is its own large specification). Size assertions: only the documented spellings > < = and never a body of exactly val bytes under < or > "
                 "(the documentation does not say whether the comparison is strict). substr is only generated in the forms substr(from) and substr(0,n), where the documentation "
                 "(from, length) and the implementation (from, end) agree. A [next] path is confined to one scenario, or to one request "
                 "that several scenarios list (with a source of its own), and used at most once per preprocessor (the documentation does not "
                 "settle what two different requests of different scenarios share that index the same source with [next], nor the evaluation "
                 "order inside one mapping). HEAD steps carry no var/jsonpath, var/xpath or body patterns (an absent body is not settled "
                 "for them); debug logging, the third reason for the gun to read bodies, is not switched on. At the target pauses are only bounded from below by the clock; that no pause is longer than stated (or present "
                 "where none is stated) is judged on the Sleep / MinWaitingTime fields of the ammo the provider hands to the gun, not by "
                 "timing. A body cut short is produced by closing the connection, not by a client-side timeout. Invocations are told apart by a first step unique to each scenario."),
    },
    "assumptions": [
        "a missing template key renders as `<no value>` (standard text/template behaviour, which the documentation refers to)",
        "a preprocessor mapping that refers to a value no executed step has set fails the step",
        "sleep(ms) after name(n) pauses once, after the last repetition",
    ],
}
