"""run specification for C14 (loaded by lib/specs.py)"""

SPEC = {
    "pkg": "c14",
    "tests": [
        {"name": "TestPreloadEquivalence", "quick": 2400, "thorough": 160000, "shards_quick": 8, "shards_thorough": 16, "timeout": 2400},
        {"name": "TestKnownWitness", "quick": 1, "thorough": 1, "shards": 1, "timeout": 120},
    ],
    # thorough tier: coverage-guided campaigns over the same generators + oracles (rapid.MakeFuzz)
    "fuzz": [{"name": "FuzzModel", "seconds": 60}],
    "rule": ("rapid-generated ammo files (internal/ammogen, all layout knobs; tags drawn from a small pool so they repeat; untagged "
             "entries) in the four HTTP formats x limit 0..12 x passes 0..3 x chosencases (none / a subset of the pool incl. the empty "
             "tag / a tag matching nothing) x the documented header/date ammo middleware (absent in two cases of three; default or custom "
             "headerName outside the ammo's own header names, location unset / UTC / EST); each case builds the provider twice, preload off and on, through config.DecodeAndValidate "
             "and drains both. Non-trivial = chosencases selects a proper non-empty subset, or a bound is hit; distinct = hash of the "
             "case. Cases whose filter matches nothing are steered away while the known finding is listed (counted in excluded_known); "
             "its fixed witness runs in TestKnownWitness."),
    "floors": {"TestPreloadEquivalence/proper_subset": 0.15, "TestPreloadEquivalence/filter_x_limit": 0.08,
               "TestPreloadEquivalence/filter_x_passes": 0.08, "TestPreloadEquivalence/limit_hit_with_filter": 0.03,
               "TestPreloadEquivalence/date_middleware": 0.13, "TestPreloadEquivalence/date_middleware_entry_redelivered": 0.094,
               "TestPreloadEquivalence/date_middleware_redelivered_entry_has_headers": 0.07},
    "manifest": {
        "technique": "differential property testing (rapid): the same generated file and settings with preload off vs on, plus an absolute model of chosencases/limit/passes",
        "text": ("Both providers must deliver exactly the entries whose tag is listed, in file order, cyclically, identical item by item "
                 "(method, URI, body, tag, Host, headers), stop after min(limit, passes*selected) delivered items and end the same way "
                 "(Run nil, end of ammo observed). With the header/date middleware configured every delivered request, on every pass and in "
                 "both modes, carries exactly one non-empty value of the date header and no other header the entry does not define."),
        "note": ("One listed known finding (filter matching nothing ends differently with preload) is excluded by construction and "
                 "re-confirmed by a fixed witness each run; any other disagreement is a violation."),
    },
    "assumptions": ["unbounded cells compare the first 3E+2 items"],
}
