"""run specification for C14 (loaded by lib/specs.py)"""

SPEC = {
    "pkg": "c14",
    "tests": [
        {"name": "TestPreloadEquivalence", "quick": 2400, "thorough": 160000, "shards_quick": 8, "shards_thorough": 16, "timeout": 2400},
        {"name": "TestKnownWitness", "quick": 1, "thorough": 1, "shards": 1, "timeout": 120},
        {"name": "TestNoEntries", "quick": 1200, "thorough": 40000, "shards_quick": 4, "shards_thorough": 8, "timeout": 1200},
        {"name": "TestKnownWitnessNoEntries", "quick": 1, "thorough": 1, "shards": 1, "timeout": 120},
        {"name": "TestLongLines", "quick": 1200, "thorough": 40000, "shards_quick": 4, "shards_thorough": 8, "timeout": 1800},
    ],
    # thorough tier: coverage-guided campaigns over the same generators + oracles (rapid.MakeFuzz)
    "fuzz": [{"name": "FuzzModel", "seconds": 60}, {"name": "FuzzNoEntries", "seconds": 20}, {"name": "FuzzLongLines", "seconds": 20}],
    "rule": ("every delivered request is, once observed, treated as the built-in gun treats it before the ammo is released (req.URL pointed at a target, empty Host filled); "
             "rapid-generated ammo files (internal/ammogen, all layout knobs; tags drawn from a small pool so they repeat; untagged "
             "entries) in the four HTTP formats x limit 0..12 x passes 0..3 x chosencases (none / the key given with an explicitly empty list, "
             "`chosencases: []`, decoded through the config path like every other setting / a subset of the pool incl. the empty "
             "tag / a tag matching nothing) x the documented header/date ammo middleware (absent in two cases of three; default or custom "
             "headerName outside the ammo's own header names, location unset / UTC / EST); each case builds the provider twice, preload off and on, through config.DecodeAndValidate "
             "and drains both. Non-trivial = chosencases selects a proper non-empty subset, or a bound is hit; distinct = hash of the "
             "case. Cases whose filter matches nothing are steered away while the known finding is listed (counted in excluded_known); "
             "its fixed witness runs in TestKnownWitness. TestNoEntries: ammo files WITHOUT any entry (empty; 1-4 blank / whitespace-only lines, "
             "LF or CRLF, the last one possibly unterminated; uri/uripost files and inline `uris` holding only [Header: value] directives; an "
             "http/json file holding an empty array) x limit {0,1,3,5} x passes 0..3 x chosencases (absent / explicitly empty / 1-2 tags), "
             "built and run with preload off and on; non-trivial = both providers were built and run. Such a file is not the listed "
             "finding's shape (entries exist, none matches) and is never excused by it. "
             "TestLongLines: generated files (1-5 entries; uri in four cases of seven, a third of those through inline `uris`; uripost, raw, http/json) in which 1-2 "
             "lines are LONG - an entry with a query string, or a uri/uripost '[Name: value]' line with a value, that brings the line to 4096..65003 bytes "
             "(lengths at and around 4096 / 8192 / 16384 / 32768 and up to just below bufio's 64 KiB default) - x `maxammosize` unset (half) / below the longest line "
             "(1, 100, 1024, 4096, half, one less) / at it / above it x bounds that mostly take the delivery beyond one pass (passes 2-3, limit above the number of "
             "entries, both, none; single pass and small limits as controls) x chosencases (none in three of four, else tags of the file's entries) x 1-3 ammo held at once; "
             "preload off and on. Non-trivial = a selected entry is long (or carries a long header) and more is delivered than one pass holds."),
    "floors": {"TestPreloadEquivalence/file_on_os_file_system_bounded_run_must_end_nil": 0.1, "TestPreloadEquivalence/proper_subset": 0.15, "TestPreloadEquivalence/filter_x_limit": 0.08,
               "TestPreloadEquivalence/filter_x_passes": 0.08, "TestPreloadEquivalence/limit_hit_with_filter": 0.03,
               "TestPreloadEquivalence/date_middleware": 0.13, "TestPreloadEquivalence/date_middleware_entry_redelivered": 0.094,
               "TestPreloadEquivalence/date_middleware_redelivered_entry_has_headers": 0.07,
               "TestPreloadEquivalence/explicit_empty_chosencases": 0.07, "TestPreloadEquivalence/explicit_empty_chosencases_x_limit": 0.035,
               "TestPreloadEquivalence/explicit_empty_chosencases_limit_cuts_run": 0.02,
               "TestNoEntries/none_with_chosencases": 0.25, "TestNoEntries/none_with_chosencases_passes_not_1": 0.2,
               "TestNoEntries/none_shape_empty": 0.12, "TestNoEntries/none_shape_blank_lines": 0.12,
               "TestNoEntries/none_shape_directives_only": 0.12, "TestNoEntries/none_shape_json_empty_array": 0.06,
               "TestNoEntries/none_format_raw": 0.12, "TestNoEntries/none_format_uri": 0.12, "TestNoEntries/none_format_uripost": 0.12,
               "TestNoEntries/none_with_explicit_empty_chosencases": 0.08,
               "TestLongLines/long_line_4k_or_more": 0.49, "TestLongLines/long_line_just_above_4k": 0.2, "TestLongLines/long_line_32k_or_more": 0.1,
               "TestLongLines/long_format_uri": 0.31, "TestLongLines/long_inline_uris": 0.15, "TestLongLines/long_directive_value": 0.07,
               "TestLongLines/long_line_delivered_again": 0.23, "TestLongLines/long_line_delivered_again_uri": 0.17,
               "TestLongLines/long_line_delivered_again_inline_uris": 0.07, "TestLongLines/long_line_delivered_again_maxammosize_unset": 0.15,
               "TestLongLines/long_line_delivered_again_maxammosize_below": 0.03, "TestLongLines/long_line_delivered_again_maxammosize_above": 0.025,
               "TestLongLines/long_line_delivered_again_by_passes": 0.14, "TestLongLines/long_line_delivered_again_by_limit": 0.06,
               "TestLongLines/long_line_delivered_again_unbounded": 0.04, "TestLongLines/long_line_delivered_again_with_filter": 0.05,
               "TestLongLines/long_single_pass_control": 0.1},
    "manifest": {
        "technique": "differential property testing (rapid): the same generated file and settings with preload off vs on, plus an absolute model of chosencases/limit/passes",
        "text": ("Both providers must deliver exactly the entries whose tag is listed, in file order, cyclically, identical item by item "
                 "(method, URI, body, tag, Host, headers), stop after min(limit, passes*selected) delivered items and end the same way "
                 "(Run nil, end of ammo observed). With the header/date middleware configured every delivered request, on every pass and in "
                 "both modes, carries exactly one non-empty value of the date header and no other header the entry does not define. "
                 "An explicitly empty chosencases list names no tag to restrict the test to and is judged as no filter (limit and passes "
                 "bound the run as without the key). For a file without entries: the preload flag must not change whether the provider can "
                 "be constructed, neither mode delivers anything, and both runs end the same way (Run error or not, end of ammo seen, no hang). "
                 "For files with long lines: while `maxammosize` is unset (default 64 KiB) or at least two bytes above the longest line, every entry is within the limits and the "
                 "full model above applies (every pass delivers the long entries again, Run nil); with `maxammosize` at or below the longest line a reader may "
                 "enforce it, so only sameness is asserted: the same number of ammo, identical item by item, and the same ending (Run error or not, end of ammo seen, no hang) with preload off and on."),
        "note": ("One listed known finding (filter matching nothing ends differently with preload) is excluded by construction and "
                 "re-confirmed by a fixed witness each run; any other disagreement is a violation. For files without entries only sameness of "
                 "the ending is asserted, not which ending it is (the docs do not say that an empty file must fail)."),
    },
    "assumptions": ["a line shorter than 64 KiB - 2 with maxammosize unset or above it is within every reader's documented limits (maxammosize: 'Maximum number of byte in jsonline ammo. Default is bufio.MaxScanTokenSize')",
                    "unbounded cells compare the first 3E+2 items",
                    "`chosencases: []` means no filter (confutil.IsChosenCase: 'If no chosenCases provided - returns true')"],
}
