"""run specification for C18 (loaded by lib/specs.py)"""


def _shape_classes():
    """the constructor-shape cross product, enumerated independently of the Go harness (names as Shape.String())"""
    out = []
    for kind in ("C", "F"):
        for conf, defaults in (("none", ("none",)), ("struct", ("none", "func")), ("ptr", ("none", "func", "nilptr"))):
            for d in defaults:
                for ctor in ("ctor", "ctorE"):
                    for fac in (("",) if kind == "C" else (".fac", ".facE")):
                        for res in ("iface", "concrete", "wider"):
                            out.append("TestShapes/shape_%s.%s.%s%s.def-%s.%s" % (kind, conf, ctor, fac, d, res))
    assert len(out) == 108
    return out


_ILLEGAL = [
    "plugin_type_not_interface", "plugin_type_pointer_to_interface", "empty_name", "duplicate_name",
    "constructor_not_func_string", "constructor_not_func_error", "constructor_not_func_component", "constructor_no_results",
    "constructor_config_only_no_results", "result_not_implementing_struct", "result_not_implementing_int",
    "result_value_type_methods_on_pointer", "result_is_error_only", "two_config_args_struct", "two_config_args_ptr",
    "two_config_args_mixed", "config_int", "config_ptr_int", "config_string", "config_map", "config_slice_of_struct",
    "config_ptr_ptr_struct", "config_interface", "three_results", "second_result_component", "second_result_string",
    "second_result_bool", "default_config_without_config_arg", "default_ptr_for_struct_config", "default_struct_for_ptr_config",
    "default_other_struct", "default_func_takes_args", "default_func_two_results", "default_is_value_not_func",
    "default_is_ptr_value_not_func", "two_default_configs", "factory_default_wrong_type", "factory_default_without_config_arg",
    "factory_two_config_args", "factory_config_not_struct", "factory_three_results", "factory_second_result_not_error",
    "factory_returned_func_accepts_config", "factory_returned_func_not_implementing", "factory_returned_func_no_results",
    "factory_returned_func_three_results", "factory_returned_func_second_not_error", "factory_of_factory",
]

SPEC = {
    "pkg": "c18",
    "tests": [
        {"name": "TestShapes", "quick": 320, "thorough": 32000, "shards_quick": 8, "shards_thorough": 16, "timeout": 1800},
        {"name": "TestSequences", "quick": 6000, "thorough": 600000, "shards_quick": 4, "shards_thorough": 16, "timeout": 1800},
        {"name": "TestConfigPath", "quick": 3000, "thorough": 300000, "shards_quick": 2, "shards_thorough": 16, "timeout": 1800},
        {"name": "TestConcurrentFactory", "quick": 240, "thorough": 24000, "shards_quick": 4, "shards_thorough": 16, "timeout": 1800,
         "race": True, "replay_repeat": 20},
        {"name": "TestRegisterHelpers", "quick": 1800, "thorough": 300000, "shards_quick": 2, "shards_thorough": 16, "timeout": 1800},
        {"name": "TestNestedSections", "quick": 3000, "thorough": 300000, "shards_quick": 2, "shards_thorough": 16, "timeout": 1800},
        {"name": "TestIllegalRegistrations", "quick": 3000, "thorough": 60000, "shards_quick": 2, "shards_thorough": 8, "timeout": 1800},
    ],
    "rule": ("TestShapes: every case registers ALL 108 supported constructor shapes ({returns component | returns factory} x {no config | "
             "struct | *struct} x {constructor error result or not} x {returned factory with / without error} x {no default config | "
             "default func | default func returning a nil pointer} x {result type is the plugin interface | concrete *Impl | a wider "
             "interface}), built with reflect.MakeFunc, under 108 names on one private plugin.NewRegistry(), and drives one rapid-drawn "
             "script (default config; 1-3 sessions of settings + fillConf/constructor failures at NewFactory + 1-4 creations each with an "
             "optional failing fillConf / constructor / registered factory and an optional in-place mutation of the product's config) "
             "through each shape in all five requested forms (New; NewFactory func() (I, error); NewFactory func() I; and - added after "
             "seeded defect C18/m14 - NewFactory of the DEFINED func types `type CompFactory func() (I, error)` and `type "
             "CompFactoryNoErr func() I`, which must yield a value of exactly the requested type) = 540 combinations. Every failing "
             "constructor / registered-factory call also draws what it returns BESIDE its error (added after seeded defect C18/m13): "
             "nil, a NON-NIL first result (a half-built component; a failing factory constructor: a working factory) or - interface "
             "result types - an interface holding a nil pointer; the error has to arrive all the same, in component form and in "
             "every factory form, and a factory returned beside an error must not be used. "
             "TestSequences: one random shape x form (+ 0-2 other registrations in the same registry) with 1-5 sessions of 1-8 creations; "
             "one factory form in six requests the defined func type; the same beside-the-error dimension. "
             "TestConfigPath: 15 component types registered once on the global registry, created through pandora's real decoder + "
             "pluginconfig hooks into interface / func() (I, error) / func() I fields with generated settings, bad settings (unknown key, "
             "wrong type, validation), failing constructors / factories, 1-5 products; 8 of the types ({component, factory} x {struct, "
             "pointer config} x {default-config function, none} x error results) have a config whose validate rules (`s` required, "
             "`n` min=1) the registered default - or the zero config - does not pass, and are created from a section holding only the "
             "type key, from one that sets what the default lacks, and from any subset of the options; one factory field in three has "
             "the defined func type CompFactory / CompFactoryNoErr (the decoder must fill it with a working factory of that type), and "
             "failing constructors / registered factories return nil, a non-nil result (factory constructors: a working factory) or a "
             "typed nil beside their error, which must surface at decode / at every product all the same. TestConcurrentFactory (race-detector build in both tiers): one COMPONENT constructor "
             "taking a config (struct / pointer x default func / none x error result x result type), 1-2 factories made from it with "
             "different settings (func() (I, error) or func() I); after 0-5 sequential products every factory is called from 2-6 "
             "goroutines at once, 10-120 times each (3 of 4 cases: fillConf lets the goroutines of a factory leave it together). "
             "Every fillConf call stamps the configuration it decodes with its own number: fillConf / constructor / product counts "
             "are equal, every decoded configuration reached exactly one constructor (pointer configs: as the very object that was "
             "filled), products of a factory hold default overlaid by THAT factory's settings, and what a product writes into its own "
             "configuration after construction (a scalar while the others still run, strings / slice elements / map entries once they "
             "are done) shows in no other product; a race report of the detector is a violation. TestRegisterHelpers: the six "
             "per-kind helpers of core/register (Provider, Limiter, Gun, Aggregator, DataSource, DataSink) each register components "
             "of their core interface in six constructor shapes ({component, factory} x {struct, pointer config} with a "
             "default-config function - a different default per kind -, one component and one factory shape without), created by "
             "name as component / func() (I, error) / func() I, directly (plugin.New / NewFactory + overlaying fillConf) and "
             "through the decoder and plugin hooks, from any subset of the options, 1-3 products: configured with the registered "
             "default of that kind overlaid by the settings (unset options keep the default), constructor / registered-factory "
             "call counts as for plugin.Register. TestNestedSections (added after seeded defect C18/m11): four NESTING component "
             "types ({component, factory} constructor x {struct config, pointer config with default func and error results}) whose "
             "config holds an interface-typed plugin field, a list of them, one inside a plain settings struct, a func() (I, error) "
             "field and a list of func() I fields; the generated section tree (flat components of TestConfigPath's seven non-strict "
             "types or, one level down, nesting components again; every section by itself given as map[string]interface{} - JSON, "
             "viper YAML - or map[interface{}]interface{}, type key spelled type / Type / TYPE) is decoded by the real decoder and "
             "hooks into a component field 1-4 times from the same settings value, or into a func() (I, error) / func() I field whose "
             "factory is called 1-4 times, and every nested factory of every product is called 1-2 times (and once more at the "
             "end): every product and every nested component is configured with its registered default overlaid by ITS section, "
             "products decoded separately (component constructors, repeated decoding, nested factories of component constructors) "
             "share no component and no config object, the constructor of the top registration ran once per product (factory "
             "constructors: once), and after the decode and after every product the caller's settings deep-equal a copy taken "
             "before; one case in nine makes a flat component section right under the top one bad (unknown key, no type key, "
             "failing constructor): the error must reach the caller at decode (component field, factory constructor) or at EVERY "
             "product (result, or panic carrying it), settings still unchanged. TestIllegalRegistrations: 48 registrations the "
             "package documents as illegal. Non-trivial = >= 2 products from one factory or an error path was taken (illegal "
             "registrations: always); distinct = hash of the case."),
    "floors": {
        "TestConcurrentFactory/long_living_factory": 0.45, "TestConcurrentFactory/concurrent_first_products": 0.06,
        "TestConcurrentFactory/conf_struct": 0.25, "TestConcurrentFactory/conf_ptr": 0.25, "TestConcurrentFactory/default_func": 0.25,
        "TestConcurrentFactory/default_none": 0.25, "TestConcurrentFactory/form_factory_err": 0.25, "TestConcurrentFactory/form_factory_noerr": 0.25,
        "TestConcurrentFactory/ctor_has_error_result": 0.25, "TestConcurrentFactory/aligned_calls": 0.4,
        "TestConcurrentFactory/factories_2": 0.15, "TestConcurrentFactory/goroutines_ge_4": 0.3,
        "TestConcurrentFactory/config_with_slice_or_map": 0.3,
        "TestRegisterHelpers/unset_option_keeps_default": 0.3, "TestRegisterHelpers/partial_overlay_of_default": 0.35,
        "TestRegisterHelpers/path:direct": 0.25, "TestRegisterHelpers/path:decoder": 0.25, "TestRegisterHelpers/form:component": 0.15,
        "TestRegisterHelpers/form:factory_err": 0.15, "TestRegisterHelpers/form:factory_noerr": 0.15,
        "TestRegisterHelpers/factory_constructor": 0.2, "TestRegisterHelpers/no_settings_at_all": 0.02,
        "TestRegisterHelpers/unset_option_keeps_default:Provider": 0.035, "TestRegisterHelpers/helper_without_default:Provider": 0.008,
        "TestRegisterHelpers/unset_option_keeps_default:Limiter": 0.035, "TestRegisterHelpers/helper_without_default:Limiter": 0.008,
        "TestRegisterHelpers/unset_option_keeps_default:Gun": 0.035, "TestRegisterHelpers/helper_without_default:Gun": 0.008,
        "TestRegisterHelpers/unset_option_keeps_default:Aggregator": 0.035, "TestRegisterHelpers/helper_without_default:Aggregator": 0.008,
        "TestRegisterHelpers/unset_option_keeps_default:DataSource": 0.035, "TestRegisterHelpers/helper_without_default:DataSource": 0.008,
        "TestRegisterHelpers/unset_option_keeps_default:DataSink": 0.035, "TestRegisterHelpers/helper_without_default:DataSink": 0.008,
        # classes added after seeded defect C18/m11 (nested component sections decoded once per product)
        "TestNestedSections/section_decoded_2plus_times": 0.27,
        "TestNestedSections/decoded_2plus_times_nested_component_string_keys": 0.22,
        "TestNestedSections/decoded_2plus_times_nested_component_yaml_keys": 0.12,
        "TestNestedSections/component_ctor_factory_2plus_products_nested_string_keys": 0.13,
        "TestNestedSections/component_ctor_factory_2plus_products_nested_list": 0.08,
        "TestNestedSections/component_ctor_factory_2plus_products_nested_in_plain_struct": 0.045,
        "TestNestedSections/component_field_decoded_2plus_times_string_keys": 0.06,
        "TestNestedSections/factory_ctor_factory_2plus_products": 0.14,
        "TestNestedSections/nesting_component_inside_nesting_component": 0.25,
        "TestNestedSections/nested_factory_called_2plus_times": 0.18,
        "TestNestedSections/nested_error_at_decode": 0.028, "TestNestedSections/nested_error_at_every_product": 0.02,
        "TestNestedSections/field_factory_err": 0.25, "TestNestedSections/field_factory_noerr": 0.2,
        "TestShapes/factory_with_2plus_products": 0.5, "TestShapes/error_as_result": 0.38, "TestShapes/error_as_panic": 0.3,
        "TestShapes/fillconf_error": 0.18, "TestShapes/constructor_error": 0.2, "TestShapes/registered_factory_error": 0.2,
        "TestShapes/newfactory_error": 0.19, "TestShapes/config_mutated_by_product": 0.35, "TestShapes/independence_checked": 0.5,
        "TestShapes/same_type_no_wrap": 0.5,
        # classes added after seeded defects C18/m13 (error returned together with a non-nil result) and C18/m14 (defined factory types)
        "TestShapes/error_beside_nonnil_result_component_form": 0.1, "TestShapes/error_beside_nonnil_result_factory_form": 0.09,
        "TestShapes/error_beside_typed_nil_component_form": 0.09, "TestShapes/error_beside_typed_nil_factory_form": 0.09,
        "TestShapes/error_beside_nonnil_factory_at_newfactory": 0.06,
        "TestShapes/named_factory_type": 0.5, "TestShapes/named_factory_type_same_signature": 0.45,
        "TestSequences/error_beside_nonnil_result_component_form": 0.02, "TestSequences/error_beside_nonnil_result_factory_form": 0.04,
        "TestSequences/error_beside_typed_nil_component_form": 0.008, "TestSequences/error_beside_typed_nil_factory_form": 0.024,
        "TestSequences/error_beside_nonnil_factory_at_newfactory": 0.014,
        "TestSequences/named_factory_type": 0.05, "TestSequences/named_factory_type_same_signature": 0.005,
        "TestConfigPath/field_of_named_factory_type": 0.11, "TestConfigPath/field_of_named_factory_type_factory_constructor": 0.035,
        "TestConfigPath/field_of_named_factory_type_products_made": 0.055,
        "TestConfigPath/error_beside_nonnil_result": 0.02, "TestConfigPath/error_beside_typed_nil": 0.002,
        "TestConfigPath/error_beside_nonnil_result_component_field": 0.004, "TestConfigPath/error_beside_nonnil_result_factory_field": 0.015,
        "TestSequences/kind_component": 0.24, "TestSequences/kind_factory": 0.3, "TestSequences/conf_none": 0.1,
        "TestSequences/conf_struct": 0.25, "TestSequences/conf_ptr": 0.18, "TestSequences/default_func": 0.25,
        "TestSequences/default_nilptr": 0.04, "TestSequences/form_new": 0.12, "TestSequences/form_factory_err": 0.25,
        "TestSequences/form_factory_noerr": 0.17, "TestSequences/error_as_panic": 0.08, "TestSequences/error_as_result": 0.23,
        "TestSequences/factory_with_2plus_products": 0.4, "TestSequences/registered_factory_error": 0.05,
        "TestSequences/same_type_no_wrap": 0.03, "TestSequences/config_mutated_by_product": 0.3,
        "TestConfigPath/field_component": 0.1, "TestConfigPath/field_factory_err": 0.25, "TestConfigPath/field_factory_noerr": 0.17,
        "TestConfigPath/factory_with_2plus_products": 0.14, "TestConfigPath/config_error_at_decode": 0.08,
        "TestConfigPath/config_error_as_result_at_product": 0.03, "TestConfigPath/config_error_as_panic_at_product": 0.03,
        "TestConfigPath/partial_overlay_of_default": 0.2, "TestConfigPath/config_mutated_by_product": 0.12,
        "TestConfigPath/default_invalid_type_only_section": 0.05, "TestConfigPath/default_invalid_partly_overridden": 0.02,
        "TestConfigPath/default_invalid_overridden_by_section": 0.06,
        "TestConfigPath/default_invalid_component_component": 0.008, "TestConfigPath/default_invalid_component_factory_err": 0.015,
        "TestConfigPath/default_invalid_component_factory_noerr": 0.012, "TestConfigPath/default_invalid_factory_component": 0.008,
        "TestConfigPath/default_invalid_factory_factory_err": 0.015, "TestConfigPath/default_invalid_factory_factory_noerr": 0.015,
    },
    "required_classes": (_shape_classes() + ["TestIllegalRegistrations/illegal_" + n for n in _ILLEGAL]
                         + ["TestShapes/form_" + f for f in ("new", "factory_err", "factory_noerr", "named_factory_err", "named_factory_noerr")]),
    "exhaustive_note": ("constructor-shape cross product: 108 shapes x 5 requested forms (component, unnamed and defined factory type "
                        "with / without error result) = 540 combinations are ALL executed by every "
                        "TestShapes case (exhaustive for that sub-space; the call sequences driven through them are sampled)"),
    "manifest": {
        "technique": ("model-based property testing (rapid): exhaustive enumeration of the reflect.MakeFunc-built constructor-shape cross "
                      "product x random call sequences against a reference model of the registry; differential through the real config decoder"),
        "text": ("Recording constructors of every supported shape are registered on a private registry; recording fillConf callbacks "
                 "overlay generated settings. After every New / NewFactory / factory call the harness compares with the model: the "
                 "constructor received (and the product holds) registered default overlaid by the settings; fillConf always gets a valid, "
                 "fresh struct pointer holding exactly the default; an injected error arrives as the error result, or as a panic carrying "
                 "that very error value exactly when the requested factory type has no error result, and never both ways - also when the "
                 "failing constructor or registered factory hands back a non-nil (or typed-nil) first result together with the error, as "
                 "pandora's own phout aggregator registration does; a factory requested as a defined func type is a value of that type "
                 "(through the registry and when the decoder fills a struct field of that type); for component "
                 "constructors fillConf and the constructor run exactly once per product (none when the factory is made), products' "
                 "configs are pointer-distinct and unaffected by other products scribbling over their slices/maps; for factory "
                 "constructors fillConf and the constructor run once per NewFactory and the registered factory once per product; other "
                 "registrations in the registry are never touched; unknown names are an error result. Illegal registrations must panic "
                 "at Register and leave earlier registrations working. Factories made from component constructors are also called from "
                 "several goroutines at once over a long life (race-detector build): each decoded configuration reaches exactly one "
                 "product and later writes of a product into its configuration show nowhere else. The per-kind helpers of core/register "
                 "are exercised with default-config functions for all six component kinds, directly and through the decoder: unset "
                 "options keep the registered default. The same is checked end-to-end through config.Decode + pluginconfig hooks, "
                 "where a registered default that breaks the config's validate rules and is not repaired by the section (in particular a "
                 "section holding only the type key) is a config error that must reach the caller like any other, and a section that "
                 "repairs it yields components configured with default overlaid by the section. Components whose settings nest "
                 "further component and factory sections are created through the same path repeatedly: every product gets nested "
                 "components of its own, each configured by its own section, and the settings the caller handed over (string-keyed "
                 "or untyped-keyed maps) are the same after every decode and every product as before."),
        "note": ("fillConf in the private-registry tests is the harness' own overlay (present fields replace), so decoder semantics for "
                 "slices/maps that overlay NON-empty defaults (mapstructure merges element-wise) are deliberately not asserted; the "
                 "config-path test uses nil slice/map defaults. For constructors without a config the number of fillConf calls per "
                 "product is not asserted (the registry consults it once when the factory is made); only that its failure is reported "
                 "before any product is delivered. Errors are matched with errors.Is (identity of the injected value), through the decoder "
                 "by message, because mapstructure flattens errors to strings."),
    },
    "assumptions": [
        "factories of one registration may be called from several goroutines at once (the engine starts the instances of a pool - one gun factory call each, one schedule factory call with rps-per-instance - in goroutines of their own)",
        "the helpers covered are the exported functions of core/register at the time of writing: Provider, Limiter, Gun, Aggregator, DataSource, DataSink (RegisterPtr is what TestConfigPath registers through)",
        "a failed creation does not poison a factory: later calls of the same factory are judged by the same model",
        "decoding does not edit the settings value it is given: a factory of a component constructor decodes the same section (and the sections nested in it) once per product, so the caller's maps are its input for every later product (/repo 9d29bd6)",
        "the component's observable config is what the recording constructor received (struct configs are copied by value by Go itself)",
    ],
}
