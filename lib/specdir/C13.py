"""run specification for C13 (loaded by lib/specs.py)"""

_AMMO = {"quick": 3000, "thorough": 120000, "shards_quick": 2, "shards_thorough": 16, "timeout": 2400, "mem_gb": 4}

# first bytes of the structural garbage class (added after seeded defect C13/m5)
_FIRST = ["close_bracket", "close_brace", "comma", "colon", "open_bracket", "open_brace", "quote"]

SPEC = {
    "pkg": "c13",
    "tests": [
        dict(_AMMO, name="TestF1Uri"),
        dict(_AMMO, name="TestF2Uripost"),
        dict(_AMMO, name="TestF3Raw"),
        dict(_AMMO, name="TestF4HTTPJSON"),
        dict(_AMMO, name="TestF5GrpcJSON"),
        {"name": "TestF6Scenario", "quick": 3000, "thorough": 80000, "shards_quick": 3, "shards_thorough": 16, "timeout": 2400, "mem_gb": 4},
        {"name": "TestF7Config", "quick": 2400, "thorough": 48000, "shards_quick": 2, "shards_thorough": 16, "timeout": 2400, "mem_gb": 4},
        {"name": "TestF8Parsers", "quick": 6000, "thorough": 320000, "shards_quick": 1, "shards_thorough": 16, "timeout": 2400, "mem_gb": 4},
        {"name": "TestF10GenericJSON", "quick": 600, "thorough": 40000, "shards_quick": 4, "shards_thorough": 16, "timeout": 2400, "mem_gb": 4},
        # subprocess of the real CLI per case (about 30 ms each)
        {"name": "TestF9CLIConfig", "quick": 240, "thorough": 8000, "shards_quick": 8, "shards_thorough": 16, "timeout": 2400},
        {"name": "TestWitnesses", "quick": 1, "thorough": 1, "shards": 1, "timeout": 300, "mem_gb": 4},
    ],
    "cmds": ["vpandora"],
    # native coverage-guided campaigns (thorough tier only; wired by the driver): the semantic oracle is inside f.Fuzz,
    # seeds come from /verif/corpus/c13/<name>/ (valid files + hostile constants)
    "fuzz": [
        {"name": "FuzzUri", "seconds": 45}, {"name": "FuzzUripost", "seconds": 45}, {"name": "FuzzRaw", "seconds": 45},
        {"name": "FuzzHTTPJSON", "seconds": 45}, {"name": "FuzzGrpcJSON", "seconds": 45}, {"name": "FuzzScenarioYAML", "seconds": 45},
        {"name": "FuzzScenarioHCL", "seconds": 45}, {"name": "FuzzConfig", "seconds": 45}, {"name": "FuzzParsers", "seconds": 45},
    ],
    "rule": ("F10 (TestF10GenericJSON): the generic `json` provider on empty, blank, truncated, garbage, array and scalar sources x "
             "passes 0/1/2 x limit 0/3/7 x queue sizes, drained by two consumers and cancelled 2 ms after they stop: it must deliver or "
             "end, never spin or ignore the cancel. F9 (TestF9CLIConfig): the real command line (cmd/vpandora = pandora's main) is started on generated config FILES of wrong "
             "overall shape (no / misspelt / scalar / null / map `pools`, pools holding scalars, nulls or lists, sections of the wrong "
             "kind, truncated text, garbage appended, YAML text under a .json name): it must end by itself without a Go panic or runtime "
             "fatal error. Eight targets. F1-F5 (uri, uripost, raw, http/json, grpc/json): ammo-file bytes = a valid ammogen file put through 1-3 byte "
             "mutations (truncate at any offset, cut a range, splice a hostile token or a piece of another valid file, replace a digit run by "
             "-1 / 0 / 2^30 / 99999999999 / 2^63 ..., duplicate / drop / swap lines, CRLF, set a byte, drop the final newline, insert a 70 KB "
             "line, repeat the file), or a hostile constant, or random bytes, or an unmodified valid file; preload on/off (continueonerror "
             "on/off for grpc/json), limit in {0,1,2,5,12}, passes in {0,1,2}; one case in four is metamorphic: a valid file V, then garbage G "
             "on a fresh line (G known-malformed for the format in two of three; for the two JSON formats half of the known-malformed G begin "
             "with a JSON structural character - each of ] } , : [ { and the quote in turn, followed by one of 5-10 tails incl. nothing, the "
             "same character again, a complete valid entry, a second array - which can never continue a well-formed file; for http/json such a "
             "case is, one time in three, written as one top-level array, and in half of the cases G follows the last valid value after "
             "no whitespace, a space, a tab, a newline, CRLF or blank lines instead of on a fresh line); one metamorphic case in five puts ONE VERY "
             "LONG LINE behind the valid entries instead (added after seeded defect C13/m7): for the two bufio.Scanner formats a line of "
             "1 / 2 / 7 / 64 / 4500 / limit/16 bytes more than the reader's token limit - 65536 for uri and grpc/json, or grpc/json's "
             "`maxammosize` set to 512 / 1024 / 4096 / 20000 in half of its cases -, as a well-formed entry padded to that length (two of three) "
             "or junk / a header line that never closes, one entry line in four staying 2 / 3 / 16 / limit/4 bytes UNDER the limit as the "
             "control; for http/json a padded entry or junk around 65536 bytes, for uripost / raw a junk header line of 5000-70000 bytes; "
             "grpc/json with 1-2 valid entries behind the line in half of the cases; passes 0 / 1 / 2, limit 0 / 1 / 2 / 5 / 12 (passes 0 "
             "without a limit only where the first pass must end in an error). F6: scengen descriptions (YAML and HCL) with 1-2 "
             "structured mutations out of 27 (leading / only sleep(), sleep() behind 1-3 steps name(c) with c <= 0 that build no request - in "
             "front of the list, in place of it or in front of its tail -, zero / negative multiplicities on all steps, on the steps in "
             "front of the first sleep() or on one step, 20 bad step strings, unknown request, no scenarios, no step "
             "definitions, duplicate names, negative / zero / huge weights, empty / broken / odd CSV and JSON sources, missing file, unknown "
             "component type, hostile index expressions, template syntax, placeholders, hostile postprocessor expressions), and/or byte "
             "mutations of the rendered text, or hostile constants. F7: four pool configurations with 0-2 scalar positions replaced by "
             "unresolvable / key-less / resolvable placeholders, inert look-alikes, wrong types, deletions, unknown keys. F8: mp.GetMapValue "
             "(8 array types x length 0-3 x 22 index expressions), str.ParseStringFunc, templater.ParseFunc + exec, the scenario "
             "preprocessor, uripost.DecodeURI, raw.DecodeHeader, util.DecodeHeader, var/xpath, var/jsonpath, var/header on hostile, "
             "mutated and random expressions and bodies. Non-trivial = a mutated valid input or a metamorphic case, or an input rejected "
             "after at least one entry was delivered; distinct = hash of the case."),
    "floors": {
        "TestF1Uri/rejected_after_delivering": 0.03, "TestF2Uripost/rejected_after_delivering": 0.05, "TestF3Raw/rejected_after_delivering": 0.05,
        "TestF4HTTPJSON/rejected_after_delivering": 0.03, "TestF5GrpcJSON/rejected_after_delivering": 0.03,
        "TestF1Uri/meta_must_reject": 0.074, "TestF2Uripost/meta_must_reject": 0.1, "TestF3Raw/meta_must_reject": 0.1,
        "TestF4HTTPJSON/meta_must_reject": 0.05, "TestF5GrpcJSON/meta_must_reject": 0.1,
        # classes added after seeded defect C13/m5 (garbage after a JSON array that begins with a closing bracket / brace)
        "TestF4HTTPJSON/meta_garbage_structural": 0.058, "TestF5GrpcJSON/meta_garbage_structural": 0.061,
        "TestF4HTTPJSON/meta_garbage_glued_after_array": 0.015, "TestF4HTTPJSON/meta_garbage_glued_after_lines": 0.013,
        "TestF4HTTPJSON/meta_garbage_first_close_bracket_after_array": 0.002, "TestF4HTTPJSON/meta_garbage_first_close_brace_after_array": 0.002,
        "TestF4HTTPJSON/meta_garbage_first_comma_after_array": 0.0015, "TestF4HTTPJSON/meta_garbage_first_colon_after_array": 0.0015,
        # classes added after seeded defect C13/m7 (a line longer than the scanner's token limit behind valid entries)
        "TestF5GrpcJSON/meta_long_line_over_limit": 0.02, "TestF5GrpcJSON/meta_long_line_over_limit_then_valid": 0.01,
        "TestF5GrpcJSON/meta_long_line_over_max_ammo_size": 0.008, "TestF5GrpcJSON/meta_long_line_over_limit_with_limit": 0.002,
        "TestF5GrpcJSON/meta_long_line_passes_0": 0.0025, "TestF5GrpcJSON/meta_long_line_passes_1": 0.006,
        "TestF5GrpcJSON/meta_long_line_delivered": 0.003, "TestF5GrpcJSON/meta_long_line_rejected": 0.02,
        "TestF1Uri/meta_long_line_over_limit": 0.02, "TestF1Uri/meta_long_line_rejected": 0.015, "TestF1Uri/meta_long_line_delivered": 0.004,
        "TestF1Uri/meta_long_line_over_limit_with_limit": 0.006, "TestF1Uri/meta_long_line_passes_0": 0.005,
        "TestF2Uripost/meta_long_line_rejected": 0.02, "TestF3Raw/meta_long_line_rejected": 0.02, "TestF4HTTPJSON/meta_long_line_rejected": 0.008,
        "TestF2Uripost/op_digits": 0.1, "TestF3Raw/op_digits": 0.1, "TestF1Uri/preload": 0.3, "TestF5GrpcJSON/continue_on_error": 0.3,
        "TestF6Scenario/syntax_hcl": 0.15, "TestF6Scenario/kind_grpc": 0.2, "TestF6Scenario/must_reject_rejected": 0.1,
        "TestF6Scenario/accepted": 0.1, "TestF6Scenario/rejected_at_construction": 0.2,
        # sleep() at index >= 1 of a request list while every step in front of it expands to zero requests (model-level label)
        "TestF6Scenario/list_sleep_after_empty_prefix_http": 0.006, "TestF6Scenario/list_sleep_after_empty_prefix_grpc": 0.003,
        "TestF6Scenario/list_scenario_of_zero_requests": 0.006, "TestF6Scenario/list_negative_count": 0.01, "TestF6Scenario/list_zero_count": 0.01,
        "TestF7Config/must_reject": 0.15, "TestF7Config/accepted": 0.1, "TestF7Config/rejected": 0.3,
        "TestF8Parsers/index_into_empty_array": 0.02, "TestF8Parsers/target_xpath": 0.045, "TestF8Parsers/target_header": 0.054,
        "TestF8Parsers/func_ok": 0.02, "TestF8Parsers/func_error": 0.02,
    },
    # (the `_after_pretty` cells occur 2-8 times per quick run: too rare to be required of every seed)
    "required_classes": (["TestF4HTTPJSON/meta_garbage_first_%s_after_%s" % (f, l) for f in _FIRST for l in ("array", "lines")]
                         + ["TestF5GrpcJSON/meta_garbage_first_" + f for f in _FIRST]
                         + ["TestF4HTTPJSON/meta_garbage_glue_" + g for g in ("none", "space", "tab", "newline", "crlf", "blank_lines")]
                         + ["TestF4HTTPJSON/meta_garbage_on_fresh_line"]),
    "manifest": {
        "technique": ("mutation-based property testing (rapid) of every input decoder with a no-crash / no-hang / bounded-allocation oracle plus "
                      "metamorphic valid-prefix and must-reject relations; the same oracles run inside native Go fuzz targets (thorough tier)"),
        "text": ("For every generated input: no panic anywhere on the path construction -> Run -> Acquire -> (for scenarios) the "
                 "preprocessor/templater/postprocessor calls the gun makes; every call returns within 5 s (>= 1000x normal; reported only "
                 "if it hangs again on an immediate re-run, with goroutine stacks); at most 256 MB (parsers: 512 MB) allocated in total for one input (the "
                 "worker additionally runs under ulimit -v 4 GB); never more entries than limit, never more than the file can hold per "
                 "pass; every delivered entry is well-formed. Metamorphic: with garbage G after a valid file V the first |V| entries "
                 "delivered are exactly V's (method, URI, body, tag, Host, headers), and when G is malformed by the format's documentation "
                 "Run must return an error after exactly |V| entries (streaming) / at most |V| (preload); grpc/json with continueonerror "
                 "delivers the good lines of every pass, marks the bad one invalid and returns nil. A very long line behind |V| valid entries: "
                 "junk, a header that never closes, and any grpc/json line longer than `maxammosize` / 65536 (\"maximum number of byte in an "
                 "ammo\") must make Run return an error after exactly the |V| entries, for every passes / limit setting whose limit lies "
                 "behind the line (grpc/json with continueonerror may instead skip it: all good lines of every pass, one invalid mark per "
                 "pass); a well-formed entry under the limit must be delivered in every pass in its place (grpc/json: compared field by "
                 "field); a well-formed uri / http/json entry over 65536 bytes, a limit those formats' documentation does not state, may be "
                 "rejected that way or delivered, but the run never ends without an error short of passes x entries / limit - a line is never "
                 "dropped silently, alone or with what follows it. Structured scenario mutations and "
                 "unresolvable config placeholders that are malformed by construction must be rejected with an error."),
        "note": ("Listed known findings are steered around by construction and excused only by symptom (the panicking / spinning frame); "
                 "their fixed witnesses run in TestWitnesses. Inputs holding a number of >= 9 digits are first judged with it replaced by 3e8 (ammo), 1e8 "
                 "(parsers) or 3e6 (config): a probe the allocation meter can report, because an absurd allocation kills the worker "
                 "(about 1 GB of headroom under ulimit -v 4 GB); generated scenario counts / weights are capped at 1e6 / 4e7 for the same "
                 "reason. The allocation ceiling is 256 MB for ammo, scenario and config inputs and 512 MB for the parsers."),
    },
    "assumptions": [
        "a scenario step is dry-shot (preprocessor, templater, postprocessors against a canned response) instead of sent to a target: no network, no sleeps",
        "an HTTP entry the provider refuses at Acquire (returns the ammo with ok=false and logs) counts as rejected, not as end of ammo",
        "trailing garbage that happens to be a valid entry of the format is allowed to be delivered after the valid prefix",
    ],
}

