"""run specification for C04 (loaded by lib/specs.py)"""

SPEC = {
    "pkg": "c04",
    "tests": [
        # sleep-bound: 48 cases per process run concurrently (vf.Batch); thorough = 480 per process
        {"name": "TestTiming", "quick": 48, "thorough": 480, "shards_quick": 2, "shards_thorough": 6, "timeout": 3000},
        # dense profiles: CPU-bound for a fraction of a second each, 6 at a time per process
        {"name": "TestNoEarlyShotDense", "quick": 24, "thorough": 240, "shards_quick": 2, "shards_thorough": 4, "timeout": 3000},
        # sleep-bound (7-10 s per case): 32 cases per process concurrently; thorough = 320 per process
        {"name": "TestDiscardedInPhout", "quick": 32, "thorough": 320, "shards_quick": 2, "shards_thorough": 4, "timeout": 3000},
        # unlimited-tail profiles, 2-5 s per case: 24 cases per process concurrently; thorough = 240 per process
        {"name": "TestProfileTime", "quick": 24, "thorough": 240, "shards_quick": 2, "shards_thorough": 4, "timeout": 3000},
        # sleep-bound (5-13 s per case, thorough up to ~30 s): 12 cases per process concurrently; thorough = 40 per process
        {"name": "TestLongWaits", "quick": 12, "thorough": 40, "shards_quick": 2, "shards_thorough": 4, "timeout": 3000},
        # step sections, 1-6 s per case: 24 cases per process concurrently; thorough = 240 per process, 24 at a time
        {"name": "TestStepProfile", "quick": 24, "thorough": 240, "shards_quick": 2, "shards_thorough": 4, "timeout": 3000},
        # drawn startup schedules / rps schedules started in the past, 7-13 s per case: 16 cases per process concurrently; thorough = 160 per process
        {"name": "TestStartup", "quick": 16, "thorough": 160, "shards_quick": 2, "shards_thorough": 4, "timeout": 3000},
        # dense profiles (thousands of tokens per second per instance) x a 2.1-2.8 s hiccup, 4-7 s per case: 3 cases per process concurrently; thorough = 24 per process
        {"name": "TestDenseHiccup", "quick": 3, "thorough": 24, "shards_quick": 4, "shards_thorough": 4, "timeout": 3000},
    ],
    "rule": ("generated profiles (once/const/line, optionally two chained; 1-12 tokens per part over 1-4 s), 1-4 instances, shared or "
             "per-instance, discard_overflow on/off, cyclic response-time histories drawn from {0, 50ms, 0.5s, 1.7s, 1.9s, 2.1s, 2.4s, 3s, "
             "3.5s} so that lateness lands on both sides of the 2 s threshold; one case in five is a burst, a 2.6-3.4 s pause and a steady part with a slow "
             "first response, so that tokens have to be waited for right after a discard; real engine, real time, recording doubles, 48 cases "
             "concurrently per process. For every token: T scheduled time, A instant Next returned it, B instant of Shoot entry / discard "
             "report (joined by goroutine id). Non-trivial = at least one token handed out >= 1 s late; distinct = hash of the case. "
             "TestNoEarlyShotDense: const / line profiles of 700-6000 tokens per second for 60-250 ms, 1-3 instances, responses of 0-900 us, "
             "so that instances keep arriving at their next token a fraction of a millisecond early; same per-token comparison (B >= T "
             "exactly); non-trivial = at least 10 shots entered within 1 ms after their token's time. "
             "TestDiscardedInPhout: discarded tokens as the user reads them: real engine, the REAL phout aggregator writing a file (in-memory "
             "fs; ids on/off, sample queue 8 / 1024 / default) and guns that report like the stock ones (netsample.Acquire at the start of a "
             "request, SetProtoCode, Report; unique tag, id and a proto code per shot); const / line profiles (optionally two chained) of "
             "8-80 tokens per second for 4.5-6.5 s, 1-3 instances, cyclic response histories 'one stall of 2.1-3 s, then 2-30 responses of "
             "0-20 ms', so that every instance alternates discard bursts and bursts of ordinary shots (one case in six: discard_overflow off, "
             "2 s profile); 32 cases concurrently per process, all sharing netsample's sample pool. Oracle over the file: tokens not fired "
             "(tokens handed out minus Shoot calls) == lines having tag 'discarded' AND net code 777, no line has only one of the two, every "
             "fired request has exactly one line with its own tag, id, net code 0 and proto code, no other lines; discard off: no token "
             "unfired. Non-trivial = some instance discarded, fired, and discarded again (or, discard off, fired at all). "
             "In TestTiming, TestNoEarlyShotDense, TestProfileTime and TestLongWaits (one oracle) a shot is compared with TWO times: the token's own (what Next returned) and the time the load "
             "PROFILE gives the request: sections follow each other from the start of the schedule (not before the first Next call was "
             "entered), each limited section drained alone from the finish of the one before it (schedgen.Chain); the tokens one schedule "
             "object hands out are ranked by time, rank k is request k of the profile; tokens of an unlimited section (and of limited "
             "sections between two unlimited ones) only have the start of the first unlimited section as a lower bound, limited sections "
             "after the last unlimited one are counted from the end. "
             "TestProfileTime: profiles whose size is unknown in advance: 1-3 limited sections (const / line of 1-8 tokens over 0.4-1.5 s, "
             "once 1-4, pause 0.4-1.5 s), then `unlimited` for 80-300 ms, one case in three with another limited section behind it; 1-3 "
             "instances, shared or per-instance, discard on/off, responses of 2-60 ms (one case in five also a 700 ms one), so that instances "
             "are back and ask the schedule whether it is finished (Left) long before a limited section ends; 24 cases concurrently per "
             "process; non-trivial = some limited section followed by an unlimited one ends later than the last request before that end "
             "plus the slowest response (an instance is idle there), the unlimited section fired, and shots were compared with profile times. "
             "TestLongWaits: one instance has to wait 4-11 s (thorough: up to 26 s) in one go for a request: two small steps separated by a "
             "pause, a steady rate of one request per 4-11 s (2-3 requests), or a ramp from zero whose second request is that far away; "
             "1-3 instances (idle instances of a shared schedule take tokens several intervals ahead), responses of 0-200 ms, discard "
             "on/off; all cases of a process concurrently; non-trivial = some token was handed out >= 3 s ahead of its time. "
             "TestStepProfile (same oracle): profiles with `step` sections: 2-4 levels (one in eight: a single level) of 250-900 ms (one in four: "
             "exactly 250 / 500 / 1000 ms), lowest level 0 / 0.5 / 1 / 2 / 3 rps, increment 1-4 rps, `to` on a level or half a request above it, so that "
             "the lowest one to three levels usually hold no request (0 rps, or rate x duration < 1: such a level is a pause that lasts its "
             "duration) and some sections hold none at all; the step section alone (bare or as a one-element list), first, in the middle or last "
             "among bursts / steady / ramp / pause / second step sections of 250-800 ms, one case in five with an `unlimited` tail; 1-3 "
             "instances, shared or per-instance, discard on/off, responses of 0-50 ms (one case in five with discard on: also one of 0.5-2.6 s); "
             "the profile-time reference expands a step section into its levels by the documented meaning (schedgen.Flatten) and chains them; "
             "non-trivial = requests of limited sections are scheduled behind a step level without a request and shots were compared with "
             "profile times. "
             "TestStartup (same oracle): the pool's `startup` schedule is a drawn dimension (everywhere else: once(N), all instances at "
             "the start of the run): instance_step (1-2 at once, then 1-2 more every 2.3-3.6 s), bursts of 1-2 separated by a pause of that "
             "length, a steady rate of one instance per 2.3-3.6 s, a ramp from zero; shared steady / ramp rps schedule of 3-10 requests per "
             "second for 4.5-5.5 s, first response of every gun slower than the distance between two instance starts (one case in four: "
             "0.5-2.1 s), later ones 0-2.6 s, so that a newcomer asks for its FIRST request while the earlier instances sit in a response "
             "and the profile is 1.6-3.5 s behind; three cases in eight: the rps schedule object was started (Schedule.Start) 0.5-4 s in the "
             "past before the pool got it (1-3 instances, shared or per-instance; the profile time counts from that start), so that the "
             "first request of the run is overdue; one case in six discard off (2-4 requests); 16 cases concurrently per process; "
             "non-trivial = some instance asked for its first request >= 1 s into the run or found it >= 0.3 s overdue. "
             "TestDenseHiccup (same oracle; added after seeded defect C04/m17: the run-length clause was never tried where an instance "
             "falls thousands of tokens behind): steady / ramp / step profiles of 2-4 s at 1500-6000 requests per second PER INSTANCE, 1-4 "
             "instances (shared schedule at instances x that rate, or one each), discard_overflow on, every response instant except one "
             "(one case in three: two) per gun of 2.1-2.8 s, at the shot number that corresponds to an instant 0.1-1.2 s into the profile, "
             "so that every instance comes back >= 2 s behind with up to 23000 tokens of its share still to come; the run must end within "
             "profile + 2 s + slowest response (+3 s slack), every token is fired or reported as discarded, per-token clauses as everywhere; "
             "at most 48000 tokens per case, 3 cases concurrently per process; non-trivial = every instance discarded and some instance fired again afterwards."),
    "floors": {"TestTiming/late_1_2s": 0.1, "TestTiming/late_2_3s": 0.1, "TestTiming/late_ge_3s": 0.07,
               "TestTiming/discard_off": 0.066, "TestTiming/instances_gt_1": 0.3, "TestTiming/discards_seen": 0.2, "TestTiming/token_waited_for_right_after_a_discard": 0.08,
               "TestNoEarlyShotDense/shots_within_1ms_after_their_time": 0.3,
               "TestDiscardedInPhout/phout_discard_then_shot_then_discard_on_one_instance": 0.33,
               "TestDiscardedInPhout/phout_discarded_lines_seen": 0.34, "TestDiscardedInPhout/phout_discard_off": 0.05,
               "TestDiscardedInPhout/phout_instances_gt_1": 0.3, "TestDiscardedInPhout/phout_ids_on": 0.25,
               "TestProfileTime/instance_idle_at_end_of_limited_section_before_unlimited": 0.35, "TestProfileTime/unlimited_section_fired": 0.4,
               "TestProfileTime/limited_section_after_unlimited": 0.1, "TestProfileTime/shots_compared_with_profile_time": 0.6,
               "TestTiming/shots_compared_with_profile_time": 0.6,
               "TestStepProfile/requests_behind_step_level_without_request_compared_with_profile_time": 0.3,
               "TestStepProfile/step_profile_begins_with_level_without_request": 0.17,
               "TestStepProfile/step_level_without_request_after_earlier_requests": 0.14,
               "TestStepProfile/step_two_or_more_levels_without_request": 0.12,
               "TestStepProfile/step_section_without_any_request": 0.15,
               "TestStepProfile/step_level_without_request_before_unlimited": 0.1,
               "TestStepProfile/step_fractional_from": 0.05, "TestStepProfile/step_every_level_has_requests": 0.04,
               "TestStepProfile/shots_compared_with_profile_time": 0.44,
               "TestStepProfile/instances_gt_1": 0.2, "TestStepProfile/discard_off": 0.1,
               "TestStartup/discard_on_late_started_instance_first_request_ge_2s_overdue": 0.14,
               "TestStartup/discard_on_prestarted_schedule_first_request_ge_2s_overdue": 0.08,
               "TestStartup/discard_on_instance_first_request_overdue_lt_2s": 0.11,
               "TestStartup/gradual_startup": 0.23, "TestStartup/instance_started_ge_1s_into_the_run": 0.17,
               "TestStartup/rps_schedule_started_in_the_past": 0.2, "TestStartup/discard_off": 0.09,
               "TestDenseHiccup/dense_hiccup_every_instance_discarded": 0.5,
               "TestDenseHiccup/dense_hiccup_shots_resumed_after_discards": 0.4,
               "TestDenseHiccup/dense_hiccup_every_instance_ge_2s_behind_with_ge_5000_tokens_each_to_come": 0.25,
               "TestDenseHiccup/dense_hiccup_every_instance_ge_2s_behind_with_ge_10000_tokens_each_to_come": 0.08,
               "TestDenseHiccup/dense_hiccup_instances_gt_1": 0.3, "TestDenseHiccup/dense_hiccup_two_hiccups": 0.08,
               "TestLongWaits/single_wait_ge_5s": 0.3, "TestLongWaits/single_wait_ge_8s": 0.08, "TestLongWaits/instances_gt_1": 0.2},
    "manifest": {
        "technique": "property-based testing (rapid generators, batch-parallel, real time) with an interval oracle over measured instants",
        "text": ("Real-time runs of the engine against slow fake guns. No shot may enter before its token's time; with discard_overflow on a "
                 "token handed over >= 2 s late (A-T) must be reported as discarded and one acted on < 2 s late (B-T) must be fired, "
                 "anything in between is accepted; with it off nothing is discarded and every token is fired; run length stays within "
                 "profile + 2 s + slowest response (+3 s slack) when discard is on. A third test reads the discarded samples where the user does: "
                 "in the file written by the real phout aggregator, with guns that take their samples from netsample's pool: one "
                 "'discarded' / 777 line per token that was not fired, one faithful line per fired request. 'Scheduled time' is judged "
                 "twice: against the token the schedule handed out and against the timetable computed from the profile itself (sections "
                 "chained from the start of the schedule), including profiles with an unlimited section, for single waits of up to "
                 "11 s (thorough 26 s), and for `step` sections whose lowest levels hold no request (such a level still lasts its duration). The same "
                 "oracle judges the first request an instance picks up when instances start while the run is under way (drawn startup "
                 "schedules: instance_step, steady, ramp, bursts with a pause) behind instances that sit in slow responses, and when the "
                 "rps schedule was started in the past."),
        "note": ("Cannot test the boundary at exactly 2.000 s: lateness between the two measured instants is accepted either way. Joins "
                 "token to shot by goroutine id parsed from runtime.Stack. Machine load delays A and B together and can only move a "
                 "sample into the accepted band. With discard off the run-length bound (profile + tokens x slowest response + 5 s) is only "
                 "a guard against a run that never ends; when it expires while this process's own 2 ms sleeps were measured > 5 ms late "
                 "(busy machine: the fake guns' responses are sleeps too) the run gets five times the bound more (class "
                 "discard_off_run_bound_extended_under_machine_load). The profile-time comparison takes the start of the schedule as the "
                 "instant the first Next call was entered (the real start is a few microseconds later), so it cannot see a request that is "
                 "early by less than that; the token-time comparison is exact."),
    },
    "assumptions": ["goroutine id join: an instance draws a token and fires/discards it on the same goroutine"],
}
