"""run specification for C04 (loaded by lib/specs.py)"""

SPEC = {
    "pkg": "c04",
    "tests": [
        # sleep-bound: 48 cases per process run concurrently (vf.Batch); thorough = 480 per process
        {"name": "TestTiming", "quick": 48, "thorough": 480, "shards_quick": 2, "shards_thorough": 6, "timeout": 3000},
        # dense profiles: CPU-bound for a fraction of a second each, 6 at a time per process
        {"name": "TestNoEarlyShotDense", "quick": 24, "thorough": 240, "shards_quick": 2, "shards_thorough": 4, "timeout": 3000},
        # sleep-bound (7-10 s per case): 32 cases per process concurrently; thorough = 320 per process
        {"name": "TestDiscardedInPhout", "quick": 32, "thorough": 320, "shards_quick": 2, "shards_thorough": 4, "timeout": 3000},
    ],
    "rule": ("generated profiles (once/const/line, optionally two chained; 1-12 tokens per part over 1-4 s), 1-4 instances, shared or "
             "per-instance, discard_overflow on/off, cyclic response-time histories drawn from {0, 50ms, 0.5s, 1.7s, 1.9s, 2.1s, 2.4s, 3s, "
             "3.5s} so that lateness lands on both sides of the 2 s threshold; one case in five is a burst, a 2.6-3.4 s pause and a steady part with a slow "
             "first response, so that tokens have to be waited for right after a discard; real engine, real time, recording doubles, 48 cases "
             "concurrently per process. For every token: T scheduled time, A instant Next returned it, B instant of Shoot entry / discard "
             "report (joined by goroutine id). Non-trivial = at least one token handed out >= 1 s late; distinct = hash of the case. "
             "TestNoEarlyShotDense: const / line profiles of 700-6000 tokens per second for 60-250 ms, 1-3 instances, responses of 0-900 us, "
             "so that instances keep arriving at their next token a fraction of a millisecond early; same per-token comparison (B >= T "
             "exactly); non-trivial = at least 10 shots entered within 1 ms after their token's time. "
             "TestDiscardedInPhout: discarded tokens as the user reads them: real engine, the REAL phout aggregator writing a file (in-memory "
             "fs; ids on/off, sample queue 8 / 1024 / default) and guns that report like the stock ones (netsample.Acquire at the start of a "
             "request, SetProtoCode, Report; unique tag, id and a proto code per shot); const / line profiles (optionally two chained) of "
             "8-80 tokens per second for 4.5-6.5 s, 1-3 instances, cyclic response histories 'one stall of 2.1-3 s, then 2-30 responses of "
             "0-20 ms', so that every instance alternates discard bursts and bursts of ordinary shots (one case in six: discard_overflow off, "
             "2 s profile); 32 cases concurrently per process, all sharing netsample's sample pool. Oracle over the file: tokens not fired "
             "(tokens handed out minus Shoot calls) == lines having tag 'discarded' AND net code 777, no line has only one of the two, every "
             "fired request has exactly one line with its own tag, id, net code 0 and proto code, no other lines; discard off: no token "
             "unfired. Non-trivial = some instance discarded, fired, and discarded again (or, discard off, fired at all)."),
    "floors": {"TestTiming/late_1_2s": 0.1, "TestTiming/late_2_3s": 0.1, "TestTiming/late_ge_3s": 0.07,
               "TestTiming/discard_off": 0.066, "TestTiming/instances_gt_1": 0.3, "TestTiming/discards_seen": 0.2, "TestTiming/token_waited_for_right_after_a_discard": 0.08,
               "TestNoEarlyShotDense/shots_within_1ms_after_their_time": 0.3,
               "TestDiscardedInPhout/phout_discard_then_shot_then_discard_on_one_instance": 0.33,
               "TestDiscardedInPhout/phout_discarded_lines_seen": 0.34, "TestDiscardedInPhout/phout_discard_off": 0.05,
               "TestDiscardedInPhout/phout_instances_gt_1": 0.3, "TestDiscardedInPhout/phout_ids_on": 0.25},
    "manifest": {
        "technique": "property-based testing (rapid generators, batch-parallel, real time) with an interval oracle over measured instants",
        "text": ("Real-time runs of the engine against slow fake guns. No shot may enter before its token's time; with discard_overflow on a "
                 "token handed over >= 2 s late (A-T) must be reported as discarded and one acted on < 2 s late (B-T) must be fired, "
                 "anything in between is accepted; with it off nothing is discarded and every token is fired; run length stays within "
                 "profile + 2 s + slowest response (+3 s slack) when discard is on. A third test reads the discarded samples where the user does: "
                 "in the file written by the real phout aggregator, with guns that take their samples from netsample's pool: one "
                 "'discarded' / 777 line per token that was not fired, one faithful line per fired request."),
        "note": ("Cannot test the boundary at exactly 2.000 s: lateness between the two measured instants is accepted either way. Joins "
                 "token to shot by goroutine id parsed from runtime.Stack. Machine load delays A and B together and can only move a "
                 "sample into the accepted band."),
    },
    "assumptions": ["goroutine id join: an instance draws a token and fires/discards it on the same goroutine"],
}
