"""run specification for C19 (loaded by lib/specs.py)"""

SPEC = {
    "pkg": "c19",
    "tests": [
        {"name": "TestHTTPGun", "quick": 160, "thorough": 12000, "shards_quick": 8, "shards_thorough": 16, "timeout": 3000},
        {"name": "TestScenarioGun", "quick": 240, "thorough": 16000, "shards_quick": 8, "shards_thorough": 16, "timeout": 3000},
        {"name": "TestGRPCGuns", "quick": 64, "thorough": 4000, "shards_quick": 8, "shards_thorough": 16, "timeout": 3000},
        {"name": "TestHTTP2Gun", "quick": 96, "thorough": 6000, "shards_quick": 8, "shards_thorough": 16, "timeout": 3000},
        {"name": "TestHTTP2ScenarioGun", "quick": 96, "thorough": 6000, "shards_quick": 8, "shards_thorough": 16, "timeout": 3000},
    ],
    "rule": ("rapid-generated response histories of in-process targets: any status, empty and 3 MB bodies, malformed status line / header "
             "line / chunking, binary garbage, early close, TCP reset, stall past the response timeout, body shorter than Content-Length, "
             "JSON/HTML the extractors cannot parse, header values shorter than the configured substr(); every history ends with a "
             "well-behaved exchange. Guns: http (1-3 instances, keep-alive on/off), http/scenario with steps carrying each postprocessor "
             "kind (var/jsonpath, var/xpath, var/header with and without substr, assert/response), grpc and grpc/scenario (any status code, "
             "stall past the timeout, 200k-item responses, assert/response). Pools are built by config.DecodeAndValidate, run by the real "
             "engine, samples read from the real phout output. Non-trivial = at least one misbehaving exchange followed by a good one; "
             "distinct = hash of the case."),
    "floors": {"TestScenarioGun/post_header_substr": 0.15, "TestScenarioGun/post_jsonpath": 0.15, "TestScenarioGun/post_xpath": 0.15,
               "TestScenarioGun/post_assert": 0.15, "TestHTTPGun/mis_reset": 0.05, "TestHTTPGun/mis_bad_chunk": 0.05,
               "TestHTTPGun/mis_huge": 0.05, "TestHTTPGun/mis_stall": 0.05, "TestGRPCGuns/grpc_scenario_gun": 0.3},
    "manifest": {
        "technique": "fault-injection property testing (rapid): generated misbehaving response histories against the real guns and engine",
        "text": ("Whatever the generated history, Engine.Run must return nil (no 'shoot panic', no component error), every attempted "
                 "request / executed scenario step must leave exactly one sample carrying the status or a failure, and exchanges that were "
                 "answered properly - in particular those after a misbehaving one - must have a clean 200 sample."),
        "note": ("The connect gun is not exercised (no CONNECT-capable target in the harness) and the http2 guns' documented fatal "
                 "condition is not asserted. Scenario invocations are told apart at the target by counting first-step requests with one "
                 "instance and keep-alives off (Go's transport then never retries silently)."),
    },
    "assumptions": ["a step whose response an extractor cannot digest may count as failed or not; only survival, sample accounting and the good exchanges are asserted"],
}
