"""run specification for C19 (loaded by lib/specs.py)"""

SPEC = {
    "pkg": "c19",
    "tests": [
        {"name": "TestHTTPGun", "quick": 160, "thorough": 12000, "shards_quick": 8, "shards_thorough": 16, "timeout": 3000},
        {"name": "TestScenarioGun", "quick": 240, "thorough": 16000, "shards_quick": 8, "shards_thorough": 16, "timeout": 3000},
        {"name": "TestScenarioDataFlow", "quick": 320, "thorough": 16000, "shards_quick": 8, "shards_thorough": 16, "timeout": 3000},
        {"name": "TestGRPCGuns", "quick": 64, "thorough": 4000, "shards_quick": 8, "shards_thorough": 16, "timeout": 3000},
        {"name": "TestHTTP2Gun", "quick": 96, "thorough": 6000, "shards_quick": 8, "shards_thorough": 16, "timeout": 3000},
        {"name": "TestHTTP2ScenarioGun", "quick": 96, "thorough": 6000, "shards_quick": 8, "shards_thorough": 16, "timeout": 3000},
        # a run of some tens of milliseconds per case (refused connections are instant); standstill deadline 10 s
        {"name": "TestNamedTarget", "quick": 240, "thorough": 12000, "shards_quick": 8, "shards_thorough": 16, "timeout": 3000},
        {"name": "TestConnectProxy", "quick": 160, "thorough": 8000, "shards_quick": 8, "shards_thorough": 16, "timeout": 3000},
        # sleep-bound (15 s per case, the documented default timeout): the case count per process is fixed inside the test
        # (vf.Batch: 3 quick / 12 thorough, run concurrently); every case runs the grpc AND the grpc/scenario gun
        {"name": "TestGRPCDefaultTimeout", "quick": 3, "thorough": 12, "shards_quick": 1, "shards_thorough": 2, "timeout": 3000},
    ],
    "rule": ("rapid-generated response histories of in-process targets: any status, empty and 3 MB bodies, malformed status line / header "
             "line / chunking, binary garbage, early close, TCP reset, stall past the response timeout, body shorter than Content-Length, "
             "a 200 whose Content-Length announces far more than is delivered before the connection closes (some GB, 2^48..2^62 - sizes no "
             "process can allocate -, the top of the int64 range), "
             "JSON/HTML the extractors cannot parse, header values (0-20 characters) shorter than the configured substr(), whose one or two "
             "indices are generated: small or beyond the value, counted from the start or (negative) from the end; every history ends with a "
             "well-behaved exchange. Guns: http and connect (1-3 instances, keep-alive on/off; the connect gun half of the time with "
             "connect-ssl against a TLS listener that serves the CONNECT tunnel) - one case in four against a target that goes away: its "
             "listener stops listening before its k-th connection (k = 0: nothing listens from the start) and every later connection "
             "is refused, while the port stays reserved; requests that never reached the target must be reported as samples with a net "
             "error and no status. http/scenario with steps carrying each postprocessor "
             "kind (var/jsonpath, var/xpath, var/header with and without substr, assert/response); one step in four whose postprocessors need "
             "no body (none, var/header, assert/response on status and headers) is a HEAD request, and one misbehaviour in three that "
             "meets a HEAD step is the legal answer for a huge resource (headers only, Content-Length 2^31..2^63-1): that step must "
             "succeed and the invocation go on; three var/xpath steps in four map "
             "1-2 generated XPath 1.0 expressions over a catalogue page (plain node-sets, node-sets whose predicates compare an attribute "
             "with a number - alone, positional, negated, and/or-combined, nested in count() or on the parent -, string-function "
             "predicates, scalar count()/boolean()/sum()/number()/concat() and top-level comparisons); a well-behaved target answers such "
             "a step with a catalogue of numbers (the step must then succeed), a misbehaving one with items whose compared attribute "
             "is 'N/A', empty, '1 200', '12,5', missing ...; grpc and grpc/scenario (any status code, "
             "stall past the timeout, 200k-item responses, assert/response), http2 (1-3 instances, keep-alive on/off, shared client on/off) "
             "and http2/scenario against an in-process TLS target that negotiates h2 and whose script fails individual TLS handshakes "
             "(alerts internal_error / unrecognized_name / protocol_version, or a dropped connection) and answers individual requests "
             "badly (any status, empty / 3 MB body, stream reset before or after the headers, connection killed, stall, body shorter than "
             "Content-Length); one http2 case in twelve meets a TLS target without h2 (the documented fatal condition: the run may stop, "
             "but only with that message). connect gun behind a scripted CONNECT proxy (TestConnectProxy; 1-2 instances, keep-alive on/off): "
             "each CONNECT the proxy sees is either tunnelled to the recording target or refused with a non-2xx status (301..599) and an "
             "error page that is absent, complete, or announced and not delivered (Content-Length 0..70000 with 0..all bytes sent, a "
             "chunk without the terminating chunk), with or without 'Connection: close', after which the proxy closes the connection or "
             "keeps it open; the request such a CONNECT was made for must be a failure sample, all others clean 200, and the run must "
             "not stand still (no new CONNECT / request for 10 s = an instance is blocked). grpc and grpc/scenario guns configured "
             "WITHOUT `timeout` (TestGRPCDefaultTimeout, both guns in every case, 2-4 calls, 1-2 instances for grpc, assert/response "
             "on/off for grpc/scenario) against a target of their own that accepts one call and never answers it: the documented default "
             "request timeout (15 s) must end that call - 504 sample, later calls 200 - and the run must be over 25 s after the target "
             "received the call. TestScenarioDataFlow (http/scenario, 2-5 steps, 3-7 invocations, one instance): response data that LATER "
             "steps and the error paths work on. (a) a list step stores an array from the response (var/jsonpath $.items, $.items[*].id, "
             "$.items[*].name, or var/xpath //li/@data-id) and a later step takes one element of it into a header - a preprocessor mapping "
             "request.<step>.postprocessor.items[last | next | rand | N, N in -3..7](.id | .name) or a template {{index ... N}} -; after "
             "normal answers (3-4 elements) the target sends a valid 200 document whose array is EMPTY, has 1, 2 or 5 elements (shorter "
             "than the index), holds numbers instead of objects, mixed / nested values, or is null, an object, a string or absent "
             "(var/xpath: 0 matches = empty array, 1 match = a string). (b) assert/response steps with 1-2 body patterns (status_code, "
             "headers, size conditions on/off) - and any other step - answered with bodies built by texture (one repeated character, hex, "
             "base64, minified JSON with one long token, binary, multi-byte text, pretty JSON, multi-line HTML error page), length (0-254, "
             "255-258, 259-1023, 1-8 KiB, powers of two +-1 up to 64 KiB, up to 200 kB), whitespace placement for the textures that have "
             "none of their own (none at all, only the first byte, byte 255 / 256, after 256, the last byte, sparse), status 200 / 4xx / "
             "5xx and content type; one body in four has the patterns written into it (start, end, across byte 256), so it may satisfy the "
             "assertion: such an invocation must then be clean to its end. A step whose request never reached the target must be a "
             "failure sample (proto 0, net error) and must depend on the misbehaving answer; a step that was sent and answered well must be "
             "a clean 200; an invocation may end early only at a sample that is not a clean 200. Redirecting targets x the gun option `redirect` (TestHTTPGun: http and connect guns, "
             "TestHTTP2Gun, TestScenarioGun; one case in three with `redirect: true`, then every second misbehaving entry / step - otherwise "
             "one in eight - is answered with redirects before or instead of its behaviour): status 301/302/303/307/308, Location written "
             "as a relative reference, an absolute path, an absolute URL on the same target and scheme, or a query-only reference; 1-9 "
             "hops to fresh URIs and then the behaviour proper (a following gun must deliver what that behaviour demands: a clean 200 for "
             "a well-behaved one, the whole invocation clean for a scenario), 10-14 hops (beyond net/http's documented default of 10 "
             "consecutive requests: one sample, failure or final answer), and after 0-3 hops a chain WITHOUT an end - the Location is the "
             "requested URI itself, ever fresh URIs, two URIs naming each other -, a Location that cannot be parsed or used ('://nowhere', "
             "'http://[::1', '%zz', a host with a space, ftp://), or a 3xx without Location. With `redirect` off the sample must carry the "
             "3xx (a scenario step with postprocessors may report their failure instead); with it on an endless chain or an unusable "
             "Location must leave ONE failure sample, a 3xx without Location its status, and the instance must go on with the next ammo. "
             "A gun that has made 1000 requests for one ammo entry (100 x the default policy; a count, not a time) and is still following, "
             "or a run that is not over after 90 s, is a hang: the target then stops redirecting so that the instances come back, and the "
             "hang is reported only if the same case hangs again on an immediate re-run (goroutine stacks attached). http2 redirects stay "
             "on https (a cross-scheme redirect ends in the documented fatal condition); failing TLS handshakes and a target that goes away "
             "are not combined with followed chains. gRPC targets whose port REFUSES connections while instances are being started "
             "(TestGRPCGuns, one case in two, grpc and grpc/scenario guns): (a) nothing ever listens on the target port, the method "
             "descriptions come from a reflection-only listener named by `reflect_port` (1-3 instances); (b) a target of its own stops "
             "accepting connections when its first call arrives - the connections it has stay served, its port stays reserved - while a "
             "startup schedule (const 10/20 per s or line up to 40 per s, over 200-300 ms) is still starting instances and a const rps "
             "schedule paces 10-16 calls: Engine.Run must return nil, every call must leave one sample, 200 for exactly the calls the target "
             "received and 503 (Unavailable) for all others. The gun option `httptrace` (TestHTTPGun: http and connect guns, TestHTTP2Gun, "
             "TestScenarioGun, TestHTTP2ScenarioGun, TestConnectProxy): `dump` (accounts the bytes of the dumped request and response) "
             "and `trace` (accounts connect / send / latency stages) are each drawn on or off for every case, independent of all other "
             "dimensions - the option only adds figures to the sample, so the same oracle judges all four combinations, in particular "
             "for exchanges that end WITHOUT any response (refused, closed before / inside the headers, reset, response-header timeout, "
             "malformed status line, failed TLS handshake, refused CONNECT), where there is nothing to dump or to time. Added after seeded defect C19/m17: targets written as a host NAME x the dialer option `dns-cache` x a target that is "
             "down when the guns are built (TestNamedTarget; http, connect (connect-ssl on/off), http2, http/scenario and http2/scenario guns, 1-3 "
             "instances, keep-alive on/off, shared client on/off for the uri guns, httptrace on/off): the target is a listener on a reserved port of "
             "127.0.0.1 that refuses connections while it is down; five cases in six write it as a name of the loopback address (localhost in "
             "the spellings this machine resolves to 127.0.0.1 only), one as the IP; `dial.dns-cache` is not written (documented default: on), "
             "true or false; three cases in four the target is down at construction - when pandora's pre-resolution of a named target fails "
             "and its DNS-caching dialer stays in use ('we should try to connect on every shoot') -, one in four up; half of the cases the "
             "target changes once after k >= 1 finished shots (a down one comes up, an up one stops listening while its connections stay "
             "served; then the schedule leaves 3 ms between shots), otherwise it stays as it was for the whole run (a target that is never up: "
             "every shot of every instance is refused, with more entries than instances some instance shoots again after a refused shot). Every ammo entry (3-9, at least two more than "
             "instances; answers ok / any status / empty / close / reset / bad status line / short body when it arrives) must leave one "
             "sample: a failure (no status, net error) exactly when the target has no record of the request, the target's answer "
             "otherwise; scenario invocations (1-3 steps, 3-7 invocations, every arriving request answered well) must each leave a prefix of "
             "their steps ending either complete or at a failure sample, with as many clean 200 samples per step as the target received "
             "requests; Engine.Run must return nil. A run in which no shot starts or finishes for 10 s (normal: under a millisecond "
             "per shot) or that is not over after 90 s is a hang (goroutine stacks attached), judged without vf.LoadTolerant. Pools are built by config.DecodeAndValidate, run by the real "
             "engine, samples read from the real phout output. Non-trivial = at least one misbehaving exchange followed by a good one (refusing gRPC targets: "
             "at least one refused call reported and the run completed); "
             "distinct = hash of the case."),
    "floors": {"TestScenarioGun/post_header_substr": 0.15, "TestScenarioGun/post_jsonpath": 0.15, "TestScenarioGun/post_xpath": 0.15,
               "TestScenarioGun/post_assert": 0.15, "TestHTTPGun/mis_reset": 0.05, "TestHTTPGun/mis_bad_chunk": 0.05,
               "TestHTTPGun/mis_huge": 0.05, "TestHTTPGun/mis_stall": 0.05, "TestGRPCGuns/grpc_scenario_gun": 0.22,
               "TestScenarioGun/substr_negative_index": 0.06, "TestScenarioGun/substr_negative_index_beyond_value": 0.03,
               "TestHTTP2Gun/hs_internal_error": 0.04, "TestHTTP2Gun/hs_unrecognized_name": 0.04, "TestHTTP2Gun/hs_protocol_version": 0.04,
               "TestHTTP2Gun/hs_close": 0.04, "TestHTTP2Gun/h2_good_after_tls_alert": 0.15, "TestHTTP2Gun/h2_shared_client": 0.15,
               "TestHTTP2Gun/h2_mis_kill_conn": 0.03, "TestHTTP2Gun/h2_mis_abort": 0.05, "TestHTTP2Gun/target_without_h2": 0.03,
               "TestHTTP2ScenarioGun/h2_good_after_tls_alert": 0.16, "TestHTTP2ScenarioGun/hs_internal_error": 0.08,
               "TestHTTP2ScenarioGun/post_header_substr": 0.052,
               "TestHTTPGun/connect_gun": 0.14, "TestHTTPGun/connect_ssl": 0.062, "TestHTTPGun/target_goes_away": 0.1,
               "TestHTTPGun/target_never_up": 0.022, "TestHTTPGun/refused_seen": 0.088, "TestHTTPGun/refused_after_served": 0.05,
               "TestHTTPGun/connect_gun_refused": 0.025, "TestHTTPGun/connect_ssl_refused": 0.0094,
               "TestScenarioGun/xpath_expr_nodeset_numeric": 0.09, "TestScenarioGun/xpath_expr_scalar": 0.012,
               "TestScenarioGun/xpath_expr_plain": 0.027, "TestScenarioGun/xpath_nodeset_numeric_on_non_numeric_page": 0.03,
               "TestScenarioGun/xpath_nodeset_numeric_on_numeric_page": 0.012,
               "TestScenarioGun/lying_length_postprocessed": 0.04, "TestScenarioGun/lying_length_unallocatable_postprocessed": 0.025,
               "TestScenarioGun/head_step": 0.2, "TestScenarioGun/head_announces_huge_postprocessed": 0.02,
               "TestHTTP2ScenarioGun/lying_length_postprocessed": 0.04, "TestHTTP2ScenarioGun/lying_length_unallocatable_postprocessed": 0.025,
               "TestHTTP2ScenarioGun/head_announces_huge_postprocessed": 0.015,
               "TestHTTPGun/mis_announce": 0.015, "TestHTTP2Gun/h2_mis_announce": 0.015,
               "TestConnectProxy/connect_refused_length": 0.2, "TestConnectProxy/connect_refused_chunked": 0.12,
               "TestConnectProxy/connect_refused_none": 0.12, "TestConnectProxy/connect_refused_silent": 0.12, "TestConnectProxy/connect_refused_body_truncated": 0.15,
               "TestConnectProxy/connect_refused_body_truncated_conn_open": 0.13,
               "TestConnectProxy/connect_refused_body_truncated_conn_open_no_close_header": 0.09,
               "TestConnectProxy/connect_refused_complete_conn_open": 0.25, "TestConnectProxy/connect_keep_alive": 0.15,
               "TestScenarioDataFlow/array_empty_indexed_last": 0.05, "TestScenarioDataFlow/array_empty_indexed_next": 0.03,
               "TestScenarioDataFlow/array_empty_indexed_rand": 0.025, "TestScenarioDataFlow/array_empty_indexed_num": 0.02,
               "TestScenarioDataFlow/array_empty_indexed_in_template": 0.05, "TestScenarioDataFlow/array_shorter_than_index": 0.03,
               "TestScenarioDataFlow/not_an_array_indexed": 0.07, "TestScenarioDataFlow/dependent_step_failed_unsent": 0.25,
               "TestScenarioDataFlow/dependent_step_ran": 0.1,
               "TestScenarioDataFlow/assert_body_fails_long_no_ws_in_head": 0.08, "TestScenarioDataFlow/assert_body_fails_long_with_ws": 0.056,
               "TestScenarioDataFlow/assert_body_fails_short": 0.05, "TestScenarioDataFlow/assert_body_fails_long_no_ws_minjson": 0.006,
               "TestScenarioDataFlow/assert_body_fails_long_no_ws_base64": 0.006, "TestScenarioDataFlow/assert_body_fails_long_no_ws_hex": 0.006,
               "TestScenarioDataFlow/assert_body_fails_long_no_ws_filler": 0.006, "TestScenarioDataFlow/assert_body_fails_long_no_ws_binary": 0.004,
               "TestScenarioDataFlow/blob_len_ge_64k": 0.04,
               "TestHTTPGun/redirect_option_on": 0.11, "TestHTTPGun/redirect_loop": 0.06, "TestHTTPGun/redirect_loop_http_gun": 0.03,
               "TestHTTPGun/redirect_loop_connect_gun": 0.015, "TestHTTPGun/redirect_chain_followed": 0.035,
               "TestHTTPGun/redirect_not_followed": 0.1, "TestHTTP2Gun/redirect_loop": 0.05, "TestHTTP2Gun/redirect_chain_followed": 0.04,
               "TestScenarioGun/redirect_loop": 0.03, "TestScenarioGun/redirect_chain_followed": 0.035,
               "TestGRPCGuns/grpc_target_refuses_always": 0.1, "TestGRPCGuns/grpc_target_refuses_goes_away": 0.06,
               "TestGRPCGuns/grpc_goes_away_refused_seen": 0.06, "TestGRPCGuns/grpc_went_away_while_instances_start": 0.06,
               "TestGRPCGuns/grpc_target_refuses_scenario_gun": 0.1, "TestGRPCGuns/grpc_target_refuses_grpc_gun": 0.12,
               "TestHTTPGun/httptrace_dump_no_response": 0.15, "TestHTTP2Gun/httptrace_dump_no_response": 0.13,
               "TestScenarioGun/httptrace_dump_no_response": 0.09, "TestHTTP2ScenarioGun/httptrace_dump_no_response": 0.15,
               "TestConnectProxy/httptrace_dump_no_response": 0.15,
               "TestHTTPGun/httptrace_trace": 0.15, "TestHTTP2Gun/httptrace_trace": 0.15, "TestScenarioGun/httptrace_trace": 0.15,
               "TestHTTP2ScenarioGun/httptrace_trace": 0.15, "TestConnectProxy/httptrace_trace": 0.15,
               "TestNamedTarget/by_name_cache_on_down_at_construction": 0.3, "TestNamedTarget/caching_dialer_target_stays_down": 0.14,
               "TestNamedTarget/caching_dialer_target_comes_up": 0.12, "TestNamedTarget/caching_dialer_refused_then_served": 0.1,
               "TestNamedTarget/caching_dialer_refused_twice_or_more": 0.22, "TestNamedTarget/caching_dialer_shared_client": 0.04,
               "TestNamedTarget/by_name_cache_on_down_at_construction_http": 0.08, "TestNamedTarget/by_name_cache_on_down_at_construction_connect": 0.05,
               "TestNamedTarget/by_name_cache_on_down_at_construction_http_scenario": 0.035,
               "TestNamedTarget/by_name_cache_on_down_at_construction_http2": 0.02,
               "TestNamedTarget/by_name_cache_on_down_at_construction_http2_scenario": 0.015,
               "TestNamedTarget/by_name_cache_off_down_at_construction": 0.09, "TestNamedTarget/by_name_up_at_construction": 0.1,
               "TestNamedTarget/target_by_ip": 0.1, "TestNamedTarget/target_goes_down": 0.06,
               # absolute counts (every case of the batch runs both guns)
               "TestGRPCDefaultTimeout/default_timeout_grpc_gun": 1, "TestGRPCDefaultTimeout/default_timeout_grpc_scenario_gun": 1},
    "manifest": {
        "technique": "fault-injection property testing (rapid): generated misbehaving response histories against the real guns and engine",
        "text": ("Whatever the generated history, Engine.Run must return nil (no 'shoot panic', no component error), every attempted "
                 "request / executed scenario step must leave exactly one sample carrying the status or a failure, and exchanges that were "
                 "answered properly - in particular those after a misbehaving one - must have a clean 200 sample."),
        "note": ("Against a TLS target without h2 the http2 gun may stop the run (documented); it is only asserted that a stop then carries "
                 "the documented 'target doesn't support HTTP/2' message and that every other stop is a violation. For http2/scenario one "
                 "instance shoots with keep-alives off, so the k-th TLS handshake seen by the target is the k-th attempted step and must be "
                 "the k-th sample. With a shared client and several instances connection-level faults are not generated (a killed "
                 "connection would take other instances' requests along). Scenario invocations are told apart at the target by counting first-step requests with one "
                 "instance and keep-alives off (Go's transport then never retries silently). A request is counted as refused when the "
                 "target that went away has no record of it (a connection that sat in the backlog when the listener closed is reset, not "
                 "refused - same expectation: a failure sample). connect-ssl is exercised with a plain inner request (gun ssl off). "
                 "TestConnectProxy: a refused CONNECT fails the dial of exactly one request and Go's transport does not repeat a failed dial, "
                 "so at most as many requests as refused CONNECTs may miss the target; a standstill is judged without vf.LoadTolerant "
                 "(no machine load explains 10 s without progress of a run that takes milliseconds). A proxy that accepts a CONNECT and "
                 "sends no (complete) header block is NOT generated: pandora has no configurable bound for that wait. "
                 "TestGRPCDefaultTimeout asserts only the upper bound (the call ends, 15 s + 10 s slack), not that the call lasted 15 s. "
                 "Redirects: the number of hops a following gun accepts is net/http's default policy, not a documented pandora limit, so "
                 "for finite chains of 10-14 hops only 'one sample' is asserted; follow-up requests of a redirected scenario step 0 are told "
                 "from a new invocation by the Referer net/http adds; http2/scenario is not run against redirecting targets (its oracle "
                 "identifies steps by connection). Refusing gRPC target (b): the listener is closed while established connections stay "
                 "served, so which calls fail depends on which instance got the token - only the 200 = received / 503 = not received "
                 "split and the sample count are asserted. "
                 "TestNamedTarget: when the target changes is paced by the engine's own counter of finished shots and is not asserted; "
                 "which requests were refused is read from the target's records (no record = no answer = the sample must be a failure), so "
                 "the oracle does not depend on that timing; client-side timeouts are set to 20 s (nothing in that test stalls), the name "
                 "is used only if this machine resolves it to 127.0.0.1 and nothing else (otherwise 'localhost', otherwise the IP with class "
                 "no_usable_loopback_name_on_this_machine - the floors on the by_name classes then fail). "
                 "A crash of the worker process (a panic in a goroutine of net/http's transport cannot be recovered by the engine) is "
                 "attributed by the driver to the case being executed."),
    },
    "assumptions": ["a step whose response an extractor cannot digest may count as failed or not; only survival, sample accounting and the good exchanges are asserted"],
}
