"""run specification for C19 (loaded by lib/specs.py)"""

SPEC = {
    "pkg": "c19",
    "tests": [
        {"name": "TestHTTPGun", "quick": 160, "thorough": 12000, "shards_quick": 8, "shards_thorough": 16, "timeout": 3000},
        {"name": "TestScenarioGun", "quick": 240, "thorough": 16000, "shards_quick": 8, "shards_thorough": 16, "timeout": 3000},
        {"name": "TestGRPCGuns", "quick": 64, "thorough": 4000, "shards_quick": 8, "shards_thorough": 16, "timeout": 3000},
        {"name": "TestHTTP2Gun", "quick": 96, "thorough": 6000, "shards_quick": 8, "shards_thorough": 16, "timeout": 3000},
        {"name": "TestHTTP2ScenarioGun", "quick": 96, "thorough": 6000, "shards_quick": 8, "shards_thorough": 16, "timeout": 3000},
    ],
    "rule": ("rapid-generated response histories of in-process targets: any status, empty and 3 MB bodies, malformed status line / header "
             "line / chunking, binary garbage, early close, TCP reset, stall past the response timeout, body shorter than Content-Length, "
             "JSON/HTML the extractors cannot parse, header values (0-20 characters) shorter than the configured substr(), whose one or two "
             "indices are generated: small or beyond the value, counted from the start or (negative) from the end; every history ends with a "
             "well-behaved exchange. Guns: http and connect (1-3 instances, keep-alive on/off; the connect gun half of the time with "
             "connect-ssl against a TLS listener that serves the CONNECT tunnel) - one case in four against a target that goes away: its "
             "listener stops listening before its k-th connection (k = 0: nothing listens from the start) and every later connection "
             "is refused, while the port stays reserved; requests that never reached the target must be reported as samples with a net "
             "error and no status. http/scenario with steps carrying each postprocessor "
             "kind (var/jsonpath, var/xpath, var/header with and without substr, assert/response); three var/xpath steps in four map "
             "1-2 generated XPath 1.0 expressions over a catalogue page (plain node-sets, node-sets whose predicates compare an attribute "
             "with a number - alone, positional, negated, and/or-combined, nested in count() or on the parent -, string-function "
             "predicates, scalar count()/boolean()/sum()/number()/concat() and top-level comparisons); a well-behaved target answers such "
             "a step with a catalogue of numbers (the step must then succeed), a misbehaving one with items whose compared attribute "
             "is 'N/A', empty, '1 200', '12,5', missing ...; grpc and grpc/scenario (any status code, "
             "stall past the timeout, 200k-item responses, assert/response), http2 (1-3 instances, keep-alive on/off, shared client on/off) "
             "and http2/scenario against an in-process TLS target that negotiates h2 and whose script fails individual TLS handshakes "
             "(alerts internal_error / unrecognized_name / protocol_version, or a dropped connection) and answers individual requests "
             "badly (any status, empty / 3 MB body, stream reset before or after the headers, connection killed, stall, body shorter than "
             "Content-Length); one http2 case in twelve meets a TLS target without h2 (the documented fatal condition: the run may stop, "
             "but only with that message). Pools are built by config.DecodeAndValidate, run by the real "
             "engine, samples read from the real phout output. Non-trivial = at least one misbehaving exchange followed by a good one; "
             "distinct = hash of the case."),
    "floors": {"TestScenarioGun/post_header_substr": 0.15, "TestScenarioGun/post_jsonpath": 0.15, "TestScenarioGun/post_xpath": 0.15,
               "TestScenarioGun/post_assert": 0.15, "TestHTTPGun/mis_reset": 0.05, "TestHTTPGun/mis_bad_chunk": 0.05,
               "TestHTTPGun/mis_huge": 0.05, "TestHTTPGun/mis_stall": 0.05, "TestGRPCGuns/grpc_scenario_gun": 0.22,
               "TestScenarioGun/substr_negative_index": 0.08, "TestScenarioGun/substr_negative_index_beyond_value": 0.03,
               "TestHTTP2Gun/hs_internal_error": 0.04, "TestHTTP2Gun/hs_unrecognized_name": 0.04, "TestHTTP2Gun/hs_protocol_version": 0.04,
               "TestHTTP2Gun/hs_close": 0.04, "TestHTTP2Gun/h2_good_after_tls_alert": 0.15, "TestHTTP2Gun/h2_shared_client": 0.15,
               "TestHTTP2Gun/h2_mis_kill_conn": 0.03, "TestHTTP2Gun/h2_mis_abort": 0.05, "TestHTTP2Gun/target_without_h2": 0.03,
               "TestHTTP2ScenarioGun/h2_good_after_tls_alert": 0.16, "TestHTTP2ScenarioGun/hs_internal_error": 0.08,
               "TestHTTP2ScenarioGun/post_header_substr": 0.052,
               "TestHTTPGun/connect_gun": 0.14, "TestHTTPGun/connect_ssl": 0.062, "TestHTTPGun/target_goes_away": 0.1,
               "TestHTTPGun/target_never_up": 0.03, "TestHTTPGun/refused_seen": 0.088, "TestHTTPGun/refused_after_served": 0.05,
               "TestHTTPGun/connect_gun_refused": 0.025, "TestHTTPGun/connect_ssl_refused": 0.0094,
               "TestScenarioGun/xpath_expr_nodeset_numeric": 0.12, "TestScenarioGun/xpath_expr_scalar": 0.012,
               "TestScenarioGun/xpath_expr_plain": 0.027, "TestScenarioGun/xpath_nodeset_numeric_on_non_numeric_page": 0.03,
               "TestScenarioGun/xpath_nodeset_numeric_on_numeric_page": 0.012},
    "manifest": {
        "technique": "fault-injection property testing (rapid): generated misbehaving response histories against the real guns and engine",
        "text": ("Whatever the generated history, Engine.Run must return nil (no 'shoot panic', no component error), every attempted "
                 "request / executed scenario step must leave exactly one sample carrying the status or a failure, and exchanges that were "
                 "answered properly - in particular those after a misbehaving one - must have a clean 200 sample."),
        "note": ("Against a TLS target without h2 the http2 gun may stop the run (documented); it is only asserted that a stop then carries "
                 "the documented 'target doesn't support HTTP/2' message and that every other stop is a violation. For http2/scenario one "
                 "instance shoots with keep-alives off, so the k-th TLS handshake seen by the target is the k-th attempted step and must be "
                 "the k-th sample. With a shared client and several instances connection-level faults are not generated (a killed "
                 "connection would take other instances' requests along). Scenario invocations are told apart at the target by counting first-step requests with one "
                 "instance and keep-alives off (Go's transport then never retries silently). A request is counted as refused when the "
                 "target that went away has no record of it (a connection that sat in the backlog when the listener closed is reset, not "
                 "refused - same expectation: a failure sample). connect-ssl is exercised with a plain inner request (gun ssl off). "
                 "A crash of the worker process (a panic in a goroutine of net/http's transport cannot be recovered by the engine) is "
                 "attributed by the driver to the case being executed."),
    },
    "assumptions": ["a step whose response an extractor cannot digest may count as failed or not; only survival, sample accounting and the good exchanges are asserted"],
}
