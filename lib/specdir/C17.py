"""run specification for C17 (loaded by lib/specs.py)"""

_COMPONENTS = [
    "schedule/const", "schedule/line", "schedule/step", "schedule/once", "schedule/unlimited", "schedule/instance_step",
    "schedule/composite", "result/phout", "result/jsonlines", "result/json", "result/log", "result/discard",
    "ammo/dummy", "ammo/json", "ammo/http", "ammo/http/json", "ammo/uri", "ammo/uripost", "ammo/raw", "ammo/grpc/json",
    "sink/file", "sink/stdout", "sink/stderr", "source/file", "source/stdin", "source/inline", "middleware/header/date",
    "gun/http", "gun/http2", "gun/connect", "gun/http/scenario", "gun/http2/scenario", "gun/grpc", "gun/grpc/scenario",
]

_SCN_FIELDS = [
    "calls/call", "calls/metadata/*", "calls/name", "calls/payload", "calls/postprocessors/payload/[]", "calls/postprocessors/status_code",
    "calls/preprocessors/mapping/*", "calls/tag", "locals/*", "requests/body", "requests/headers/*", "requests/method", "requests/name",
    "requests/postprocessors/body/[]", "requests/postprocessors/headers/*", "requests/postprocessors/mapping/*",
    "requests/postprocessors/size/op", "requests/postprocessors/size/val", "requests/postprocessors/status_code",
    "requests/preprocessor/mapping/*", "requests/tag", "requests/uri", "scenarios/min_waiting_time", "scenarios/name",
    "scenarios/requests/[]", "scenarios/weight", "variable_sources/delimiter", "variable_sources/fields/[]", "variable_sources/file",
    "variable_sources/ignore_first_line", "variable_sources/name", "variable_sources/variables/*",
]

SPEC = {
    "pkg": "c17",
    "tests": [
        {"name": "TestValid", "quick": 1600, "thorough": 64000, "shards_quick": 4, "shards_thorough": 16, "timeout": 1800},
        {"name": "TestMutations", "quick": 4800, "thorough": 192000, "shards_quick": 6, "shards_thorough": 16, "timeout": 1800},
        {"name": "TestPlaceholders", "quick": 2400, "thorough": 96000, "shards_quick": 4, "shards_thorough": 16, "timeout": 1800},
        {"name": "TestMultiPlaceholders", "quick": 1600, "thorough": 32000, "shards_quick": 4, "shards_thorough": 16, "timeout": 1800},
        {"name": "TestLongProperty", "quick": 800, "thorough": 32000, "shards_quick": 4, "shards_thorough": 16, "timeout": 1800},
        {"name": "TestScenarioPlaceholders", "quick": 1600, "thorough": 64000, "shards_quick": 4, "shards_thorough": 16, "timeout": 1800},
        {"name": "TestDiscardOverflowDefault", "quick": 400, "thorough": 16000, "shards_quick": 2, "shards_thorough": 16, "timeout": 1800},
    ],
    "rule": ("property files of TestPlaceholders / TestScenarioPlaceholders end their lines with LF or CR LF (2 of 7), with or without a terminator behind the last line (2 of 7; the key's line is then the last): a value never includes the line terminator; "
             "confgen reflects over the Go config struct of every component registered by core/import, phttp/import and grpc/import "
             "(34 (kind, name) pairs + the pool struct + the CLI root struct) and draws valid CLI-level configs: 1-3 pools, each with a "
             "gun / ammo / result / rps / startup section of a sampled component, every optional key given with probability 0.35 (6% of "
             "those null-valued), nested structs (dial, answlog, auto-tag, httptrace, shared-client, dial_options, source, log, "
             "monitoring.expvar ...), nested plugins (sink, source, middlewares) and composite schedules (explicit and list form, nested "
             "twice). TestValid: config accepted by DecodeAndValidate and by one call of every NewGun / NewRPSSchedule factory; root / "
             "pool scalars and every section's config as the registry hands it to the constructor = default overlaid with exactly the "
             "given keys (independent reference reading of the map); documented http-gun defaults of absent keys. TestMutations: one "
             "change (unknown / misspelt key inserted, or a present optional key renamed to a typo, at a sampled struct level; a "
             "kind-incompatible value for a sampled key, value class drawn first half of the time; a value violating the key's validate "
             "tag - the tag and boundary class are drawn first: min just below (min-1, min-1e-9) / far below, min-time 0 / just below "
             "(999999ns) / negative, required zero value, endpoint with port 0 / 00 / -1, port 65536 / beyond 2^16, 2^32, 2^64, empty "
             "port, non-numeric port (each with six hosts incl. empty and [::1]), no port at all, bad host; a required key removed; a bad, empty, non-string, foreign-kind or missing plugin type name) must be rejected with an "
             "error (not a panic) by DecodeAndValidate or by the first NewGun()/NewRPSSchedule() call. TestPlaceholders: a scalar field "
             "(value class drawn first; given or not, the literal is drawn by the field's generator; also elements of string lists) is "
             "replaced by ${env:V} / ${property:file#key} (whole value, or embedded prefix+var+suffix for strings, durations, sizes, "
             "levels) and must decode to the same configuration as the literal; unset variable / missing key / missing file / missing "
             "#key and a variable holding text that is no value of the field (non-numeric, negative for unsigned, validate-tag "
             "violation incl. the boundary values above) must be rejected with an error. In 3 of 4 unset-variable / missing-key cases "
             "and 1 of 3 others a decoy is defined next to the named variable / key: a name differing only in letter case (all "
             "upper, all lower, one letter flipped; environment names are case-sensitive on linux, property keys everywhere) or by "
             "one appended / removed character; it holds the text the field accepts when the case must be rejected (a fallback "
             "lookup would be accepted silently) and a foreign text when the named variable is defined (the exact name must win). "
             "Spelling of what a placeholder names (TestPlaceholders, TestMultiPlaceholders, TestScenarioPlaceholders; the file path also in "
             "TestLongProperty), class drawn first: the variable name / property key is one of the plain [A-Za-z0-9_.] names in 7 of 18 cases, "
             "else 2-3 words joined by an INTERIOR blank / two blanks (4 of 18), a tab, a dot, a dash, another punctuation character "
             "(: # @ / $ % + , ~ ! & * ( ) [ ] ' \" \\ | < > ? ;), or holding a non-ASCII word (cyrillic, umlaut, CJK), or a mix; the property "
             "file lies directly in the temp dir under a plain name (4 of 9) or below a sub-directory and / or under a base name with "
             "blanks (`load test secrets/nested dir/secret file.prop`), a tab, non-ASCII letters, dots, dashes, `:`, `@,+`, `'()`; "
             "never `{`, `}`, `=`, a `#` in the path or a leading / trailing blank (not nameable); inside the braces no padding (7 of 11) or "
             "`${env: N}`, `${ env : N }`, `${env:<tab>N<tab>}`, `${env:N }` (upstream's TestFindTokens and the resolver's own comment use "
             "padded forms). The oracle is unchanged: every such name names what os.LookupEnv / the `KEY=` line of the file at PATH "
             "holds, so the value decodes like the literal, and a name of that spelling that is unset / missing is an error. TestMultiPlaceholders: ONE value holding 2-4 placeholders (env / property mixed, each standing for a slice "
             "of the literal text, literal text possibly between them; distinct variables, property keys in a shared file or files "
             "of their own), the position kind drawn first: a string field, a duration / size / level field, an item of a string "
             "list (ammo headers, chosencases ...), a value of a string map (reflect_metadata). All placeholders resolve (2 of 5): "
             "decodes like the literal. Otherwise one (1 in 5: two) of them names an unset variable / missing key / missing file, "
             "at the first, a middle or the last place - in particular FOLLOWED by placeholders that resolve - and the "
             "configuration must be rejected with an error. TestLongProperty: ${property:file#key} whose LINE in the property file is long - a JWT-like, base64 (with `=`) or "
             "`k=v; ` pair text on one line; length of the line `key=value`: 30% within 6 bytes of 4096, 10% around 8192, 10% around 12288 / "
             "16384 / 32768 / 61440, 10% 65400-65500, the rest 4000-64000 by octave - in a free-text string field (no validate tag, no value "
             "generator of its own; the pool id), an item of a string list (a header item keeps its `[Name: ` ... `]` frame around the placeholder) "
             "or a value of a string map, whole or between literal text (`Bearer `, `;v=1`); the file has 0-3 short lines (other keys, comments) "
             "before and after, in 1 of 4 cases another long line before the requested one, no final newline in 1 of 5, and the text `<requested "
             "key>=...` written INSIDE a long value (own line 1 of 3, earlier long line 1 of 2; half of them exactly 4096*n bytes from the start of "
             "the line): the configuration must decode like the one holding the whole value literally. In 1 of 5 cases no line has the requested key "
             "while `<key>=<accepted text>` stands inside the long value of another key: must be rejected with an error. Lines stay <= 65500 bytes "
             "(measured on the unchanged tree: bufio.Scanner reads a line of up to 65535 bytes whole; from 65536 bytes on that key and every key after "
             "it is reported as `no such property`, a rejection). The case stores the recipe of the long text, not the text. "
             "TestScenarioPlaceholders: a generated scenario description (0-3 variable sources of the types file/csv, file/json, "
             "variables; 1-2 http requests with headers, body, preprocessor mapping, var/header / var/jsonpath / var/xpath / "
             "assert/response postprocessors, templater and / or 1-2 grpc calls with metadata, prepare preprocessor, assert/response "
             "postprocessor; 1-2 scenarios; locals) is written as a YAML file on the mem fs and read with the providers' reader "
             "(scenario/config.ReadAmmoConfig); one scalar (kind drawn first: string, int, bool, the *string body, the interface{} "
             "values of variables / locals; never a `type` key) is replaced by a placeholder in the same modes as above (whole, "
             "embedded, unset / missing with and without decoy, invalid text for int / bool incl. weight -1 and assert size -1) and "
             "the decoded AmmoConfig (reflective dump, pointers and interfaces followed) must equal the literal's, resp. the file "
             "must be rejected with an error. TestDiscardOverflowDefault: generated YAML / JSON files with 1-3 pools, each "
             "with discard_overflow true / false / absent, read by the real CLI reader (cli.ReadConfigForVerif -> readConfig: viper, "
             "defaulting, decode) through every way `pandora [<config>]` takes a configuration: a path with extension, a path "
             "without one (YAML), the single argument `-` with the text on the standard input (os.Stdin swapped for a file "
             "under a mutex), no argument with ./load.<ext> or ./config/load.<ext> in the working directory (chdir into a "
             "temp dir and back): DiscardOverflow = true when absent, the given value otherwise, whatever the source. Each test "
             "first runs the fixed witness cases of the findings it made (plain regression cases once a finding is fixed). Depth: root "
             "and pool keys 0, component keys and log / monitoring keys 1, nested struct / nested plugin / composite element keys >= 2. "
             "Non-trivial = mutation (or, for TestValid, a given key) at depth >= 2, a placeholder in a non-string field, a pool "
             "without the discard_overflow key, a scenario-file placeholder in a non-string position (int, bool, *string, "
             "interface{}); distinct = hash of the case."),
    "floors": {
        "TestPlaceholders/property_file_crlf": 0.09, "TestPlaceholders/property_file_crlf:resolves": 0.055,
        "TestPlaceholders/property_file_crlf:resolves_non_string_field": 0.035, "TestPlaceholders/property_file_last_line_unterminated": 0.05,
        "TestScenarioPlaceholders/property_file_crlf": 0.09, "TestScenarioPlaceholders/property_file_crlf:resolves": 0.07,
        "TestScenarioPlaceholders/property_file_crlf:resolves_non_string_field": 0.025, "TestScenarioPlaceholders/property_file_last_line_unterminated": 0.055,"TestDiscardOverflowDefault/discard_overflow:given_by_placeholder_false": 0.08,
               
        "TestValid/given_depth_ge_2": 0.4, "TestValid/pools_gt_1": 0.1, "TestValid/list_composite": 0.2, "TestValid/null_valued_key": 0.1,
        "TestMutations/kind:unknown_key": 0.25, "TestMutations/kind:wrong_type": 0.088, "TestMutations/kind:constraint": 0.05,
        "TestMutations/kind:missing": 0.05, "TestMutations/kind:bad_type": 0.05, "TestMutations/op:rename": 0.01,
        "TestMutations/depth:0": 0.05, "TestMutations/depth:1": 0.15, "TestMutations/depth:2": 0.2, "TestMutations/depth:3": 0.01,
        "TestMutations/violates:min/just_below": 0.005, "TestMutations/violates:min-time/just_below": 0.005,
        "TestMutations/violates:min-time/zero": 0.005, "TestMutations/violates:required/zero": 0.005,
        "TestMutations/violates:endpoint/port_low": 0.002, "TestMutations/violates:endpoint/port_high": 0.002,
        "TestMutations/violates:endpoint/port_empty": 0.002, "TestMutations/violates:endpoint/port_non_numeric": 0.002,
        "TestMutations/violates:endpoint/no_port": 0.002,
        "TestMutations/rejected_by:NewRPSSchedule": 0.03, "TestMutations/rejected_by:NewGun": 0.005,
        "TestPlaceholders/non_string_field": 0.32, "TestPlaceholders/src:env": 0.24, "TestPlaceholders/src:property": 0.3,
        "TestPlaceholders/missing:unset_env": 0.04, "TestPlaceholders/missing:missing_key": 0.02,
        "TestPlaceholders/missing:missing_file": 0.02, "TestPlaceholders/missing_with_decoy:case_variant:env": 0.01,
        "TestPlaceholders/missing_with_decoy:case_variant:property": 0.008, "TestPlaceholders/missing_with_decoy:affixed:env": 0.008,
        "TestPlaceholders/defined_with_decoy:case_variant:env": 0.02, "TestPlaceholders/defined_with_decoy:case_variant:property": 0.02, "TestPlaceholders/mode:embedded": 0.03, "TestPlaceholders/mode:invalid_text": 0.03,
        "TestPlaceholders/class:int": 0.05, "TestPlaceholders/class:float": 0.03, "TestPlaceholders/class:bool": 0.05,
        "TestPlaceholders/class:duration": 0.05, "TestPlaceholders/class:string": 0.1, "TestPlaceholders/depth:2": 0.1,
        "TestScenarioPlaceholders/kind:string": 0.2, "TestScenarioPlaceholders/kind:int": 0.077, "TestScenarioPlaceholders/kind:bool": 0.02,
        "TestScenarioPlaceholders/kind:*string": 0.049, "TestScenarioPlaceholders/kind:any": 0.03,
        "TestScenarioPlaceholders/mode:whole": 0.25, "TestScenarioPlaceholders/mode:embedded": 0.067,
        "TestScenarioPlaceholders/mode:invalid_text": 0.014, "TestScenarioPlaceholders/missing:unset_env": 0.04,
        "TestScenarioPlaceholders/missing:missing_key": 0.027, "TestScenarioPlaceholders/missing:missing_file": 0.02,
        "TestScenarioPlaceholders/missing_with_decoy:case_variant:env": 0.01, "TestScenarioPlaceholders/section:requests": 0.2,
        "TestScenarioPlaceholders/section:calls": 0.1, "TestScenarioPlaceholders/section:scenarios": 0.1,
        "TestScenarioPlaceholders/section:variable_sources": 0.1,
        # classes added after seeded defect C17/m13 (names / paths / keys with interior blanks and other legal characters)
        "TestPlaceholders/name:interior_blank": 0.1, "TestPlaceholders/name:interior_tab": 0.015, "TestPlaceholders/name:non_ascii": 0.06,
        "TestPlaceholders/name:punct": 0.08, "TestPlaceholders/blank_in:env_name": 0.06, "TestPlaceholders/blank_in:property_key": 0.06,
        "TestPlaceholders/blank_in:property_path": 0.07, "TestPlaceholders/blank_named:resolves": 0.13,
        "TestPlaceholders/blank_named:names_nothing": 0.04, "TestPlaceholders/blank_named:non_string_field": 0.11,
        "TestPlaceholders/path:sub_dir": 0.08, "TestPlaceholders/path:non_ascii": 0.02, "TestPlaceholders/pad:some": 0.13,
        "TestPlaceholders/pad:around": 0.028, "TestPlaceholders/pad:tabs": 0.025,
        "TestMultiPlaceholders/name:interior_blank": 0.23, "TestMultiPlaceholders/blank_in:env_name": 0.19,
        "TestMultiPlaceholders/blank_in:property_key": 0.09, "TestMultiPlaceholders/blank_in:property_path": 0.12,
        "TestMultiPlaceholders/blank_named:names_nothing": 0.09, "TestMultiPlaceholders/blank_named:resolves": 0.25,
        "TestMultiPlaceholders/pad:some": 0.27,
        "TestScenarioPlaceholders/name:interior_blank": 0.1, "TestScenarioPlaceholders/blank_in:env_name": 0.06,
        "TestScenarioPlaceholders/blank_in:property_key": 0.06, "TestScenarioPlaceholders/blank_in:property_path": 0.075,
        "TestScenarioPlaceholders/blank_named:resolves": 0.14, "TestScenarioPlaceholders/blank_named:names_nothing": 0.03,
        "TestScenarioPlaceholders/blank_named:non_string_field": 0.075, "TestScenarioPlaceholders/pad:some": 0.13,
        "TestLongProperty/path:interior_blank": 0.14, "TestLongProperty/path:sub_dir": 0.16,
        # classes added after seeded defect C17/m12 (long property lines)
        "TestLongProperty/long_value": 0.45, "TestLongProperty/line:ge_4096": 0.3, "TestLongProperty/line:around_4096": 0.2,
        "TestLongProperty/line:4096..4102": 0.07, "TestLongProperty/line:8k..16k": 0.05, "TestLongProperty/line:16k..32k": 0.03,
        "TestLongProperty/line:32k..64k": 0.015, "TestLongProperty/line:65400..65500": 0.02,
        "TestLongProperty/pos:string_field": 0.3, "TestLongProperty/pos:list_item": 0.15, "TestLongProperty/pos:map_value": 0.04,
        "TestLongProperty/embedded": 0.2, "TestLongProperty/whole": 0.3, "TestLongProperty/long_line_before": 0.2,
        "TestLongProperty/key_named_inside_long_value": 0.15, "TestLongProperty/key_named_inside_earlier_long_value": 0.06,
        "TestLongProperty/key_named_inside_long_value_at_4096n": 0.04, "TestLongProperty/missing_key_named_inside_long_value": 0.11,
        "TestLongProperty/missing_key_named_inside_long_value_at_4096n": 0.025, "TestLongProperty/requested_line_between_others": 0.2,
        "TestLongProperty/requested_line_last_without_newline": 0.015, "TestLongProperty/value:base64": 0.08, "TestLongProperty/value:pairs": 0.1,
        "TestDiscardOverflowDefault/source:file": 0.15, "TestDiscardOverflowDefault/source:file_noext": 0.04,
        "TestDiscardOverflowDefault/source:stdin": 0.11, "TestDiscardOverflowDefault/source:search_dir": 0.031,
        "TestDiscardOverflowDefault/source:search_dir_config": 0.04, "TestDiscardOverflowDefault/some_pool_without_key:stdin": 0.047,
        "TestDiscardOverflowDefault/some_pool_without_key:file": 0.08,
        "TestMultiPlaceholders/multi:all_resolve": 0.25, "TestMultiPlaceholders/multi:unresolved": 0.3,
        "TestMultiPlaceholders/unresolved_then_resolving": 0.2, "TestMultiPlaceholders/unresolved_then_resolving:string_field": 0.08,
        "TestMultiPlaceholders/unresolved_then_resolving:textual_field": 0.04, "TestMultiPlaceholders/unresolved_then_resolving:list_item": 0.04,
        "TestMultiPlaceholders/unresolved_then_resolving:map_value": 0.012, "TestMultiPlaceholders/unresolved_then_resolving:unset_env": 0.12,
        "TestMultiPlaceholders/unresolved_then_resolving:missing_key": 0.03, "TestMultiPlaceholders/unresolved_then_resolving:missing_file": 0.03,
        "TestMultiPlaceholders/unresolved_at:first": 0.15, "TestMultiPlaceholders/unresolved_at:middle": 0.04,
        "TestMultiPlaceholders/unresolved_at:last": 0.04, "TestMultiPlaceholders/pos:map_value": 0.04,
        "TestMultiPlaceholders/pos:list_item": 0.1, "TestMultiPlaceholders/srcs:mixed": 0.25,
        "TestDiscardOverflowDefault/some_pool_without_key": 0.21, "TestDiscardOverflowDefault/discard_overflow:given_true": 0.1,
        "TestDiscardOverflowDefault/discard_overflow:given_false": 0.1, "TestDiscardOverflowDefault/format:yaml": 0.31,
        "TestDiscardOverflowDefault/format:json": 0.1,
    },
    "required_classes": (["TestValid/comp:" + c for c in _COMPONENTS] + ["TestMutations/comp:" + c for c in _COMPONENTS]
                         + ["TestMutations/comp:pool/pool", "TestMutations/comp:cli/root", "TestPlaceholders/comp:pool/pool",
                            "TestPlaceholders/comp:cli/root"]
                         + ["TestScenarioPlaceholders/field:" + f for f in _SCN_FIELDS]),
    "manifest": {
        "technique": ("property-based testing (rapid) with a reflection-driven config generator / mutator; reference-overlay oracle for "
                      "decoded configs, rejection oracle for mutations, metamorphic literal-vs-placeholder oracle, real CLI reader on "
                      "generated config files"),
        "text": ("Valid configurations for every registered component are generated from the components' own config structs; the real "
                 "decoder (config.DecodeAndValidate into cli.DefaultConfig(), plugin hooks, lazily decoded factories invoked once) must "
                 "accept them, every section's decoded config (observed through plugin.New on the registered default) must equal the "
                 "default overlaid with the given keys, and each single mutation (unknown key at any struct level, wrongly typed value, "
                 "validate-tag violation, missing required key, bad type name) must be rejected with an error. Literal and "
                 "${env}/${property} variants must decode identically; unresolved placeholders (also when a variable / key of a "
                 "name differing only in letter case or by one character is defined) and placeholders resolving to text that "
                 "is no value of the field must be rejected; a value holding several placeholders (string field, list item, map value) "
                 "decodes like the literal when all resolve and is rejected when any one of them - also one followed by resolving "
                 "ones - names nothing. Variable names, property keys and property file paths are spelt plainly or with interior blanks, "
                 "tabs, dots, dashes, other punctuation and non-ASCII letters, with and without padding blanks inside the braces; the "
                 "same oracle holds for all of them. A ${property} placeholder whose line in the property file is long (4000 bytes - just under 64 KiB, other "
                 "lines before and after, `key=` text inside values) decodes like the whole value written literally, and is rejected when only text "
                 "inside another key's value names the key. The same literal-vs-placeholder comparison is made for every scalar "
                 "of generated scenario description files read by the scenario providers' reader. The CLI reader must decode discard_overflow as true exactly when the key is "
                 "absent from a pool of the configuration, for every source the CLI reads it from (file argument with / without extension, "
                 "standard input, ./load.* and ./config/load.* of the working directory)."),
        "note": ("Float-for-int (truncated by mapstructure by design), numbers or digit-only text for durations / sizes / levels (taken "
                 "as ns / bytes / level number), a string for a sink or source section (short form), placeholders in `type` keys, "
                 "unknown placeholder kinds (${foo:bar} is left verbatim), `pools: []`, a composite without `nested`, and the "
                 "never-enforced `valid:` tag of answlog.filter are outside the property's promises and not asserted. Exported default "
                 "functions are the reference for defaults (only the http guns' documented defaults are transcribed from the docs). "
                 "Scenario providers (http/scenario, grpc/scenario ammo) are not in the component table; their description files "
                 "are covered for placeholders only (YAML form; HCL is C16's subject), and values nested deeper inside the free-form "
                 "`variables` / `locals` maps are copied verbatim by the decoder (no hook sees them) and are not asserted. Property lines of 65536 bytes and more are not generated (the resolver reports the key and all keys after it "
                 "as missing: a rejection, measured, not asserted). The effect of discard_overflow on a "
                 "running pool is C04's subject; the subprocess cross-check sketched in DESIGN.md was not built."),
    },
    "assumptions": [
        "the component table in internal/confgen mirrors core/import, components/phttp/import and components/grpc/import (a registered config type that differs from the table fails the check)",
        "decoded component configs are observed via plugin.New(kind, name, fill) with a fill callback that runs config.DecodeAndValidate like pluginconfig's hook, then aborts construction",
        "environment variables and the property files are process-global: every shard is its own process and evaluates its cases sequentially",
        "os.Stdin and the working directory are swapped inside the test process (under a mutex, restored after each read) to reach the CLI reader's stdin and search-dir branches",
    ],
}
