"""run specification for C03 (loaded by lib/specs.py)"""

SPEC = {
    "pkg": "c03",
    "tests": [
        {"name": "TestAccounting", "quick": 640, "thorough": 48000, "shards_quick": 8, "shards_thorough": 16, "timeout": 2400,
         "race_thorough": True},
    ],
    "rule": ("rapid-generated single-pool configurations run through the real engine.Engine with recording doubles: 1-8 instances "
             "(startup once/const/instance_step), shared or per-instance finite profile tree (<= 100 tokens, pre-started 0-3 s in the "
             "past so late tokens are discarded without sleeping), ammo bound around the token count or unbounded, discard_overflow "
             "on/off, shot durations 0/50us/1ms, acquire delays, provider queue 0/1/64; each case is executed 3 times. Non-trivial = "
             ">= 2 instances and min(tokens, ammo) >= instances; distinct = hash of the case."),
    "floors": {"TestAccounting/ammo_lt_tokens": 0.1, "TestAccounting/ammo_eq_tokens": 0.1, "TestAccounting/per_instance": 0.3,
               "TestAccounting/shared": 0.3, "TestAccounting/discards": 0.03, "TestAccounting/composite_profile": 0.3,
               "TestAccounting/profile_via_config": 0.1, "TestAccounting/ammo_ran_out_while_instances_were_still_being_started": 0.1, "TestAccounting/per_instance_composite_via_config": 0.05},
    "manifest": {
        "technique": "property-based testing (rapid) of the real engine with recording doubles; conservation-law oracle over the recorded history",
        "text": ("The real engine runs generated pool configurations against doubles that record every Acquire/Release/Shoot/Report; "
                 "after Engine.Run returned nil the history must satisfy fired+discarded = min(tokens, ammo), each item released "
                 "exactly once and never used after release, unfired <= instances-1 (shared) / 0 (per-instance), request = response = "
                 "fired, InstanceStart = InstanceFinish. Interleavings are those the Go scheduler produced (3 runs per case; -race in thorough)."),
        "note": "Trusts the doubles (internal/fake) and the schedule tree reference (C01/C02) for the token count; goroutine interleavings are sampled, not controlled.",
    },
    "assumptions": ["token count of the profile is taken from the C02 reference chain of its parts"],
}
