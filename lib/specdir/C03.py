"""run specification for C03 (loaded by lib/specs.py)"""

SPEC = {
    "pkg": "c03",
    "tests": [
        {"name": "TestAccounting", "quick": 640, "thorough": 48000, "shards_quick": 8, "shards_thorough": 16, "timeout": 2400,
         "race_thorough": True},
        # sleep-bound, real time: the case count per process is fixed inside the test (vf.Batch: 24 quick / 96 thorough, 32 at a time)
        {"name": "TestSparseProfiles", "quick": 48, "thorough": 384, "shards_quick": 2, "shards_thorough": 4, "timeout": 900,
         "race_thorough": True},
        {"name": "TestBoundaryContention", "quick": 160, "thorough": 6000, "shards_quick": 4, "shards_thorough": 12, "timeout": 2400,
         "race_thorough": True},
        {"name": "TestMultiPool", "quick": 160, "thorough": 6000, "shards_quick": 4, "shards_thorough": 12, "timeout": 2400,
         "race_thorough": True},
    ],
    "rule": ("rapid-generated single-pool configurations run through the real engine.Engine with recording doubles: 1-8 instances "
             "(startup once/const/instance_step), shared or per-instance finite profile tree (<= 100 tokens, pre-started 0-3 s in the "
             "past so late tokens are discarded without sleeping), ammo bound around the token count or unbounded, discard_overflow "
             "on/off, shot durations 0/50us/1ms, acquire delays, provider queue 0/1/64; each case is executed 3 times. Non-trivial = "
             ">= 2 instances and min(tokens, ammo) >= instances; distinct = hash of the case. "
             "TestSparseProfiles: the same oracle for profiles run in real time whose tokens are seconds apart, so that an instance is "
             "handed a token that is due 1-3 s later: const below 1 rps, line rising from 0 / falling to 0, bursts separated by 1-2 "
             "token-less sections of 0.3-2.9 s (const ops 0 / line 0-0), instance_step and step-from-0 with step durations of seconds, "
             "optionally with a burst before / after (last token at most 3.3 s after the start; one long interval in five is 0.3-1 s); "
             "1-5 instances, shared or per-instance, ammo unbounded / = / > / < tokens, discard_overflow on/off, shots of 0-20 ms, "
             "constructor or config-decoded profile; each case once, 24 cases concurrently per process. How far ahead a token was when "
             "Next returned it is measured by a logging schedule wrapper. Non-trivial there = some token was handed out more than 1 s "
             "before its time and min(tokens, ammo) >= 2. "
             "TestBoundaryContention: the same oracle (3 runs per case) for profiles made of many small parts: a list of 1-5 small "
             "parts (once 1-3, const/line of 1-3 tokens over 10 us - 3 ms, token-less sections) written 20 or more times in a row (up to 400 parts), "
             "`step` with 30-200 steps of 0.5-2 ms (1-4 tokens each), instance_step used as a profile with 30-200 steps, or a list "
             "of short step / instance_step profiles repeated 4-16 times; 2-16 instances, so that a part has fewer tokens than there "
             "are instances; profile pre-started 1.7-3 s in the past (every token overdue: nobody sleeps and the instances arrive at "
             "every part boundary together) or, if it lasts < 40 ms, run live; shared (7 in 8) or per-instance, ammo unbounded / = / "
             "> / < tokens, discard_overflow on/off, constructor or config-decoded profile (durations >= 1 ms); in 3 cases of 4 the "
             "instances' goroutines call runtime.Gosched at the lock-free points of the composite schedule (hook "
             "schedule.VerifYield: between dropping the read lock and taking the write lock, or at all four points), which makes "
             "'several instances between the two locks at once' frequent on a busy machine too. Non-trivial as in TestAccounting. "
             "TestMultiPool: engines with 2-4 pools sharing one Metrics (each pool: own doubles, 1-4 instances, shared or "
             "per-instance profile that is paced over 8-40 ms or a small tree started 0-3 s in the past, ammo as above, "
             "discard_overflow on/off) where the gun set-up of a pool is instant or plainly slow (0.2-20 ms in the construction of "
             "the pool's first gun / of every gun / in WarmUp), so that pools start shooting at different times and one pool "
             "finishes its set-up while another is shooting; each case twice. Per pool the oracle of TestAccounting (instances "
             "started = guns bound), for the engine InstanceStart = InstanceFinish and Request = Response = shots of all pools. "
             "When a pool's set-up ended relative to the other pools' shots is measured from the doubles' records. Non-trivial "
             "there = at least two pools with min(tokens, ammo) >= 1."),
    "floors": {"TestAccounting/ammo_lt_tokens": 0.1, "TestAccounting/ammo_eq_tokens": 0.1, "TestAccounting/per_instance": 0.21,
               "TestAccounting/shared": 0.3, "TestAccounting/discards": 0.03, "TestAccounting/composite_profile": 0.3,
               "TestAccounting/profile_via_config": 0.1, "TestAccounting/ammo_ran_out_while_instances_were_still_being_started": 0.1, "TestAccounting/per_instance_composite_via_config": 0.036,
               "TestSparseProfiles/token_handed_out_more_than_1s_ahead": 0.35, "TestSparseProfiles/token_handed_out_more_than_2s_ahead": 1,
               "TestSparseProfiles/several_instances_waited_more_than_1s": 0.15, "TestSparseProfiles/far_token_and_bounded_ammo": 0.05,
               "TestSparseProfiles/shape_const_below_1rps": 0.04, "TestSparseProfiles/shape_pause_between_parts": 0.04,
               "TestSparseProfiles/per_instance": 0.2, "TestSparseProfiles/shared": 0.2,
               "TestBoundaryContention/shared_small_parts_fewer_tokens_than_instances": 0.3,
               "TestBoundaryContention/shared_small_parts_all_tokens_overdue": 0.22,
               "TestBoundaryContention/shared_small_parts_8_or_more_instances": 0.08,
               "TestBoundaryContention/shared_one_token_parts": 0.05, "TestBoundaryContention/parts_100_or_more": 0.25,
               "TestBoundaryContention/contended_step": 0.04, "TestBoundaryContention/contended_istep": 0.04,
               "TestBoundaryContention/contended_nested": 0.06,
               "TestBoundaryContention/shared_small_parts_yield_between_locks": 0.22,
               "TestBoundaryContention/shared_small_parts_plain_scheduling": 0.07,
               "TestBoundaryContention/shared_small_parts_live": 0.056,
               "TestMultiPool/pool_finished_gun_setup_after_another_pool_had_fired": 0.25,
               "TestMultiPool/pool_finished_gun_setup_in_the_middle_of_another_pools_shooting": 0.15,
               "TestMultiPool/two_or_more_pools_fired": 0.25, "TestMultiPool/pools_3": 0.1},
    "manifest": {
        "technique": "property-based testing (rapid) of the real engine with recording doubles; conservation-law oracle over the recorded history",
        "text": ("The real engine runs generated pool configurations against doubles that record every Acquire/Release/Shoot/Report; "
                 "after Engine.Run returned nil the history must satisfy fired+discarded = min(tokens, ammo), each item released "
                 "exactly once and never used after release, unfired <= instances-1 (shared) / 0 (per-instance), request = response = "
                 "fired, InstanceStart = InstanceFinish. Interleavings are those the Go scheduler produced (3 runs per case; -race in thorough). "
                 "A second test runs the same oracle in real time on sparse profiles (rates below 1 rps, lines from / to 0, pauses of "
                 "seconds between sections), where instances hold an ammo item while their token is 1-3 s in the future. A third "
                 "test drains shared profiles of hundreds of parts with fewer tokens per part than instances and all tokens overdue, "
                 "so that instances contend at every part boundary (goroutine yields injected at the schedule's lock-free hook points). A fourth runs engines with 2-4 pools on one shared Metrics whose "
                 "gun set-up takes different times: the laws must hold per pool and request = response = shots of all pools."),
        "note": "Trusts the doubles (internal/fake) and the schedule tree reference (C01/C02) for the token count; goroutine interleavings are sampled, not controlled.",
    },
    "assumptions": ["token count of the profile is taken from the C02 reference chain of its parts"],
}
