"""run specification for C09 (loaded by lib/specs.py)"""

SPEC = {
    "pkg": "c09",
    "tests": [
        {"name": "TestWire", "quick": 480, "thorough": 32000, "shards_quick": 8, "shards_thorough": 16, "timeout": 2400},
        # vf.Batch: the case count per process is fixed in the test (quick 4, thorough 16, all at the same time)
        {"name": "TestKeepAliveGaps", "quick": 12, "thorough": 96, "shards_quick": 3, "shards_thorough": 6, "timeout": 1200},
    ],
    "rule": ("rapid-generated ammo models (internal/ammogen: four formats, all layout knobs, in-file directives) x provider `headers` "
             "lists whose names overlap / do not overlap the entries' headers (incl. Host) x ssl on/off x disable-keep-alives x 1-4 "
             "instances x 1-2 passes x target answers {2 bytes, empty, 5 kB, 100 kB, chunked/streamed small and 12 kB}; header values may be "
             "empty (the ammo then defines the header with nothing in it); raw files: in one file in two the size line of two entries in "
             "three also counts a line break written after the request (CRLF, LF, CRLFCRLF or LFLF inside the sized block, as "
             "phantom-style ammo generators write it; ammogen Layout.RawTail) - with and without a body, next to entries that end exactly "
             "with the body, bodies of 1 B - 20 KiB: the request that arrives must still be the header block plus the Content-Length "
             "bytes that follow it; gun kinds: http, connect (plain target only), and - one ssl case "
             "in three - http2 against a TLS target that negotiates h2, keep-alives then disabled in every second case; for the http and "
             "http2 guns one case in three writes the target as a DNS name (`localhost:<port>`, the docs' `target: [hostname]:443`) instead "
             "of the listener's IP literal, a quarter of those with dial.dns-cache: false (by default the gun factory resolves the name "
             "once per pool): the Host of an entry without one must then be that name, not the address it resolves to; the pool (gun, provider, "
             "discard aggregator, once profiles) is built from a config map by "
             "config.DecodeAndValidate and run by the real engine against in-process recording HTTP, HTTPS and h2 servers; connections are "
             "counted at the target (distinct connections that carried a request, and the accept / TLS-handshake counter). "
             "Added after seeded defect C09/m16: body sizes and the observers of a run are dimensions of every format and gun kind - in "
             "one uripost / jsonline file in three and one raw file in two (raw requests are parsed from request text, the only ones "
             "without http.Request.GetBody) one entry, in a quarter of those two, gets a body of 65535, 65536, 65537, 66000, 70000, "
             "100000, 131072, 131073, 200000, 262144 or 300000 bytes (one in four moved by -3..3000 bytes; the drawn body followed by "
             "numbered lines, so that a missing or displaced piece shows; jsonline then with `maxammosize` above the file size); every "
             "second case writes `answlog: {enabled: true, path}` with no filter (the documented default `error`, which logs nothing "
             "for a target answering 200) or filter all / warning / error, one case in three each `httptrace: {dump: true}` and "
             "`{trace: true}`, a quarter each an engine logger of level debug and info - none of them is part of the request: the "
             "comparison with the model is the same with and without them. Non-trivial = "
             "a configured header name also defined by an entry, or Host given by the ammo, or >= 2 instances, or a body above 64 KiB "
             "with an observer on; distinct = hash of the case. "
             "TestKeepAliveGaps: the keep-alive clause with instances that PAUSE between their requests: load profiles that leave every "
             "instance idle for 1.1-2.5 s between two shots (once-bursts separated by zero-rate const sections, for the pool or - "
             "rps-per-instance - for every instance; or a const profile of 1/pause ops per instance), 1-3 instances, http / connect / "
             "http2 guns, ssl on/off, every answer kind, keep-alives off in one case of six; the transport options are left at their "
             "defaults or written (idle-conn-timeout: default 90s, or 30s / 90s / 5m / 0 = no limit - never below 30 s; "
             "tls-handshake-timeout, expect-continue-timeout, response-header-timeout, dial.timeout, max-idle-conns-per-host: default "
             "or written, the short ones <= 1 s, i.e. shorter than every pause); each case has a recording target of its own that "
             "never closes a connection, the cases of a process run concurrently (vf.Batch). Non-trivial there = the target saw two "
             "successive requests on ONE connection more than 1.05 s apart."),
    "floors": {"TestWire/config_header_overlaps_ammo": 0.2, "TestWire/overlap_uri": 0.03, "TestWire/overlap_uripost": 0.03,
               "TestWire/overlap_raw": 0.03, "TestWire/overlap_jsonline": 0.03, "TestWire/ssl": 0.3, "TestWire/keep_alive_off": 0.1,
               "TestWire/host_from_ammo": 0.2, "TestWire/instances_ge_2": 0.4,
               "TestWire/keep_alive_with_multi_read_answer": 0.16,
               "TestWire/http2_gun": 0.077, "TestWire/http2_keep_alive_off_ge_2_requests": 0.031,
               "TestWire/http2_keep_alive_more_requests_than_instances": 0.02, "TestWire/connect_gun": 0.05, "TestWire/http_gun": 0.4,
               "TestWire/target_by_name": 0.16, "TestWire/target_by_name_host_defaulted": 0.1,
               "TestWire/target_by_name_host_defaulted_ssl": 0.055, "TestWire/target_by_name_host_defaulted_http2": 0.018,
               "TestWire/target_by_name_dns_cache_off": 0.04, "TestWire/target_ip_literal_host_defaulted": 0.25,
               "TestWire/raw_sized_block_extends_past_body": 0.028, "TestWire/raw_sized_block_extends_past_bodiless_request": 0.026,
               "TestWire/raw_file_mixes_exact_and_extended_blocks_with_body": 0.009,
               "TestWire/raw_sized_block_extends_past_body_two_passes": 0.011,
               "TestWire/body_gt_64k": 0.12, "TestWire/body_64k_plus_minus_1": 0.035, "TestWire/body_ge_100k": 0.07,
               "TestWire/body_gt_64k_raw": 0.03, "TestWire/body_gt_64k_uripost": 0.04, "TestWire/body_gt_64k_jsonline": 0.025,
               "TestWire/answlog_enabled": 0.35, "TestWire/answlog_entry_with_body": 0.2,
               "TestWire/body_gt_64k_answlog": 0.045, "TestWire/body_gt_64k_answlog_raw": 0.008,
               "TestWire/body_gt_64k_answlog_uripost": 0.015, "TestWire/body_gt_64k_answlog_jsonline": 0.007,
               "TestWire/body_gt_64k_answlog_nothing_logged": 0.02, "TestWire/body_gt_64k_answlog_all": 0.007,
               "TestWire/body_gt_64k_answlog_http_gun": 0.03, "TestWire/body_gt_64k_answlog_http2_gun": 0.005,
               "TestWire/body_gt_64k_httptrace_dump": 0.025, "TestWire/body_gt_64k_httptrace_trace": 0.035,
               "TestWire/body_gt_64k_debug_log": 0.02, "TestWire/body_gt_64k_no_observer": 0.005,
               "TestWire/httptrace_dump": 0.2, "TestWire/httptrace_trace": 0.18, "TestWire/log_level_debug": 0.15,
               "TestKeepAliveGaps/connection_reused_after_pause_gt_1s": 0.3,
               "TestKeepAliveGaps/reused_after_pause_idle_conn_timeout_default": 0.12,
               "TestKeepAliveGaps/reused_after_pause_idle_conn_timeout_written": 0.12,
               "TestKeepAliveGaps/reused_after_pause_ssl": 0.08, "TestKeepAliveGaps/instances_ge_2": 0.25},
    "manifest": {
        "technique": "model-based property testing (rapid): generated ammo + gun config run through the real engine against a recording target; multiset/sequence comparison with the model",
        "text": ("The multiset of requests the target received must equal the model: method, request URI, body, every ammo header, a "
                 "configured header only where the entry lacks that name (a raw entry's body is the Content-Length bytes after its header "
                 "block, whatever else its sized block holds after them), Host from the ammo else the target's host as the config names it "
                 "(IP literal or DNS name, never the address a name resolved to), TLS iff ssl, extra "
                 "headers only from the set Go's transport adds; with one instance the sequence equals file order; connections <= "
                 "instances with keep-alive, one per request without - for the http, connect and http2 guns alike, judged both by the "
                 "connections the requests arrived on and by the number of connections the target accepted; an http2 gun's "
                 "requests arrive as HTTP/2.0. All of it holds unchanged for bodies up to 300 kB and whatever the run observes on "
                 "the side (answlog enabled with any filter, httptrace dump / trace, a debug-level logger): switching an observer "
                 "on does not change what is put on the wire. TestKeepAliveGaps: the same two connection clauses when the instances pause for 1.1-2.5 s "
                 "between their requests (far below the documented idle-conn-timeout of 90 s): connections seen by the target <= instances "
                 "with keep-alives, one per request without; every operation of the profile arrives as one request."),
        "note": ("Servers are Go httptest servers (HTTP/1.1, optional TLS; TLS + h2 for the http2 gun); the answer log is a temporary file "
                 "of the real file system (lib/answlog opens it with os.Create), removed after the case; configured header names are unique; entries carry no "
                 "Connection header; the server never closes idle connections during a case. A surplus connection "
                 "under keep-alives (and only that failure kind) must show again when the same case is run twice more: net/http's "
                 "transport dials a second connection by itself when a starved read loop has not yet handed the first one back; seen "
                 "once in three runs it is counted inconclusive_machine_load, not a pass. Over HTTP/2 a Cookie header with an "
                 "empty value may be absent (the protocol sends one field per cookie pair). With a target given by name and "
                 "dial.dns-cache on, the one connection the pool opens and closes without a request to resolve the name "
                 "(netutil.LookupReachable) is not counted as an instance's connection. The connect gun (undocumented) is only "
                 "run with IP-literal targets: it dials, and names in CONNECT and Host, the pre-resolved address by construction."),
    },
    "assumptions": ["Host without port and host:port are both accepted as 'the target's host'"],
}
