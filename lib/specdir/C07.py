"""run specification for C07 (loaded by lib/specs.py)"""

SPEC = {
    "pkg": "c07",
    "tests": [
        {"name": "TestDecode", "quick": 6000, "thorough": 480000, "shards_quick": 4, "shards_thorough": 16, "timeout": 1800},
        # long files: entry counts at / one off a power of two (63..4097) and free counts 1025..5000, cheap entries
        {"name": "TestDecodeMany", "quick": 480, "thorough": 9600, "shards_quick": 4, "shards_thorough": 16, "timeout": 1800},
        # long lines: physical lines (uri entry line, uripost / raw size line, "[Name: value]" line) and elements of 4 KiB up to just below 64 KiB
        {"name": "TestDecodeLongLines", "quick": 800, "thorough": 48000, "shards_quick": 4, "shards_thorough": 16, "timeout": 1800},
    ],
    # thorough tier: coverage-guided campaign over the same generator + oracle (rapid.MakeFuzz)
    "fuzz": [{"name": "FuzzModel", "seconds": 90}],
    "rule": ("every delivered request is, after it was compared, treated as the built-in gun treats it before the ammo is released (req.URL scheme and host pointed at a target, empty Host filled): an entry delivered again must not remember it; "
             "rapid-generated ammo models (1-8 entries: method, RFC 3986 path+query, ordered unique headers, binary/empty/newline- and "
             "'['-bearing bodies, tags with inner single spaces, runs of several spaces, tabs and special characters - never at the ends -, Host; in-file [Header: value] directives at generated "
             "positions for uri/uripost; one header value in three - directives, the entries' own headers, the defaults below - is rich in brackets "
             "and colons anywhere in it, also at its very ends: `ids[]`, `$.items[0]`, `[1, [2, 3]]`, `a:b::`, free compositions closed by runs of ']' "
             "or opened by '['; one Host in three is a bracketed IPv6 literal with or without a port) rendered into uri / uripost / raw / http-json with layout knobs (blank lines, leading/trailing "
             "blanks, CRLF, missing final newline, padded lines, inline `uris`, JSON lines / pretty / array) and read for 1-3 passes "
             "through the real provider built by config.DecodeAndValidate on a mem fs, in one case of two with the documented provider option "
             "`preload: true` (the file is loaded into memory by one LoadAmmo pass and replayed from there), so that every format and layout "
             "is decoded through both reading paths. One case in two configures 1-3 default headers (unique names from the pool of the "
             "file's own header names, Host among them) through the documented provider option `headers` (list of '[Name: value]' strings) for all four formats; the model "
             "gives them the lowest priority ('Headers in ammo file have priority'). Non-trivial = >= 2 entries and (a layout knob on, "
             "or a directive after the first entry, or a binary body); distinct = hash of the case. "
             "TestDecodeMany - long files: a generated base of 1-6 such entries (with its layout, directives and `headers` defaults) is repeated, every repeated entry "
             "made distinct by a leading path segment, up to an entry COUNT that is the generated dimension: a power of two from 64 to 4096 or one below / above it "
             "(63-65, ..., 255-257, ..., 1023-1025, ..., 4095-4097) in one case of two, a free count between 1025 and 5000 otherwise; all four formats (uri twice as often, "
             "one uri case in three through the inline `uris` option), streamed in two cases of three and preloaded otherwise, 1-3 passes (two or more in three cases of four), "
             "1-4 ammo held at once; uri / uripost files get, in three cases of four, an in-file '[X-Seg: k]' line before every 1st / 7th / 64th / 100th / 333rd / 1000th entry "
             "(header lines scattered through the whole length of the file), files whose base has blank lines get one every 2 / 9 / 50 / 1000 items. The same model judges "
             "every item of every pass, so a pass that ends early or late or restarts anywhere but at entry 0 fails at the first wrong item. Non-trivial there = several passes, "
             "or a layout knob on, or scattered header lines. "
             "TestDecodeLongLines - long lines: a generated base of 1-6 such entries gets 1-3 long spots - the query (most often) or the path of an entry, its tag, a new "
             "'[Cookie / Authorization / X-Long / X-Token: value]' line in front of an item (uri / uripost), a header value (raw / http-json), a one-line body - "
             "so that the LENGTH OF A PHYSICAL LINE is the generated dimension: the uri entry line, the uripost / raw size line or the header line is brought exactly to a drawn "
             "length (padding included), other elements get that length: 4096-4098, 8191-8193, 12288, 16384, 32768 (+-1) and free lengths up to 65000, i.e. above bufio's 4096-byte "
             "buffer and below the 64 KiB a bufio.Scanner takes by default (elements not on a framing line: up to 60000); http/json objects also 70-131 KB, then always with "
             "`maxammosize` above them. `maxammosize` is unset in three cases of five and otherwise set above everything in the file (uri: the longest line + 2..; other formats: "
             "the file length + 2..), where it rules nothing out. All four formats (uri three times as often, one uri case in four through inline `uris`), streamed / preloaded, "
             "1-3 passes, 1-4 ammo held; one spot in three on the last entry (long last line, also unterminated). Judged by TestDecode's oracle unchanged. "
             "Non-trivial there = a line above 4096 bytes and (>= 2 entries or several passes)."),
    "floors": {"TestDecode/extension_method_jsonline": 0.08, "TestDecode/extension_method_raw": 0.07, "TestDecode/no_final_newline": 0.079, "TestDecode/uripost_zero_body": 0.08, "TestDecode/mid_file_directive": 0.15,
               "TestDecode/json_array": 0.02, "TestDecode/json_pretty": 0.02, "TestDecode/crlf": 0.05, "TestDecode/multi_pass": 0.4,
               "TestDecode/uripost_last_line_unterminated": 0.0013,
               "TestDecode/tag_inner_blank_run": 0.15, "TestDecode/tag_inner_tab": 0.08,
               "TestDecode/tag_inner_blank_run_uri": 0.03, "TestDecode/tag_inner_blank_run_uripost": 0.03,
               "TestDecode/tag_inner_blank_run_raw": 0.03, "TestDecode/tag_inner_blank_run_jsonline": 0.03,
               "TestDecode/preload": 0.24, "TestDecode/preload_multi_pass": 0.2, "TestDecode/preload_json_array": 0.009,
               "TestDecode/preload_json_pretty": 0.009, "TestDecode/preload_uri": 0.06, "TestDecode/preload_uripost": 0.06,
               "TestDecode/preload_raw": 0.06, "TestDecode/preload_jsonline": 0.06, "TestDecode/preload_no_final_newline": 0.04,
               # "[Name: value]" values with brackets at their very ends / colons inside (in effect for at least one entry), the `headers` option
               "TestDecode/directive_value_ends_with_bracket": 0.08, "TestDecode/directive_value_ends_with_bracket_uri": 0.035,
               "TestDecode/directive_value_ends_with_bracket_uripost": 0.035, "TestDecode/directive_value_ends_with_bracket_run": 0.04,
               "TestDecode/directive_value_starts_with_bracket": 0.06, "TestDecode/directive_value_with_colon": 0.06,
               "TestDecode/directive_host_ipv6_literal_without_port": 0.008,
               "TestDecode/config_headers": 0.25, "TestDecode/config_headers_uri": 0.08, "TestDecode/config_headers_uripost": 0.08,
               "TestDecode/config_headers_raw": 0.053, "TestDecode/config_headers_jsonline": 0.07,
               "TestDecode/config_header_value_ends_with_bracket": 0.1, "TestDecode/config_header_value_ends_with_bracket_uri": 0.025,
               "TestDecode/config_header_value_ends_with_bracket_uripost": 0.025, "TestDecode/config_header_value_ends_with_bracket_raw": 0.02,
               "TestDecode/config_header_value_ends_with_bracket_jsonline": 0.02, "TestDecode/config_header_value_ends_with_bracket_run": 0.045,
               "TestDecode/config_header_value_with_colon": 0.08, "TestDecode/config_header_host_ipv6_literal_without_port": 0.008,
               "TestDecode/config_header_overridden_for_some_entries": 0.08, "TestDecode/entry_header_value_ends_with_bracket": 0.15,
               # long files (TestDecodeMany): entry counts around powers of two / above 1024, per format and reading path
               "TestDecodeMany/many_above_1024_multi_pass_streamed": 0.13, "TestDecodeMany/many_above_1024_multi_pass_streamed_uri": 0.06,
               "TestDecodeMany/many_above_1024_multi_pass_streamed_uripost": 0.015, "TestDecodeMany/many_above_1024_multi_pass_streamed_raw": 0.02,
               "TestDecodeMany/many_above_1024_multi_pass_streamed_jsonline": 0.015,
               "TestDecodeMany/many_above_1024_multi_pass_streamed_inline_uris": 0.02, "TestDecodeMany/many_above_1024_multi_pass_streamed_segment_headers": 0.06,
               "TestDecodeMany/many_above_1024_multi_pass_preload": 0.07, "TestDecodeMany/many_above_1024_uri": 0.13,
               "TestDecodeMany/many_above_1024_uripost": 0.045, "TestDecodeMany/many_above_1024_raw": 0.04, "TestDecodeMany/many_above_1024_jsonline": 0.035,
               "TestDecodeMany/many_255_to_257": 0.025, "TestDecodeMany/many_1023_to_1025": 0.04, "TestDecodeMany/many_4095_to_4097": 0.02,
               "TestDecodeMany/many_power_of_two": 0.06, "TestDecodeMany/many_one_below_power_of_two": 0.07, "TestDecodeMany/many_one_above_power_of_two": 0.07,
               "TestDecodeMany/many_around_power_of_two_multi_pass": 0.19, "TestDecodeMany/many_free_count": 0.2,
               "TestDecodeMany/many_inline_uris": 0.08, "TestDecodeMany/many_segment_headers": 0.2, "TestDecodeMany/many_segment_headers_uripost": 0.05,
               "TestDecodeMany/many_preload": 0.17, "TestDecodeMany/many_blank_lines_throughout": 0.15, "TestDecodeMany/many_json_array": 0.004,
               # long lines (TestDecodeLongLines): a physical line / element above 4096 bytes (bufio's buffer size) and below 64 KiB, per format, framing line and reading path
               "TestDecodeLongLines/long_line_above_4096": 0.45, "TestDecodeLongLines/long_line_above_4096_uri": 0.24,
               "TestDecodeLongLines/long_line_above_4096_uripost": 0.055, "TestDecodeLongLines/long_line_above_4096_raw": 0.06,
               "TestDecodeLongLines/long_line_above_4096_jsonline": 0.065,
               "TestDecodeLongLines/long_entry_line": 0.28, "TestDecodeLongLines/long_entry_line_uri": 0.2, "TestDecodeLongLines/long_entry_line_uripost": 0.04,
               "TestDecodeLongLines/long_entry_line_raw": 0.024, "TestDecodeLongLines/long_directive_line": 0.085,
               "TestDecodeLongLines/long_directive_line_uri": 0.07, "TestDecodeLongLines/long_directive_line_uripost": 0.013,
               "TestDecodeLongLines/long_uri_line_file": 0.15, "TestDecodeLongLines/long_uri_line_inline_uris": 0.05,
               "TestDecodeLongLines/long_uri_line_streamed": 0.095, "TestDecodeLongLines/long_uri_line_preload": 0.1,
               "TestDecodeLongLines/long_uri_line_multi_pass": 0.145, "TestDecodeLongLines/long_uri_line_among_several_entries": 0.16,
               "TestDecodeLongLines/long_line_4095_or_4096": 0.029, "TestDecodeLongLines/long_line_4097_to_4200": 0.085,
               "TestDecodeLongLines/long_line_4201_to_8191": 0.047, "TestDecodeLongLines/long_line_8k_to_32k": 0.18,
               "TestDecodeLongLines/long_line_32k_to_64k": 0.08, "TestDecodeLongLines/long_line_at_or_one_above_multiple_of_4096": 0.099,
               "TestDecodeLongLines/long_last_line": 0.15, "TestDecodeLongLines/long_last_line_unterminated": 0.007,
               "TestDecodeLongLines/long_crlf": 0.058, "TestDecodeLongLines/long_padded_lines": 0.046,
               "TestDecodeLongLines/long_query": 0.28, "TestDecodeLongLines/long_path": 0.04, "TestDecodeLongLines/long_tag": 0.09,
               "TestDecodeLongLines/long_directive": 0.096, "TestDecodeLongLines/long_header": 0.05, "TestDecodeLongLines/long_body": 0.034,
               "TestDecodeLongLines/long_multi_pass": 0.33, "TestDecodeLongLines/long_preload": 0.22, "TestDecodeLongLines/long_several_spots": 0.2,
               "TestDecodeLongLines/long_maxammosize_unset": 0.29, "TestDecodeLongLines/long_maxammosize_above": 0.19,
               "TestDecodeLongLines/long_maxammosize_above_uri": 0.095, "TestDecodeLongLines/long_maxammosize_above_jsonline": 0.04,
               "TestDecodeLongLines/long_json_above_64k_maxammosize_raised": 0.028},
    "manifest": {
        "technique": "model-based property testing (rapid): render a generated request model into each ammo format, decode with the real provider, compare; metamorphic over layout",
        "text": ("Each generated model is the oracle for the file rendered from it: the k-th delivered ammo must equal entry k mod E "
                 "(method, request URI, body bytes, tag, Host, effective headers with in-file directives applied in order and forgotten "
                 "at each pass; a '[Name: value]' line - in the file or in the `headers` option - is the name up to its first colon and the value "
                 "between that colon and the closing bracket of the line, blanks around both trimmed, so brackets and colons inside the value, also as its last "
                 "or first characters, arrive as written; `headers` defaults apply to every entry for which the file defines no header of that name, a default Host "
                 "to entries without a Host of their own), exactly passes*E items are delivered, then end of ammo and Run returns nil. Layout variants of the same "
                 "model must not change anything, and neither does reading the file with `preload: true`: the same model judges the streamed and the preloaded provider. "
                 "Nor does the length of the file: TestDecodeMany applies the same oracle to files and inline `uris` lists of 63 to 5000 entries (counts at and one off the powers of two, "
                 "free counts above 1024, in-file header lines scattered through the whole file) read for up to three passes - every pass must deliver the whole file, in order. "
                 "Nor does the length of a line: TestDecodeLongLines applies the same oracle to files whose lines (a URI with a long query, a '[Cookie: ...]' line, a long tag, "
                 "a long header value or one-line body) are 4 KiB up to just below 64 KiB long - each is one entry, delivered whole (URI, tag, header value to the last byte), "
                 "followed by the next entry of the file and by nothing else; a `maxammosize` above everything in the file changes nothing."),
        "note": ("URIs are restricted to characters net/url transmits verbatim; tags do not start/end with blanks (the one space after the URI / size delimits the tag, everything after it up to the trimmed line end is tag text, as is a JSON string); http/json bodies are "
                 "valid UTF-8; header names compared canonically; Content-Length may appear in raw requests."),
    },
    "assumptions": ["the names in the `headers` option are unique (what several defaults of one name mean is not documented)", "entries a format cannot express are not generated for it (uri: GET without body; uripost: POST; raw/json: no in-file directives)",
                    "a physical line of 64 KiB or more is not generated as well-formed (the default limit of a bufio.Scanner; `maxammosize` is documented for http/json only, where larger objects are generated together with a `maxammosize` above them)"],
}
