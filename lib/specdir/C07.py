"""run specification for C07 (loaded by lib/specs.py)"""

SPEC = {
    "pkg": "c07",
    "tests": [
        {"name": "TestDecode", "quick": 6000, "thorough": 480000, "shards_quick": 4, "shards_thorough": 16, "timeout": 1800},
    ],
    # thorough tier: coverage-guided campaign over the same generator + oracle (rapid.MakeFuzz)
    "fuzz": [{"name": "FuzzModel", "seconds": 90}],
    "rule": ("rapid-generated ammo models (1-8 entries: method, RFC 3986 path+query, ordered unique headers, binary/empty/newline- and "
             "'['-bearing bodies, tags with inner single spaces, runs of several spaces, tabs and special characters - never at the ends -, Host; in-file [Header: value] directives at generated "
             "positions for uri/uripost; one header value in three - directives, the entries' own headers, the defaults below - is rich in brackets "
             "and colons anywhere in it, also at its very ends: `ids[]`, `$.items[0]`, `[1, [2, 3]]`, `a:b::`, free compositions closed by runs of ']' "
             "or opened by '['; one Host in three is a bracketed IPv6 literal with or without a port) rendered into uri / uripost / raw / http-json with layout knobs (blank lines, leading/trailing "
             "blanks, CRLF, missing final newline, padded lines, inline `uris`, JSON lines / pretty / array) and read for 1-3 passes "
             "through the real provider built by config.DecodeAndValidate on a mem fs, in one case of two with the documented provider option "
             "`preload: true` (the file is loaded into memory by one LoadAmmo pass and replayed from there), so that every format and layout "
             "is decoded through both reading paths. One case in two configures 1-3 default headers (unique names from the pool of the "
             "file's own header names, Host among them) through the documented provider option `headers` (list of '[Name: value]' strings) for all four formats; the model "
             "gives them the lowest priority ('Headers in ammo file have priority'). Non-trivial = >= 2 entries and (a layout knob on, "
             "or a directive after the first entry, or a binary body); distinct = hash of the case."),
    "floors": {"TestDecode/no_final_newline": 0.079, "TestDecode/uripost_zero_body": 0.08, "TestDecode/mid_file_directive": 0.15,
               "TestDecode/json_array": 0.02, "TestDecode/json_pretty": 0.02, "TestDecode/crlf": 0.05, "TestDecode/multi_pass": 0.4,
               "TestDecode/uripost_last_line_unterminated": 0.0013,
               "TestDecode/tag_inner_blank_run": 0.15, "TestDecode/tag_inner_tab": 0.08,
               "TestDecode/tag_inner_blank_run_uri": 0.03, "TestDecode/tag_inner_blank_run_uripost": 0.03,
               "TestDecode/tag_inner_blank_run_raw": 0.03, "TestDecode/tag_inner_blank_run_jsonline": 0.03,
               "TestDecode/preload": 0.24, "TestDecode/preload_multi_pass": 0.2, "TestDecode/preload_json_array": 0.009,
               "TestDecode/preload_json_pretty": 0.009, "TestDecode/preload_uri": 0.06, "TestDecode/preload_uripost": 0.06,
               "TestDecode/preload_raw": 0.06, "TestDecode/preload_jsonline": 0.06, "TestDecode/preload_no_final_newline": 0.04,
               # "[Name: value]" values with brackets at their very ends / colons inside (in effect for at least one entry), the `headers` option
               "TestDecode/directive_value_ends_with_bracket": 0.08, "TestDecode/directive_value_ends_with_bracket_uri": 0.035,
               "TestDecode/directive_value_ends_with_bracket_uripost": 0.035, "TestDecode/directive_value_ends_with_bracket_run": 0.04,
               "TestDecode/directive_value_starts_with_bracket": 0.06, "TestDecode/directive_value_with_colon": 0.06,
               "TestDecode/directive_host_ipv6_literal_without_port": 0.008,
               "TestDecode/config_headers": 0.25, "TestDecode/config_headers_uri": 0.08, "TestDecode/config_headers_uripost": 0.08,
               "TestDecode/config_headers_raw": 0.053, "TestDecode/config_headers_jsonline": 0.07,
               "TestDecode/config_header_value_ends_with_bracket": 0.1, "TestDecode/config_header_value_ends_with_bracket_uri": 0.025,
               "TestDecode/config_header_value_ends_with_bracket_uripost": 0.025, "TestDecode/config_header_value_ends_with_bracket_raw": 0.02,
               "TestDecode/config_header_value_ends_with_bracket_jsonline": 0.02, "TestDecode/config_header_value_ends_with_bracket_run": 0.045,
               "TestDecode/config_header_value_with_colon": 0.08, "TestDecode/config_header_host_ipv6_literal_without_port": 0.008,
               "TestDecode/config_header_overridden_for_some_entries": 0.08, "TestDecode/entry_header_value_ends_with_bracket": 0.15},
    "manifest": {
        "technique": "model-based property testing (rapid): render a generated request model into each ammo format, decode with the real provider, compare; metamorphic over layout",
        "text": ("Each generated model is the oracle for the file rendered from it: the k-th delivered ammo must equal entry k mod E "
                 "(method, request URI, body bytes, tag, Host, effective headers with in-file directives applied in order and forgotten "
                 "at each pass; a '[Name: value]' line - in the file or in the `headers` option - is the name up to its first colon and the value "
                 "between that colon and the closing bracket of the line, blanks around both trimmed, so brackets and colons inside the value, also as its last "
                 "or first characters, arrive as written; `headers` defaults apply to every entry for which the file defines no header of that name, a default Host "
                 "to entries without a Host of their own), exactly passes*E items are delivered, then end of ammo and Run returns nil. Layout variants of the same "
                 "model must not change anything, and neither does reading the file with `preload: true`: the same model judges the streamed and the preloaded provider."),
        "note": ("URIs are restricted to characters net/url transmits verbatim; tags do not start/end with blanks (the one space after the URI / size delimits the tag, everything after it up to the trimmed line end is tag text, as is a JSON string); http/json bodies are "
                 "valid UTF-8; header names compared canonically; Content-Length may appear in raw requests."),
    },
    "assumptions": ["the names in the `headers` option are unique (what several defaults of one name mean is not documented)", "entries a format cannot express are not generated for it (uri: GET without body; uripost: POST; raw/json: no in-file directives)"],
}
