"""run specification for C06 (loaded by lib/specs.py)"""

SPEC = {
    "pkg": "c06",
    "cmds": ["vpandora"],   # harness/cmd/vpandora, path passed in VERIF_CMD_VPANDORA
    "tests": [
        {"name": "TestPhoutHistory", "quick": 600, "thorough": 32000, "shards_quick": 4, "shards_thorough": 16, "timeout": 1800,
         "race_thorough": True},
        {"name": "TestEncoderHistory", "quick": 600, "thorough": 32000, "shards_quick": 4, "shards_thorough": 16, "timeout": 1800,
         "race_thorough": True},
        {"name": "TestEncoderBoundary", "quick": 160, "thorough": 6000, "shards_quick": 4, "shards_thorough": 16, "timeout": 1800,
         "race_thorough": True},
        {"name": "TestEncoderFileSink", "quick": 160, "thorough": 2000, "shards_quick": 4, "shards_thorough": 16, "timeout": 1800,
         "race_thorough": True},
        {"name": "TestEngineLevel", "quick": 480, "thorough": 24000, "shards_quick": 4, "shards_thorough": 16, "timeout": 1800,
         "race_thorough": True, "replay_repeat": 50},
        # case counts are fixed inside the tests (vf.Batch): 8 subprocess trials quick, 100 per process thorough
        {"name": "TestSignals", "quick": 8, "thorough": 100, "shards_quick": 1, "shards_thorough": 2, "timeout": 1200,
         "replay_repeat": 5},
        # process-level end of a run (several pools; ends by itself / gun panic / malformed ammo): 24 trials quick, 120 per process thorough
        {"name": "TestProcessEnd", "quick": 24, "thorough": 120, "shards_quick": 1, "shards_thorough": 2, "timeout": 1500,
         "replay_repeat": 3},
        {"name": "TestSignalWitness", "quick": 1, "thorough": 1, "shards_quick": 1, "shards_thorough": 1, "timeout": 600},
    ],
    "rule": ("(a) rapid-generated report histories against the real aggregators: 1-8 reporter goroutines x 0-120 reports x 1-20 rounds, "
             "samples drawn from a small pool (duplicates) or fresh; phout: netsample.Acquire + exported setters with arbitrary ints "
             "(0, negative, around 2^32, up to +-9e15 us / the whole int range), tags over letters/space/#/|/unicode without TAB/LF "
             "(empty allowed), ids on/off, queue 0-4096, buffer at the 4 KiB minimum, written through a recording afero file; in 3 of 5 "
             "histories discarded shoots are reported among the guns' samples the way an instance behind its schedule does under "
             "discard_overflow (Report(netsample.DiscardedShootSample())): any reporter now and then, or some reporters nothing else; "
             "jsonlines / NewEncoderAggregator+JSON encoder / NewEncoderAggregator+a SampleEncodeCloser: struct, map, string, int, list "
             "samples with strings holding newlines, quotes, control characters, unicode; queue 1-64, flush interval 0/1 ms-1 s, "
             "recording DataSink, or (1 of 4) the real file data sink (datasink.NewFile = `sink: {type: file}`) on a recording file system, "
             "half of those with 1-4 Write calls that take 0.5 / 2 ms; Run started up to 2 ms after the reporters, context cancelled 0-3 ms after the last Report returned; "
             "in 1 of 5 encoder histories 1-3 samples that cannot be marshalled stand at drawn places among the ordinary ones: NaN / +Inf / -Inf / a channel / a func "
             "in a later struct field, behind a pointer (the sample a *struct, or a struct a pointer field points to), as the last element of a list, in a slice or map "
             "held by a struct field, as a value of a map sample, or the sample itself; marshal-float-with-6-digits on/off; sort_map_keys off (see assumptions) - the aggregator may "
             "then fail ('sample encode failed'), what it wrote must still be whole lines of reported samples, and a Run that returns nil / only the dropped count must account for everything. "
             "(a') buffer-boundary sweep of the same three encoder aggregators: one sample of a fixed encoded line length (32-4096 bytes "
             "dividing 4 KiB, 2047-8193 around the buffer sizes, arbitrary 32-900; string / map / list) is reported n times for EVERY n of "
             "a window one buffer period + 2 wide (period = 4 KiB or the configured buffer_size / line length, window at the 0th-6th "
             "period; or 4 counts around the one that fills the 512 KiB default buffer with 4-32 KiB lines), queue = n (no overflow), "
             "1-3 reporters, buffer_size default/1/4096/5000/6000/8192/12288, flush interval 0 / 1 h (only the final flush writes) / 1 s / 1 ms. "
             "(a'') the three encoder aggregators through the real file data sink on a recording file system that is slow for a moment, every "
             "sample unique (reporter/sequence number, line length varying from sample to sample), 1-4 reporters reporting in bursts: "
             "'slow moments' (2 of 3) - lines of 30-1100 bytes, 6-24 bursts of 1-60 reports 0.3-2 ms apart, flush interval 1-5 ms, buffer "
             "default/4 KiB/6000/16 KiB, 1-8 consecutive Write calls (starting at the 0th-4th) take 1-6 ms each, queue = reports (no drop "
             "possible) or 8/64/512; 'big bursts' (1 of 3) - lines of 8-64 KiB, 2-4 bursts of 1.1-2 buffers (512 KiB default, or 64 KiB) "
             "1-6 ms apart, flush interval 2 ms-1 s, Write calls of 0/1/3/5 ms (the first one or two, or all), queue = reports or 16. "
             "(b) real engine + real phout + recording gun reporting 1-3 uniquely tagged samples per shot, 1-4 instances at once, 1-120 tokens: "
             "normal end (tokens or ammo exhausted, any queue size), provider fault at item i, caller cancel after the j-th completed report; "
             "in half of the normal / cancel cases the startup schedule goes on after the `once` part (const 1/s for 30 s, or 200-2000/s for "
             "2-20 ms), and in half of those the ammo (0-24 items) runs out while instances are still being started and other instances "
             "are inside shots of up to 2.5 ms whose samples are reported after the first 'out of ammo'; each case twice. (c) cmd/vpandora subprocess with the `verif` gun (side-file counters before / after every Report), real "
             "phout file, const 1-20 krps, 2-4 instances; SIGINT / SIGTERM 0-1.6 s after 100-3000 reports completed (both sides of phout's "
             "1 s flush tick), or no signal and a 150-1200 ms run. (c') the same subprocess with 1-3 pools (own gun counters and phout file each, 1-8 instances, "
             "const 1-20 krps or unlimited, GOMAXPROCS default/1/2; in one case of four one pool's phout has no `destination` and writes to the standard output of the process, which the harness reads back, the log going to standard error) whose run ends by itself (schedule of 150-1200 ms, or a uri ammo file of 1-3000 entries "
             "with passes 1), or fails: the gun of one pool panics at its 1st-3000th shot after writing down how many reports of EVERY pool had "
             "completed, or one pool's ammo file is malformed after 1-3000 good entries; exit status 0 iff nothing failed, the panic value / decoding "
             "error in the log, every pool's output well-formed, gap-free per instance, lines = reports for a run that ended by itself and "
             ">= the counters written down before the panic (also for the pools that did not fail). Non-trivial = (a) >= 2 reporters or queue < reports, (a') every sweep, (a'') every case, (b) >= 2 reports "
             "due before the end instant and (>= 2 instances or queue < reports), (c) c0 >= 100, (c') >= 100 lines and (>= 2 pools or a failure); distinct = hash of the case."),
    "floors": {
        "TestProcessEnd/phout_to_stdout": 0.04, "TestProcessEnd/end_panic": 0.3, "TestProcessEnd/end_none": 0.05, "TestProcessEnd/failure_with_several_pools": 0.3,
        "TestProcessEnd/panic_other_pools_had_ge_100_completed_reports": 0.04,
        "TestPhoutHistory/reporters_ge_2": 0.5, "TestPhoutHistory/queue_lt_reports": 0.4, "TestPhoutHistory/ids_on": 0.22,
        "TestPhoutHistory/ids_off": 0.24, "TestPhoutHistory/negative_field": 0.5, "TestPhoutHistory/field_beyond_2^32": 0.5,
        "TestPhoutHistory/tag_special_chars": 0.5, "TestPhoutHistory/several_writes": 0.1, "TestPhoutHistory/duplicate_samples": 0.3,
        "TestPhoutHistory/report_before_run": 0.16,
        "TestPhoutHistory/discarded_among_shots": 0.19, "TestPhoutHistory/discarded_among_shots_reporters_ge_2": 0.17,
        "TestPhoutHistory/discarded_among_shots_ids_on": 0.1, "TestPhoutHistory/discarded_ge_20_among_shots_ge_20": 0.05,
        "TestEncoderHistory/drops": 0.3, "TestEncoderHistory/no_drops": 0.15, "TestEncoderHistory/queue_1": 0.2,
        "TestEncoderHistory/kind_jsonlines": 0.3, "TestEncoderHistory/kind_encoder": 0.1, "TestEncoderHistory/kind_closer": 0.1,
        "TestEncoderHistory/reporters_ge_2": 0.5, "TestEncoderHistory/several_writes": 0.1, "TestEncoderHistory/escaped_newline": 0.2,
        "TestEncoderHistory/sink_file": 0.15, "TestEncoderHistory/sink_file_slow_write": 0.03,
        "TestEncoderHistory/unencodable_in_history": 0.1, "TestEncoderHistory/unencodable_inside_sample": 0.1,
        "TestEncoderHistory/unencodable_among_ordinary": 0.1,
        "TestEncoderHistory/unencodable_run_failed": 0.08, "TestEncoderHistory/unencodable_run_failed_json_encoder": 0.05,
        "TestEncoderHistory/unencodable_all_dropped": 0.02, "TestEncoderHistory/unencodable_run_failed_after_lines_written": 0.015,
        "TestEncoderHistory/unencodable_nan_inf": 0.09, "TestEncoderHistory/unencodable_chan_func": 0.045,
        "TestEncoderHistory/unencodable_at_struct_field": 0.05, "TestEncoderHistory/unencodable_at_ptr_struct": 0.015,
        "TestEncoderHistory/unencodable_at_nested_ptr": 0.02, "TestEncoderHistory/unencodable_at_list_last": 0.012,
        "TestEncoderHistory/unencodable_at_slice_field": 0.01, "TestEncoderHistory/unencodable_at_map_value": 0.006,
        "TestEncoderHistory/unencodable_at_map_field": 0.01, "TestEncoderHistory/unencodable_float_6_digits": 0.05,
        "TestEncoderHistory/unencodable_sink_file": 0.025,
        "TestEncoderFileSink/shape_slow_moments": 0.3, "TestEncoderFileSink/shape_big_bursts": 0.17,
        "TestEncoderFileSink/slow_write_reached": 0.39, "TestEncoderFileSink/write_after_slow_write": 0.32,
        "TestEncoderFileSink/write_slower_than_flush_interval": 0.17, "TestEncoderFileSink/chunk_larger_than_buffer": 0.2,
        "TestEncoderFileSink/chunk_gt_512k": 0.06, "TestEncoderFileSink/chunk_larger_than_buffer_and_slow_write": 0.12,
        "TestEncoderFileSink/kind_jsonlines": 0.29, "TestEncoderFileSink/drops": 0.08, "TestEncoderFileSink/no_drops": 0.38,
        "TestEncoderFileSink/reporters_ge_2": 0.31,
        "TestEncoderBoundary/crossed_4k_multiple": 0.5, "TestEncoderBoundary/output_exact_4k_multiple": 0.25,
        "TestEncoderBoundary/final_flush_only": 0.33, "TestEncoderBoundary/flush_never": 0.2, "TestEncoderBoundary/kind_jsonlines": 0.3,
        "TestEncoderBoundary/kind_encoder": 0.08, "TestEncoderBoundary/kind_closer": 0.1, "TestEncoderBoundary/buffer_default": 0.2,
        "TestEncoderBoundary/buffer_above_4k": 0.16, "TestEncoderBoundary/buffer_4k_minimum": 0.078, "TestEncoderBoundary/fills_default_buffer": 0.04,
        "TestEncoderBoundary/beyond_first_period": 0.3, "TestEncoderBoundary/no_drops_at_any_count": 0.5,
        "TestEngineLevel/gradual_startup": 0.2, "TestEngineLevel/instances_beyond_once": 0.15,
        "TestEngineLevel/out_of_ammo_while_starting": 0.048, "TestEngineLevel/report_after_out_of_ammo_while_starting": 0.032,
        "TestEngineLevel/ended_by_itself": 0.3, "TestEngineLevel/cancel_in_progress": 0.12, "TestEngineLevel/provider_fault_reached": 0.08,
        "TestEngineLevel/reports_after_end_instant": 0.1, "TestEngineLevel/queue_le_2": 0.15, "TestEngineLevel/out_of_ammo_end": 0.1,
    },
    "manifest": {
        "technique": ("property-based testing (rapid) of the real phout / jsonlines / encoder aggregators, of the real engine with the real "
                      "phout, and of a pandora subprocess under SIGINT/SIGTERM; conservation-law oracle: independently parsed output "
                      "lines vs the recorded multiset of reports"),
        "text": ("Every sample the harness reports is remembered (for engine and process level also whether its Report call had returned "
                 "before the end-of-run / cancel / signal instant). After Aggregator.Run returned (or the process exited) the destination "
                 "bytes are parsed by the harness's own reader: phout lines must match `<sec>.<ms> TAB tag[#id] (TAB int){10}` with the "
                 "ten fields in the Yandex.Tank phout column order, timestamps inside the measured acquisition window, and the multiset of "
                 "lines must equal the multiset of reports (a discarded shoot = tag `discarded`, id 0, net code 777, the other fields 0); "
                 "encoder aggregators: each line one JSON value equal (after decoding, numbers "
                 "kept verbatim) to a reported sample as encoded by encoding/json, lines + SomeSamplesDropped.Dropped (errors.As on the "
                 "Run error) = reports, error nil iff no drop (a history that holds samples which cannot be marshalled may instead end with another error: then "
                 "every line must still be one JSON value equal to a reported ordinary sample, none more often than reported, lines + counted drops < reports; "
                 "when such a history ends with nil / the dropped count alone the full law applies, i.e. every unencodable sample is among the counted drops); "
                 "the destination opened once, closed exactly once, no write after close, "
                 "last line complete; with the real file sink also: the file holds exactly the bytes handed to its Write calls (copied when "
                 "each call began). Engine: completed-before-end <= lines <= started. Subprocess: reports completed before the signal "
                 "<= lines <= reports started, per instance the lines are exactly reports 1..m (no gap, no duplicate)."),
        "note": ("Signal instants are sampled (100 + 8 trials), not exhausted; goroutine interleavings are those the Go scheduler produced "
                 "(-race in thorough). In engine error/cancel cases phout's queue is sized above the report count because a Report made "
                 "after phout's Run returned blocks for ever on a full queue (outside this property). Sample ids are kept below 2^63 "
                 "(phout prints the uint64 id through int64)."),
    },
    "assumptions": [
        "the documented phout column order is Yandex.Tank's: time, tag, interval_real, connect_time, send_time, latency, receive_time, "
        "interval_event, size_out, size_in, net_code, proto_code (pandora's docs only say phout is compatible with Yandex.Tank); "
        "interval_event has no setter and is expected to be 0",
        "JSON equality is judged against encoding/json's encoding of the same Go value (struct/map/string/int/list, no floats)",
        "a sample that cannot be marshalled (NaN / Inf float, channel, func) may make the encoder aggregator's Run end with an error instead of being "
        "written or counted as dropped (the run fails loudly); nothing is demanded of how many of the samples reported before it are in the output then, "
        "only that what is there is well-formed and was reported. Such samples are generated with sort_map_keys off only: with it on (or with a json.Marshaler "
        "inside a sample) jsoniter passes a begun value to the encoder's bufio.Writer, which jsonEncoder.Flush still flushes after the failure - the unchanged "
        "code ends the output with an unterminated fragment there (reported as a possible finding, not asserted)",
        "the side-file counters of the verif gun (O_APPEND, one byte per event) bracket the number of completed reports",
        "a discarded-shoot sample carries nothing but what docs/eng/best_practices/discard-overflow.md names - the tag `discarded` and "
        "net error 777; id and the other nine fields are 0 (the instance reports it untouched)",
        "a slow file system is modelled by a Write that sleeps before it takes the bytes over; the sleeps are part of the environment, "
        "no assertion depends on a duration",
        "timestamps are compared with the wall clock of the same process; the check is skipped for a case during which the wall clock stepped by > 1 ms",
    ],
}
