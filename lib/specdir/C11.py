"""run specification for C11 (loaded by lib/specs.py)"""
import json
import os

_T = "TestIsolation"

# finding id -> classes that cannot occur while the generator steers around that listed finding
_EXCLUDED_BY = {
    "mp-nextiterator-rand-race": ["obj_http_idx_rand", "obj_http_respidx_rand", "obj_http_rand_iterator",
                                  "obj_grpc_idx_rand", "obj_grpc_respidx_rand", "obj_grpc_rand_iterator"],
    "str-randsource-race": ["obj_http_tmpl_randString", "obj_http_pre_randString", "obj_grpc_tmpl_randString",
                            "obj_grpc_pre_randString"],
    "grpc-scenario-metadata-rendered-in-place": ["obj_grpc_headers_const", "obj_grpc_headers_tmpl"],
}


def _known_ids():
    here = os.path.abspath(_known_ids.__code__.co_filename)  # this file is exec'd by specs.py, there is no __file__
    path = os.path.join(os.path.dirname(os.path.dirname(os.path.dirname(here))), "known_findings.json")
    try:
        return {k["id"] for k in json.load(open(path)) if k.get("property") == "C11" and k.get("status") == "known"}
    except (OSError, ValueError, KeyError):
        return set()


def _required():
    per_scen = ["cloned_steps", "idx_next", "idx_rand", "idx_last", "respidx_next", "respidx_rand", "respidx_last",
                "next_iterator", "rand_iterator", "source_csv", "source_json", "source_variables",
                "tmpl_randInt", "tmpl_randString", "tmpl_uuid", "pre_randInt", "pre_randString", "pre_uuid",
                "headers_const", "headers_tmpl", "post_assert", "templater_text", "weighted_scenarios", "repeated_step",
                "post_fails", "post_fails_always", "post_fails_sometimes", "post_fails_at_auth",
                "post_fails_agg_phout", "post_fails_agg_jsonlines"]
    cls = ["kind_http", "kind_http_scenario", "kind_grpc", "kind_grpc_scenario", "agg_phout", "agg_jsonlines",
           "obj_provider_queue", "obj_aggregator_phout", "obj_aggregator_jsonlines",
           "obj_shared_client_http", "obj_shared_client_http_scenario", "obj_shared_client_grpc",
           "obj_ammo_pool_grpcjson", "obj_http_preloaded_ammo", "obj_http_streamed_ammo",
           "obj_http_fmt_uri", "obj_http_fmt_uripost", "obj_http_fmt_raw", "obj_http_fmt_jsonline",
           "obj_http_post_jsonpath", "obj_http_post_header_substr", "obj_http_post_xpath", "obj_http_templater_html",
           "obj_http_date_middleware", "obj_http_date_middleware_custom_header", "obj_http_ammo_redelivered",
           "obj_http_json_array", "obj_http_host_header_in_file", "obj_http_date_middleware_redelivered",
           "obj_http_date_middleware_redelivered_no_host_header",
           "obj_http_post_fails_at_use", "obj_http_post_fails_body", "obj_http_post_fails_status", "obj_http_post_fails_header",
           "obj_http_post_fails_notjson", "obj_grpc_post_fails_at_list", "obj_grpc_post_fails_at_order", "obj_grpc_post_fails_payload",
           "invocations_dropped_while_shots_overlap",
           "instances_2_4", "instances_5_8", "instances_9_16", "overlap_measured",
           # schedules (after seeded defect C11/m6): the rps schedule is one object all instances share
           "sched_rps_single_once", "sched_rps_composite", "sched_rps_composite_2_sections", "sched_rps_composite_3_sections",
           "sched_rps_composite_4_sections", "sched_rps_composite_as_list", "sched_rps_composite_as_plugin",
           "sched_rps_section_once", "sched_rps_section_const", "sched_rps_section_pause", "sched_rps_section_unlimited",
           "sched_startup_once", "sched_startup_gradual", "sched_startup_composite", "sched_startup_instance_step",
           "sched_rps_composite_with_gradual_startup",
           # discard_overflow and a schedule the instances are behind of (after seeded defect C11/m7)
           "sched_discard_overflow_on", "sched_discard_overflow_off", "sched_rps_started_in_the_past",
           "sched_overdue_tokens_to_discard", "sched_overdue_tokens_to_shoot_late", "sched_overdue_section_once",
           "sched_overdue_section_const", "sched_overdue_tokens_before_composite_rps", "sched_rps_overdue_sections_then_once",
           "sched_overdue_tokens_with_gradual_startup", "sched_overdue_tokens_to_discard_and_late_tokens_to_shoot",
           "sched_overdue_tokens_to_discard_with_pooled_ammo", "shots_discarded_as_overflow",
           "shots_discarded_and_shots_overlap", "shots_discarded_with_pooled_ammo",
           # requests that exceed the 4 KiB the standard library's readers buffer (after seeded defect C11/m10)
           "obj_http_big_body", "obj_http_big_body_fmt_raw", "obj_http_big_body_fmt_uripost", "obj_http_big_body_fmt_jsonline",
           "obj_http_big_body_streamed", "obj_http_big_body_preloaded", "obj_http_big_body_raw_streamed",
           "obj_http_big_body_differs_per_entry", "obj_http_big_body_differs_per_entry_streamed_raw", "obj_http_big_header",
           "obj_http_big_body_with_date_middleware", "big_body_shots_overlap", "big_body_shots_overlap_streamed_raw",
           "big_body_shots_overlap_streamed_differing_entries",
           # phout `sample-queue-size`, instances that start late and storms of discarded shots around the aggregators'
           # periodic flush (after seeded defect C11/m11)
           "phout_sample_queue_1", "phout_sample_queue_2", "phout_sample_queue_16", "phout_small_queue_and_shots_overlap",
           "sched_startup_delayed", "sched_discard_storm", "sched_discard_storm_agg_phout",
           "sched_discard_storm_after_delayed_startup_phout_small_queue", "run_longer_than_flush_period",
           "discards_reported_across_periodic_flush", "discards_reported_across_periodic_flush_phout_small_queue",
           # http guns that dial through the DNS caching dialer: a target named by a host name that cannot be pre-resolved when
           # the gun section is decoded; shared clients; connections opened all through the run (after seeded defect C11/m12)
           "obj_http_target_by_ip", "obj_http_target_by_host_name_reachable_at_decode",
           "obj_http_target_by_host_name_unreachable_at_decode", "obj_http_keep_alives_disabled",
           "obj_http_target_drops_connections", "obj_dns_caching_dialer_http", "obj_dns_caching_dialer_http_scenario",
           "obj_dns_caching_dialer_of_shared_client", "obj_dns_caching_dialer_of_shared_client_http",
           "obj_dns_caching_dialer_of_shared_client_http_scenario", "obj_dns_caching_dialer_of_shared_client_redialing",
           "obj_dns_caching_dialer_per_instance_redialing", "dns_cache_on_target_not_pre_resolved",
           "dns_cache_on_and_shots_overlap", "dns_cache_on_shared_client_and_shots_overlap",
           "dns_cache_on_shared_client_redialing_while_shots_overlap", "http_redialing_while_shots_overlap",
           # engines of several pools and the guns' answ logs: component constructors that run on the goroutines of several
           # pools and of their instances at once (after seeded defect C11/m14)
           "pools_1", "pools_2", "pools_3", "pools_4", "multi_pool", "multi_pool_one_gun_kind", "multi_pool_mixed_gun_kinds",
           "multi_pool_grpc_guns_in_2_or_more_pools", "multi_pool_answlog_of_grpc_guns_in_2_or_more_pools",
           "multi_pool_answlog_of_grpc_guns_made_side_by_side", "multi_pool_grpc_guns_with_and_without_answlog",
           "multi_pool_answlog_of_http_guns_in_2_or_more_pools", "multi_pool_answlog_of_grpc_and_http_guns",
           "multi_pool_answlog_default_file_shared_by_pools", "multi_pool_guns_made_side_by_side",
           "multi_pool_shots_overlap_across_pools", "multi_pool_shots_overlap_within_2_or_more_pools",
           "multi_pool_more_than_16_instances", "sibling_kind_http", "sibling_kind_http_scenario", "sibling_kind_grpc",
           "sibling_kind_grpc_scenario", "sibling_overlap_measured", "sibling_answlog_file_holds_entries",
           "obj_answlog", "obj_answlog_http", "obj_answlog_http_scenario", "obj_answlog_grpc", "obj_answlog_grpc_scenario",
           "obj_answlog_file_own", "obj_answlog_file_default", "obj_answlog_written_while_shooting",
           "answlog_file_holds_entries", "answlog_file_holds_entries_and_shots_overlap"]
    cls += ["obj_http_" + c for c in per_scen] + ["obj_grpc_" + c for c in per_scen]
    dropped = set()
    for fid in _known_ids():
        dropped.update(_EXCLUDED_BY.get(fid, []))
    return [_T + "/" + c for c in cls if c not in dropped]


SPEC = {
    "pkg": "c11",
    "tests": [
        {"name": _T, "race": True, "quick": 240, "thorough": 4800, "shards_quick": 8, "shards_thorough": 16, "timeout": 3000,
         "shrinktime": "30s", "replay_repeat": 5},
        {"name": "TestWitnessRandIterator", "race": True, "quick": 1, "thorough": 1, "shards": 1, "timeout": 600},
        {"name": "TestWitnessRandString", "race": True, "quick": 1, "thorough": 1, "shards": 1, "timeout": 600},
        {"name": "TestWitnessGRPCMetadata", "race": True, "quick": 1, "thorough": 1, "shards": 1, "timeout": 600},
    ],
    "rule": ("rapid-generated pools of every supported kind: http (uri / uripost / raw / http/json ammo, preload on/off, http/json also as one "
             "JSON array whose decoded ammo are served again every pass, uri / uripost with or without a [Host: ..] directive, the built-in "
             "header/date middleware absent / as it is / with a custom headerName; the limit exceeds the file, so preloaded and array ammo "
             "are delivered several times to different instances), http/scenario, "
             "grpc (grpc/json), grpc/scenario; shared-client on/off (1-3 clients); phout or jsonlines aggregator writing to the mem-fs; "
             "2-16 instances, 2-6 ammo per instance, target think time 0-2.5 ms. The rps schedule is always the pool's shared one (no "
             "rps-per-instance): in 6 cases of 10 a composite of 2-4 short sections, written as a list or as {type: composite, nested}, "
             "of `once`, `const` (1-4 ms), a `const` pause without tokens and `unlimited` (1-2 ms); the counted sections before the last "
             "hold fewer tokens than there are ammo, so every instance asks the one schedule object for Left and Next while other "
             "instances move it on to its next section, and the last section outlasts the ammo limit; otherwise one `once` section. "
             "Instances start all at once or (4 cases of 10) gradually over a few ms: a composite of once / const / pause sections or "
             "instance_step (from 0 included). In 1 case of 10 the startup schedule begins with a pause of 1-40 ms. The pool option `discard_overflow` is always named, true in 6 cases of 10. In 4 cases of "
             "10 (7 of 10 for grpc/json, the provider that recycles its ammo objects through a pool) the shared rps schedule is started "
             "2.2-4 s in the past (core.Schedule.Start with an earlier time, which the interface allows once before the first Next): "
             "1-2 bursts of tokens (`once`, or `const` over 1-50 ms, pauses between them) holding up to half of the ammo are due 2 s or "
             "more before the run begins, in 1 of 4 such cases a further burst is due 0.2-1.2 s before it, then a pause up to the "
             "beginning of the run and the sections described above; so the instances meet overdue tokens exactly as instances that are "
             "slower than the schedule do, without any real waiting: with discard_overflow (4 of 5 such cases) the tokens that are 2 s "
             "overdue are discarded - the acquired ammo goes back to the provider unused while other instances shoot - otherwise they "
             "are shot at once. The number of discarded shots is measured (ammo acquired minus shots the gun probes counted; on a "
             "stalled machine instances fall 2 s behind any schedule) and all counts are judged against it. Plain http ammo with bodies (uripost, raw, http/json; raw is the format of about 4 plain http pools of 10) carry in "
             "about 7 cases of 10 bodies of 5-30 KiB plus 101 bytes per entry index, filled with a letter of the entry's own "
             "after a short head, raw and http/json entries in about half of the cases also a header of 700-5000 such letters: requests that exceed "
             "the 4 KiB the standard library's readers buffer, so that most of the body is read from the decoded ammo's memory only "
             "while the gun sends it - after the instance acquired it and while the provider goroutine decodes the following entries "
             "for the other instances; the target compares every byte of body and header with the entry the URI names. The phout "
             "aggregator gets `sample-queue-size` 1, 2 or 16 in about 4 cases of 10 (a full queue makes Report wait for the aggregator's "
             "goroutine; the jsonlines reporter drops samples when its queue is full - by design, so its queue is left alone). In 4-9 cases "
             "of 100 (it varies with the seed; rapid's draws are not uniform) the run is a storm of discarded shots that lasts across the aggregators' 1 s flush period: the startup schedule "
             "begins with a pause of 850-940 ms, then the instances start and find 9-24 thousand tokens of the shared rps schedule "
             "(started 2.2-4 s in the past; one `once`, one `const` over 1-50 ms, or two bursts) overdue by more than 2 s; with "
             "discard_overflow they drop them one after the other - acquire, give back, report the `discarded` sample - as fast as the "
             "provider hands the ammo out, which takes beyond the 1 s mark (120 tokens per ms up to the mark and 2-6 thousand more; "
             "measured: the times of the first and the last discarded acquisition), then the ammo of the case itself are shot as in any "
             "other case; more than 8 of 10 storms report to phout, three quarters of those with `sample-queue-size` 1, 2 or 16. The http and "
             "http/scenario guns are given their target by IP (`127.0.0.1:port`, about 4 cases of 10), by host name "
             "(`localhost:port`) while the target listens (1-2 of 10; both are pre-resolved when the gun section is decoded, which "
             "switches `dns-cache` off) or, in about 4 cases of 10, by host name while nothing listens on the target's port yet (the "
             "port is reserved by a bound socket that never listens, so the attempt is refused at once): pre-resolving fails - the "
             "harness reads the gun's warning from the global logger - `dns-cache: true`, the documented default, stays in "
             "force and every client dials through the DNS caching dialer and the process-wide cache behind it; the target comes "
             "up on that port after the config is decoded and before the engine runs the pool. With shared-client (half of these "
             "cases) the 1-3 clients and their dialers belong to all instances at once. Connections are opened all through the run, "
             "not only by the first shots: `disable-keep-alives: true` in about 3 cases of 10, the target answering every k-th "
             "request (k = 1, 2, 3, 5) with `Connection: close` in about 4 of 10, and a shared client keeps only two idle connections "
             "(net/http's default) for all its instances anyway; measured: connections the target accepted against instances. "
             "The gun option `answlog` (enabled, path, filter) is named for about 4 pools of 10 of every kind: a file of the pool's own in "
             "the child's working directory or (1 of 3) no path - the default `answ.log` of the working directory -, the filter not "
             "named / `all` (2 of 3: the guns write every request and answer into the log while they shoot) or `warning` / `error`; "
             "the http guns make the logger once when the gun section is decoded, the grpc and grpc/scenario guns make it in the gun "
             "constructor, i.e. on the pool's goroutine (warm-up gun) and on every instance's goroutine; measured: the file is there "
             "and holds entries after the run. About a quarter of the cases are ENGINES OF 2-4 POOLS (drawn last, so the first pool "
             "is what the case would have been alone): 1-3 sibling pools, each a whole pool description of its own - in half of the "
             "draws of the first pool's kind, otherwise any of the four kinds evenly; 2-6 instances, 2-4 ammo per instance, its own target, provider "
             "files, aggregator file, rps and startup schedules and every option above except the storm; `answlog` for 6 siblings "
             "of 10, about 4 of 10 of those without a path, so that the pools of an engine which name no path share the default file - all in ONE engine.Config and run by one engine.Run: the "
             "pools warm their guns up, start their instances and make the instances' guns side by side on their own goroutines "
             "(measured: the gun factory calls of one pool begin before those of another end and the other way round; shots of one "
             "pool begin while a gun of another pool is shooting). Every pool of the engine is judged by the whole oracle below "
             "with its own probes (the engine's log entries carry the pool id, the pre-resolve warnings the target); the engine's "
             "InstanceStart metric is compared with the guns bound in all pools together, and a gun is only ever bound to an "
             "instance of the pool whose factory made it. Scenarios are built from switches, one per shared "
             "object: preprocessor row mapping source.users[next|rand|last] on a file/csv or file/json source, [next|rand|last] indexing "
             "of an array taken from an earlier response, randInt / randString / uuid as template functions and as preprocessor "
             "functions, a `variables` source with randomised values, header / metadata maps (none, constants, templates), var/jsonpath, "
             "var/header with lower|upper|replace|substr modifiers, var/xpath, assert/response, text and html templaters, 1-3 weighted "
             "scenarios sharing the step definitions, repeated steps and sleeps; in roughly half of the scenario cases the target gives every k-th "
             "invocation (k = 1..4) an answer to one chosen step that a postprocessor of that step rejects at run time (assert/response on "
             "a missing body word, status code or header, var/jsonpath on a body that is not JSON; gRPC: assert/response on a missing "
             "payload field), so that step fails and the rest of the invocation is dropped while other instances go on. Pools are decoded by config.DecodeAndValidate and run "
             "by the real engine against an in-process target, each case in a child process of the -race test binary. "
             "Non-trivial = >= 2 instances and the gun probes measured >= 2 shots in progress at the same time (every pool shares at "
             "least the provider queue and the aggregator; the classes obj_* name the further shared objects); distinct = hash of the case."),
    "floors": {_T + "/overlap_measured": 0.5,
               # classes added after seeded defects C11/m1 (failing postprocessor) and C11/m2 (request-writing middleware on re-delivered ammo)
               _T + "/obj_http_post_fails": 0.05, _T + "/obj_grpc_post_fails": 0.045,
               _T + "/invocations_dropped_while_shots_overlap": 0.1,
               _T + "/obj_http_date_middleware_redelivered": 0.02,
               _T + "/obj_http_date_middleware_redelivered_no_host_header": 0.01,
               # classes added after seeded defect C11/m6 (shared composite rps schedule switching sections under concurrent Left/Next)
               _T + "/sched_rps_composite": 0.3, _T + "/sched_rps_section_const": 0.2, _T + "/sched_rps_section_once": 0.3,
               _T + "/sched_startup_gradual": 0.2, _T + "/sched_rps_composite_with_gradual_startup": 0.1,
               # classes added after seeded defect C11/m7 (discard_overflow drops shots of instances that are behind the schedule)
               _T + "/sched_rps_started_in_the_past": 0.25, _T + "/sched_overdue_tokens_to_discard": 0.15,
               _T + "/sched_overdue_tokens_to_shoot_late": 0.03, _T + "/shots_discarded_as_overflow": 0.15,
               _T + "/shots_discarded_and_shots_overlap": 0.12, _T + "/shots_discarded_with_pooled_ammo": 0.012,
               # classes added after seeded defect C11/m10 (ammo memory refilled while the request built from it is being sent)
               _T + "/obj_http_big_body": 0.06, _T + "/obj_http_big_body_raw_streamed": 0.012,
               _T + "/big_body_shots_overlap": 0.05, _T + "/big_body_shots_overlap_streamed_raw": 0.01,
               # classes added after seeded defect C11/m11 (phout flushes periodically while instances find the sample queue full)
               _T + "/phout_small_queue_and_shots_overlap": 0.08, _T + "/sched_discard_storm": 0.02,
               _T + "/discards_reported_across_periodic_flush": 0.015,
               _T + "/discards_reported_across_periodic_flush_phout_small_queue": 0.008,
               # classes added after seeded defect C11/m12 (DNS caching dialer of a shared client dialling for several instances at once)
               _T + "/dns_cache_on_target_not_pre_resolved": 0.1, _T + "/dns_cache_on_shared_client_and_shots_overlap": 0.04,
               _T + "/dns_cache_on_shared_client_redialing_while_shots_overlap": 0.03,
               _T + "/obj_dns_caching_dialer_of_shared_client_http": 0.015,
               _T + "/obj_dns_caching_dialer_of_shared_client_http_scenario": 0.015,
               _T + "/http_redialing_while_shots_overlap": 0.12,
               # classes added after seeded defect C11/m14 (gun constructors of several pools of one engine running side by side)
               _T + "/multi_pool": 0.12, _T + "/multi_pool_guns_made_side_by_side": 0.12,
               _T + "/multi_pool_shots_overlap_across_pools": 0.1, _T + "/multi_pool_one_gun_kind": 0.04,
               _T + "/multi_pool_mixed_gun_kinds": 0.05, _T + "/multi_pool_grpc_guns_in_2_or_more_pools": 0.03,
               _T + "/multi_pool_answlog_of_grpc_guns_in_2_or_more_pools": 0.02,
               _T + "/multi_pool_answlog_of_grpc_guns_made_side_by_side": 0.02,
               _T + "/multi_pool_answlog_of_http_guns_in_2_or_more_pools": 0.03,
               _T + "/obj_answlog": 0.19, _T + "/obj_answlog_grpc_scenario": 0.045, _T + "/obj_answlog_grpc": 0.012,
               _T + "/answlog_file_holds_entries_and_shots_overlap": 0.09},
    "required_classes": _required(),
    "manifest": {
        "technique": ("property testing (rapid) under the Go race detector: generated pool configurations run by the real engine in a child "
                      "process per case, with gun-factory / provider probes, a before/after deep dump of all shared definitions and a "
                      "target that judges per-invocation consistency"),
        "text": ("For every generated pool: the child process must end without a race report (exit code 66 / WARNING: DATA RACE on stderr), runtime fatal error "
                 "or panic; the gun factory is called once per started instance (plus one warm-up gun), every gun object is distinct, "
                 "bound exactly once to a distinct instance id and never receives a Shoot while another Shoot on it is in progress; no "
                 "ammo object is held by two instances at once, and an instance gives back (Release) only an ammo object it holds - never "
                 "one that went back to the provider already, shot or discarded as overflow; exactly the limited number of ammo is "
                 "acquired, every one of them is either shot or (discard_overflow) dropped, the target sees exactly the shot ones and "
                 "the aggregator holds one sample per request served plus one (phout: tagged `discarded`) per dropped shot; the canonical deep dump (reflection, unexported fields included) of the "
                 "provider's scenario steps, header / metadata maps, payloads, variable storage and preloaded ammo is identical before "
                 "and after the run; at the target every follow-up step presents exactly the token, user id, items, header- and "
                 "xpath-derived values and preprocessor uuid / row of the invocation they were issued to, a token is never presented by "
                 "more steps than one invocation has, values rendered from one source row or one variable into several places of one "
                 "request agree, random functions stay in their documented ranges, and the aggregator output has no torn lines and exactly "
                 "one sample per request the target served - also for steps whose postprocessor failed; after an answer that a step's "
                 "postprocessors reject no further step of that invocation arrives and the request total is the one of the dropped "
                 "invocations; with the header/date middleware every request arrives with exactly one well-formed value of the stamped "
                 "header (what other deliveries of the same preloaded / array ammo were stamped with never arrives), and the decoded "
                 "ammo kept by the provider or by the http/json array decoder are unchanged by the run; every request of a plain http "
                 "pool arrives with exactly the body and the headers of the entry its URI names, byte by byte - also bodies of tens of "
                 "KiB, which the gun is still reading from the ammo while other instances acquire theirs; with a phout "
                 "`sample-queue-size` as small as 1 and all instances reporting discarded shots at full speed while the aggregator "
                 "flushes periodically, the run ends without error, without a race report and every sample is one well-formed line; "
                 "http guns whose clients - shared by all instances or not - dial through the DNS caching dialer (target named by a "
                 "host name that came up only after the config was read), with connections opened all through the run by several "
                 "instances at once, run without a race report, all counts above hold exactly as for a target named by IP, and no "
                 "gun ever dials an empty address (`missing address` is never a transport error of a busy machine); engines of "
                 "2-4 pools of the same or of different kinds, with the guns' answ logs enabled in some of them (own files or the "
                 "shared default file), whose pools construct, warm up, bind and fire their guns side by side, run without a race "
                 "report or runtime fault, every pool of the engine satisfies all of the above on its own, no gun is bound to an "
                 "instance of another pool, and the engine started exactly as many instances as guns were bound in all pools."),
        "note": ("Race freedom is established only on the schedules that occurred (each case runs the pool twice; a failing case and its "
                 "shrink candidates are re-run up to 12 times). The race detector only sees accesses that are unordered by "
                 "happens-before; the engine's own atomic counters order whole shots, so only shots that really overlap in time can "
                 "expose a race - hence the measured-overlap rule. A failure is classified by the innermost pandora frames of the race "
                 "report / by which shared object changed; listed known findings are steered around by the generator (counted in "
                 "excluded_known, their classes dropped from required_classes) and re-confirmed by fixed witness cases."),
    },
    "assumptions": ["a race report is printed as WARNING: DATA RACE on the child's stderr and makes it exit with GORACE exitcode 66",
                    "state that is mutable by design is excluded from the deep dump by type: locks, sync.Map template caches, "
                    "math/rand sources, mp.NextIterator counters, channels, funcs, loggers"],
}
