"""run specification for C20 (loaded by lib/specs.py)"""

SPEC = {
    "pkg": "c20",
    "tests": [
        {"name": "TestGRPCJSON", "quick": 240, "thorough": 12000, "shards_quick": 8, "shards_thorough": 16, "timeout": 3000},
        {"name": "TestGRPCScenario", "quick": 320, "thorough": 16000, "shards_quick": 8, "shards_thorough": 16, "timeout": 3000},
        # sleep-bound: the case count per process is fixed inside the test (vf.Batch: 12 quick / 60 thorough, eight at a time)
        {"name": "TestGRPCScenarioPaced", "quick": 12, "thorough": 60, "shards_quick": 4, "shards_thorough": 8, "timeout": 3000},
        {"name": "TestKnownWitness", "quick": 1, "thorough": 1, "shards": 1, "timeout": 300},
    ],
    "rule": ("one grpc/json case in three (none with stalling entries) is read for 2-3 passes: every pass must reach the server like the first - method, message, metadata, deadline per call, one sample per call - also after the provider's ammo objects were released and handed out again; "
             "rapid-generated grpc/json ammo over the example TargetService (Hello/Auth/List/Order): payload field subsets, unicode and "
             "template-looking strings, int64 as number (|v| <= 2^53) or as string (full range), camelCase or snake_case keys, unknown "
             "fields, ill-typed values, unknown methods; metadata maps (printable values; one key in three - the entry marker too - written the HTTP way: Capitalised-Per-Word, "
             "UPPER-CASE or mixed case, which gRPC carries in lower case; no two keys of an entry differ in case only); handlers that stall beyond "
             "the timeout; timeout 150 ms - 1 s; shared-client on/off with client-number not written (default 1), 1, 2 or 3; 1-4 instances; in two cases out of five "
             "reflect_port is set to the port of a second listener that serves ONLY the reflection service (describing the target's services; any other call "
             "arriving there is recorded and answered Unimplemented) while the service itself is on the target port - combined with every other option; one file in six is 150-400 entries long (beyond the provider's read-ahead, so its ammo objects "
             "get recycled); pool built by config.DecodeAndValidate, real grpc "
             "gun (reflection + dynamic messages), real phout. Non-trivial = metadata beyond the entry marker, or an invalid entry mixed "
             "with valid ones, or >= 2 instances; distinct = hash of the case. "
             "TestGRPCScenario: generated grpc/scenario descriptions (YAML): a csv users source handed out by a prepare preprocessor "
             "(source.users[next]), a variables source, a leading Auth call and 1-3 List/Order calls with multiplicities 1-3; payload "
             "templates from the Auth response of the same invocation (token, userId) and from sources; 0-4 metadata entries per call "
             "whose values are literals or templates over the source, the row of this invocation or the captured token / userId, an action inside literal text "
             "(Bearer {{token}}), a built-in function of Go templates (printf over a source value and the row) or one of the documented randomization functions "
             "(uuid, randInt 100 200, randString 6); one call in three has a FIXED payload without any template action ({} or a constant body; Hello, List or Order), so "
             "that only its metadata values need rendering; in one description out of four reflect_port points at the reflection-only listener; two descriptions in three hold 1-2 further scenarios (weights 1-3) that refer to the SAME call definitions "
             "(auth and 1-4 references to the List/Order calls, in an order and with multiplicities of their own), so that one instance "
             "shoots the scenarios in mixed order; every scenario then lists a marker call of its own (Hello, name = this invocation's "
             "token) right after auth, by which the server's log tells the scenario of an invocation; 1-10 "
             "invocations by 1-4 instances, gun timeout 0.4 / 1 / 3 s (every call must arrive with a deadline no later than it). The recording server issues a unique token and user id per Auth call; calls are grouped "
             "into invocations by that token. Non-trivial = a metadata value that differs per invocation and >= 2 invocations. "
             "TestGRPCScenarioPaced: grpc/scenario descriptions that take LONGER than the gun's `timeout` (400 / 500 / 700 ms) while every "
             "single call stays well within it: Auth and 1-5 List / Order / Hello calls (multiplicities 1-3, payload and x-inv metadata "
             "from this invocation's Auth response), built around one of: a `sleep(N)` step of 1.2-2.2 x timeout in front of some call "
             "(other steps: sleeps of 0.3-0.8 x timeout, answers that take 0.3-0.4 x timeout); a per-call sleep `name(count, N)` of "
             "1.2-2.2 x timeout after auth or after a call listed twice; no sleep at all and 4-6 calls that the server answers after "
             "0.3-0.4 x timeout each; a mix of all of these. 1-2 invocations by 1-2 instances, one invocation is planned to take at most "
             "3.5 s; cases of a process run concurrently, each against a recording server of its own. Non-trivial = some call starts "
             "after more than `timeout` has (nominally) passed since the start of its invocation. "
             "Added after seeded defect C20/m16: the call name of an unknown-method entry (grpc/json) has one of many shapes - a misspelt method of the service, an unknown "
             "service, the bare method or service name without any dot, slash forms (target/TargetService/Hello, the gRPC path form /target.TargetService/Hello), a leading "
             "or trailing dot, dots only, the empty string, no \"call\" key at all, unicode names, names of 300-4000 characters, random names with and without a dot; "
             "and one grpc/scenario description in three has a scenario that ends - after auth, its marker call and 0..n of its calls - with a call \"bad\" whose call "
             "name is of the same shapes (key left out included): the call must leave one failed sample per invocation of that scenario and never reach the server, every "
             "invocation of every scenario must still be made in full (as many Auth calls as invocations, every listed call the listed number of times) and the run must not fail."),
    "floors": {"TestGRPCJSON/unknown_call_name": 0.2, "TestGRPCJSON/unknown_call_name_without_dot": 0.16,
               "TestGRPCJSON/unknown_call_name_without_dot_among_valid_entries": 0.14,
               "TestGRPCJSON/unknown_call_empty": 0.02, "TestGRPCJSON/unknown_call_missing_key": 0.015,
               "TestGRPCJSON/unknown_call_bare_method": 0.03, "TestGRPCJSON/unknown_call_slashes_only": 0.04,
               "TestGRPCScenario/unknown_call_shot": 0.14, "TestGRPCScenario/unknown_call_name_without_dot_shot": 0.08,
               "TestGRPCScenario/unknown_call_among_good_scenarios": 0.08,
               "TestGRPCScenario/unknown_call_name_without_dot_among_good_scenarios": 0.05,
               "TestGRPCScenario/unknown_call_shot_ge_2_times": 0.09, "TestGRPCScenario/unknown_call_after_good_calls": 0.08,
               "TestGRPCScenario/unknown_call_empty": 0.008, "TestGRPCScenario/unknown_call_missing_key": 0.008,
               "TestGRPCJSON/several_passes": 0.12, "TestGRPCJSON/several_passes_beyond_the_provider_queue": 0.025, "TestGRPCScenarioPaced/call_starts_after_timeout_has_passed_since_scenario_start": 0.44,
               "TestGRPCScenarioPaced/beyond_timeout_by_sleep_steps": 0.2, "TestGRPCScenarioPaced/beyond_timeout_by_per_call_sleep": 0.08,
               "TestGRPCScenarioPaced/beyond_timeout_by_slow_answers_only": 1, "TestGRPCScenarioPaced/call_starts_late_within_timeout": 0.19,
               "TestGRPCJSON/reflect_port": 0.27, "TestGRPCJSON/reflect_port_client_per_instance": 0.12,
               "TestGRPCJSON/reflect_port_shared_client_all_clients_used": 0.1, "TestGRPCJSON/shared_client_default_client_number": 0.047,
               "TestGRPCJSON/shared_clients_ge_2_all_used": 0.061,
               "TestGRPCScenario/fixed_payload_templated_metadata": 0.25,
               "TestGRPCScenario/fixed_payload_per_invocation_metadata_ge_2_invocations": 0.18,
               "TestGRPCScenario/metadata_with_template_function": 0.32, "TestGRPCScenario/metadata_with_random_function": 0.33,
               "TestGRPCScenario/reflect_port": 0.14,
               "TestGRPCScenario/metadata_per_invocation_value": 0.4, "TestGRPCScenario/metadata_from_earlier_response": 0.25,
               "TestGRPCScenario/per_invocation_metadata_with_concurrent_instances": 0.2, "TestGRPCScenario/multiplicity_gt_1": 0.4,
               "TestGRPCScenario/rows_wrap_around": 0.3, "TestGRPCScenario/several_scenarios": 0.39,
               "TestGRPCScenario/several_scenarios_shot": 0.28, "TestGRPCScenario/scenarios_in_mixed_order": 0.2,
               "TestGRPCScenario/shared_call_per_invocation_metadata": 0.23,
               "TestGRPCScenario/shared_call_per_invocation_metadata_one_instance": 0.05,
               "TestGRPCJSON/metadata_key_with_capitals": 0.36, "TestGRPCJSON/metadata_marker_key_with_capitals": 0.26,
               "TestGRPCJSON/metadata": 0.5, "TestGRPCJSON/invalid_mixed_with_valid": 0.3, "TestGRPCJSON/stalled_call": 0.1,
               "TestGRPCJSON/shared_client": 0.22, "TestGRPCJSON/instances_ge_2": 0.4, "TestGRPCJSON/invalid_unknown_method": 0.2,
               "TestGRPCJSON/invalid_wrong_type": 0.2, "TestGRPCJSON/invalid_unknown_field": 0.2, "TestGRPCJSON/file_longer_than_read_ahead": 0.08},
    "manifest": {
        "technique": "differential property testing (rapid): gun's reflection/dynamic-message path vs protojson into the generated request types, observed at a recording gRPC server",
        "text": ("Per valid entry the recording server must have received exactly one call of the named method whose message is "
                 "proto.Equal to protojson.Unmarshal(payload) into the generated type, with every metadata pair, carrying a deadline "
                 "<= the configured timeout; a stalled handler ends as a 504 sample by the timeout; invalid entries reach the server "
                 "never, yield one non-200 sample and do not disturb the others (whatever the shape of an unknown call name: with or without a dot, slash forms, empty, key left out, unicode, very long); a scenario call with such a name leaves one non-200 sample per invocation, never reaches the server, and every invocation of every scenario is still made in full by a run that ends without error. With reflect_port set the reflection-only listener must have served a "
                 "reflection stream and must have received no other call (every call goes to the target port, whichever shared client or instance sends it). Scenario calls: every call of every "
                 "invocation reaches the server with the method, the payload (token and user id captured from this invocation's Auth "
                 "response, source values) and every metadata pair rendered for THIS invocation (reference rendering from what the "
                 "server issued and the rows the harness wrote), the number of times the invocation's scenario lists it; users[next] hands out rows round-robin (asserted for "
                 "single-scenario descriptions); a call with a fixed payload arrives with exactly that message, and the metadata of its arrivals - "
                 "compared as a multiset of value tuples, since nothing in its message tells the invocation - equals the renderings for the invocations whose scenario "
                 "lists it, times its multiplicity; values of the randomization functions must have the documented form (uuid v4, a number "
                 "between the bounds, a string of the given length) and never the template text; one sample per call tagged <scenario>.<call tag>. Metadata keys are looked up "
                 "case-insensitively at the server (gRPC sends them in lower case). TestGRPCScenarioPaced: every call of every invocation "
                 "must reach the server the number of times the scenario lists it, whatever time of the scenario has passed before it, "
                 "carrying a deadline that is the gun's timeout counted from the call's own start - at the server no more than `timeout` "
                 "and no less than 3/4 of it is left -, and leave a 200 sample (the server answers every call after at most 0.4 x timeout)."),
        "note": ("JSON numbers above 2^53 are only generated as strings (the ammo is decoded through float64 by design of JSON maps). "
                 "Entries are matched to server calls by an x-entry metadata marker. "
                 "The lower bound on the deadline seen by the server (3/4 of the timeout) leaves 100-175 ms for the way from the gun's "
                 "context to the server's handler; a shortfall is only believed when the load probe saw the machine undisturbed "
                 "(vf.LoadTolerant). The grpc/scenario gun's configuration has no shared-client section, so it is not a dimension there."),
    },
    "assumptions": ["proto3 JSON mapping as implemented by google.golang.org/protobuf/encoding/protojson is the reference interpretation of a payload"],
}
