"""run specification for C05 (loaded by lib/specs.py)"""

SPEC = {
    "pkg": "c05",
    "tests": [
        {"name": "TestOutcome", "quick": 960, "thorough": 64000, "shards_quick": 8, "shards_thorough": 16, "timeout": 3000,
         "race_thorough": True, "replay_repeat": 50},
        {"name": "TestKnownWitness", "quick": 1, "thorough": 1, "shards": 1, "timeout": 300},
    ],
    "rule": ("rapid-generated runs of the real engine with 1-3 pools of recording doubles; per run at most one pool gets a fault plan: "
             "provider (before first ammo / after k items / after the engine cancelled it at the very end), aggregator (at start / after "
             "k reports / at the very end), gun factory (call i, call 0 = warm-up probe), Bind, WarmUp, schedule factory (shared or "
             "per-instance call i), shot panic at shot j (panic value: error, string, int, struct, []byte or a runtime error), each with a "
             "generated delay before the faulty return; provider / aggregator errors come bare, wrapped with %w, wrapped with pkg/errors, "
             "or as the component's own deadline error (cause context.DeadlineExceeded while the run's contexts are only ever cancelled); caller cancel before "
             "Run or 0-10 ms into it; profiles once/const/60 s-long, bounded/unbounded ammo, 1-4 instances; pool ids as a config author "
             "writes them: none (default names pool_<i>), free-form names, and with several pools two cases in three (of those not using "
             "the harness's own unique names) have a pool whose id is copied from another one (the same free-form name twice, or an "
             "explicit id equal to the default name of an unnamed pool); about one case in six has a plain, non-failing delay in a step "
             "of one pool that looks at no context (gun factory call i, WarmUp, schedule factory call i): 0.2-100 ms, or 1.5-2 s "
             "(one case in twenty) mostly together with a cancel 0-100 ms into the run (run once); every other case runs 3 times. "
             "Two thirds of the fault-only cases with several pools (about 12 % of all cases) are 'one pool fails, nobody cancels, the "
             "others cannot end by themselves': one or all of the other pools get the 60 s profile with unbounded ammo, the fault plan of "
             "the failing pool is made sure to be reached whatever the others do (first-call faults as they are; 'at the very end' faults "
             "with finite own work; after-k / shot-j / call-i faults with endless own work), and the harness does NOT cancel its context "
             "after Run returned - it never does before it has seen Engine.Wait return and everything stop, except where the case "
             "itself cancels - so only the engine can stop the surviving pools. One closable-gun pool in three has guns whose Close takes "
             "1-50 ms (per instance id, some instant); a gun counts as closed when its Close has returned, and 'bound closable guns are "
             "closed exactly once' is judged at the instant Engine.Run returns nil and at the instant Engine.Wait returns (and again after "
             "everything stopped). A nil result is accepted only if "
             "every pool used up its ammo or its schedule, cancel or not; the cancellation error must come within 1 s of the cancel. "
             "REAL ammo provider: one healthy pool in ten and two faulty pools in thirteen read their ammo with pandora's real http "
             "provider (uri - also as inline `uris` -, raw, jsonline files on the in-memory fs; `preload: true` in two of three; passes "
             "1, 2 or unlimited; in half of them a request middleware whose initialisation takes 0.5-20 ms). The faulty ones read a file "
             "with one malformed entry (unclosed header / unparsable URL, non-numeric or overlong size line, broken JSON / wrong field "
             "type) behind 0, 1, 3, 50, 1000 or 10000 good entries, or a file without any entry (empty, blank lines, header lines only, "
             "an empty JSON array): with preload the provider fails BEFORE its first ammo after a loading time that grows with the file, "
             "while the pool's instances - started at the same time - already wait in Acquire (counted: Acquire calls in progress at "
             "the instant the provider's Run returned its error); without preload it fails mid-run, after the good entries before the bad "
             "one were handed out. The fault counts as reached when the provider's Run returned an error that is not its context's "
             "cancellation; it is carried when the run's error shows that error's text; everything else (all instances stop, guns closed, "
             "Wait returns, nil only when ammo or schedule were used up) is judged as for the doubles. "
             "CROWDED pools: one case in twenty (thorough tier: one in fifty of its 64 times more cases) has a pool of 100, 150, 200, 300, 400 or 600 instances (startup `once N`) with a minute "
             "of work (2000 shots a second in total, shared or per instance), so that all of them are there when the caller's cancel "
             "(1-300 ms into the run) or the failure of a pool (its own fault plan, or a sibling's) ends the run, and all of them end in "
             "one burst: parked in the schedule wait or - in half of them, after a first instant shot - in a request that takes 30 s "
             "unless the gun's context ends it (fake.GunPlan.ShotCtx). LOGGER: one case in twelve and half of the crowded ones give the "
             "engine a debug (or info) level logger instead of the nop one, whose output costs the logging goroutine 0, 20, 100 or 200 us "
             "per entry (the pool's await loop logs every awaited result at debug level). "
             "WAIT MEANS OVER: every call the engine makes into a component of a pool (gun factory, WarmUp, Bind, Provider.Run, "
             "Aggregator.Run, schedule factory, Shoot) is recorded with the instant it STARTED; Engine.Wait is called the way the cli "
             "and a library user call it - straight after Engine.Run returned, from the same goroutine - and once no goroutine of the "
             "engine is left, none of the recorded calls may have started after the instant Wait returned (a panic out of Run / Wait "
             "themselves is a failure as well). The runs in which that matters are those that are over before the engine has got all "
             "its pools going: a context that is already cancelled or cancelled 0-50 us into Run (as before), and - new - one case in "
             "ten has 4-8 pools, and two thirds of the failing many-pool runs (one in eight of the other failing runs with several "
             "pools) fail AT ONCE, mostly without any delay, at a first step of the faulty pool (creation of the warm-up gun, WarmUp, shared "
             "schedule, first Bind, provider before its first ammo, aggregator as it starts) while the goroutines of the other pools "
             "may not have begun; counted (over the 3 runs of a case): a pool made its first step after Wait had been called, by "
             "what ended the run. "
             "TestKnownWitness: the fixed witness of finding engine-own-cancel-wrapped-by-provider-fails-run (repaired; a profile without "
             "a single shot next to a real provider that is still preloading / initialising a middleware: the engine's own cancel came "
             "back wrapped with %w and was reported as 'provider failed'), judged by the same oracle as a plain regression case; the "
             "generator produces that shape as well (class real_provider_pool_without_a_shot). "
             "Non-trivial = a fault was actually reached or the cancel arrived while Run was in progress; distinct = hash of the case."),
    "floors": {"TestOutcome/fault_provider": 0.05, "TestOutcome/fault_aggregator": 0.028, "TestOutcome/fault_sched": 0.013,
               "TestOutcome/fault_factory": 0.015, "TestOutcome/fault_bind": 0.015, "TestOutcome/fault_warmup": 0.013,
               "TestOutcome/fault_shot_panic": 0.01, "TestOutcome/cancel_in_progress": 0.1, "TestOutcome/pools_gt_1": 0.2,
               "TestOutcome/provider_fault_at_end": 0.02, "TestOutcome/aggregator_fault_at_end": 0.011,
               "TestOutcome/own_deadline_error_at_end": 0.0084, "TestOutcome/err_shape_pkg_wrapped": 0.02,
               "TestOutcome/panic_kind_int": 2, "TestOutcome/panic_kind_struct": 2, "TestOutcome/panic_kind_runtime": 1,
               "TestOutcome/pool_ids_equal": 0.07, "TestOutcome/pool_id_equals_default_name_of_other": 0.04,
               "TestOutcome/pool_ids_equal_and_fault_reached": 0.03, "TestOutcome/cancel_inside_blind_step": 0.02,
               "TestOutcome/cancel_inside_long_blind_step": 8, "TestOutcome/cancel_inside_long_blind_startup_step_other_pools_done": 5,
               "TestOutcome/pool_failed_no_caller_cancel_sibling_endless": 0.06,
               "TestOutcome/pool_failed_no_caller_cancel_sibling_was_shooting": 0.045,
               "TestOutcome/pool_failed_no_caller_cancel_sibling_is_first_pool": 0.03,
               "TestOutcome/slow_gun_close": 0.12, "TestOutcome/slow_gun_close_instance_0": 0.09, "TestOutcome/slow_gun_close_instance_gt_0": 0.07,
               "TestOutcome/slow_gun_close_result_nil": 0.03, "TestOutcome/slow_gun_close_result_ctx_err": 0.022,
               "TestOutcome/slow_gun_close_result_fault": 0.05,
               "TestOutcome/real_provider": 0.07, "TestOutcome/real_provider_raw": 10, "TestOutcome/real_provider_jsonline": 12,
               "TestOutcome/real_provider_failed_before_first_ammo_instances_in_acquire": 0.011,
               "TestOutcome/real_provider_failed_in_preload_instances_in_acquire": 0.0089,
               "TestOutcome/real_provider_failed_in_preload_malformed_instances_in_acquire": 0.0064,
               "TestOutcome/real_provider_failed_file_without_entries": 6, "TestOutcome/real_provider_failed_mid_run": 1,
               "TestOutcome/real_provider_healthy_result_nil": 8,
               "TestOutcome/crowd_gt_64_instances_started": 10, "TestOutcome/crowd_gt_250_instances_started": 3,
               "TestOutcome/crowd_ended_by_cancel": 5, "TestOutcome/crowd_ended_by_failure": 3,
               "TestOutcome/crowd_debug_log": 4, "TestOutcome/crowd_nop_log": 3,
               "TestOutcome/crowd_requests_end_with_context": 3, "TestOutcome/crowd_in_schedule_wait": 1,
               "TestOutcome/log_debug": 0.02,
               "TestOutcome/pools_gt_3": 0.04,
               "TestOutcome/pool_began_after_wait_was_called": 0.08,
               "TestOutcome/pool_began_after_wait_was_called_pool_0": 0.07,
               "TestOutcome/pool_began_after_wait_was_called_context_cancelled_before_run": 0.03,
               "TestOutcome/pool_began_after_wait_was_called_cancel_during_run": 0.035,
               "TestOutcome/pool_began_after_wait_was_called_other_pool_failed": 0.015,
               "TestOutcome/pool_began_after_wait_was_called_other_pool_failed_at_once": 0.015,
               "TestOutcome/pool_began_after_wait_was_called_gt_3_pools": 0.012},
    "manifest": {
        "technique": "fault-injection property testing (rapid) of the real engine with recording doubles and, for the ammo provider, also pandora's real http provider on malformed / entry-less files; outcome oracle from which faults were actually reached",
        "text": ("Generated fault/cancel plans are run against the real engine; the doubles record which injected fault actually returned "
                 "its error. Result must be nil iff nothing failed and no in-progress cancel cut work short, must carry a reached fault "
                 "or the context error otherwise; afterwards Engine.Wait returns, provider/aggregator Run returned, InstanceStart = "
                 "InstanceFinish, no call into any component (gun factory, WarmUp, Bind, Provider.Run, Aggregator.Run, schedule factory, "
                 "Shoot) started after the instant Engine.Wait - called straight after Run returned - returned, also when the run was over "
                 "(context already cancelled, one of 4-8 pools failing at its first step) before every pool had begun, bound closable guns are closed exactly once - already at the instant Run returns nil / Wait returns, with "
                 "Close calls that take 1-50 ms - and no engine goroutine survives; the harness leaves its own context alone until then, so "
                 "after one pool's failure the engine itself has to stop pools that would otherwise shoot for a minute. Orderings of the engine's "
                 "result channels are those the Go scheduler produced over 3 runs per case (plus -race in thorough). One pool in seven reads "
                 "its ammo with the real http provider (failing while it preloads a malformed or entry-less file, with the instances "
                 "already waiting in Acquire, or mid-run), one case in twenty has a pool of 100-600 instances that all end in one burst "
                 "when the run is cancelled or a pool fails, and some runs log at debug level to a slow output."),
        "note": ("Hang verdicts use a 20 s deadline (normal runs take < 50 ms). Guns whose Bind failed and the warm-up probe gun are not "
                 "required to be closed. A nil result - after an in-progress cancel or not - is accepted only if the history shows all work of every pool was "
                 "done. Promptness of the cancellation error is a 1 s bound (believed only when the load probe of the process saw its own 2 ms sleeps woken within 25 ms during the run; a disturbed miss is repeated up to three times and otherwise counted inconclusive_machine_load, never as a pass) (normal: well under a millisecond; the cli gives up on a "
                 "SIGTERM'ed run after 3 s), tested against pools that sit in a context-blind step for 1.5-2 s; Engine.Wait is still "
                 "required to return (it does once the step ends)."),
    },
    "assumptions": ["a fault counts as reached when the double's faulty call actually returned the error"],
}
