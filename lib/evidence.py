"""Merges per-process harness reports into one evidence document and validates it."""
import json
import os

SCHEMA = "/root/.vp/EVIDENCE.schema.json"


def merge(pid, spec, tier, seed, reports, wall, build_s, nproc, known):
    evals = 0
    nontriv = 0
    hashes = set()
    classes = {}
    samples = []
    failures = []
    known_hits = {}
    excluded = {}
    extra = {}
    per_test = {}
    for r in reports:
        evals += r.get("evals", 0)
        nontriv += r.get("nontrivial", 0)
        tname = r.get("test", "?")
        pt = per_test.setdefault(tname, {"evaluations": 0, "nontrivial": 0, "hashes": set()})
        pt["evaluations"] += r.get("evals", 0)
        pt["nontrivial"] += r.get("nontrivial", 0)
        for h in r.get("hashes") or []:
            hashes.add(tname + ":" + h)
            pt["hashes"].add(h)
        for k, v in (r.get("classes") or {}).items():
            classes[tname + "/" + k] = classes.get(tname + "/" + k, 0) + v
        for s in (r.get("samples") or []):
            if sum(1 for x in samples if x.get("test") == tname) < 3:
                samples.append({"test": tname, **(s if isinstance(s, dict) else {"case": s})})
        failures += r.get("failures") or []
        for k, v in (r.get("known_hits") or {}).items():
            known_hits[k] = known_hits.get(k, 0) + v
        for k, v in (r.get("excluded") or {}).items():
            excluded[k] = excluded.get(k, 0) + v
        for k, v in (r.get("extra") or {}).items():
            if isinstance(v, (int, float)) and not isinstance(v, bool):
                extra[k] = extra.get(k, 0) + v
            else:
                extra[k] = v
    floor_problems = []
    for cl, floor in (spec.get("floors") or {}).items():
        tname, cname = cl.split("/", 1)
        tot = per_test.get(tname, {}).get("evaluations", 0)
        got = classes.get(cl, 0)
        if tot == 0:
            continue
        if floor >= 1:
            if got < floor:
                floor_problems.append("class %s occurred %d times, floor %d" % (cl, got, floor))
        elif got / tot < floor:
            floor_problems.append("class %s is %.1f%% of cases, floor %.0f%%" % (cl, 100.0 * got / tot, 100 * floor))
    for cl in spec.get("required_classes") or []:
        tname = cl.split("/", 1)[0]
        if tname in per_test and classes.get(cl, 0) == 0:
            floor_problems.append("required class %s never occurred" % cl)
    # cases a timeout-bearing oracle could not judge because the machine was measurably busy (vf.LoadTolerant):
    # never a pass of the oracle; too many of them make the whole run inconclusive
    inconclusive = 0
    for cl, n in classes.items():
        if cl.endswith("/inconclusive_machine_load"):
            inconclusive += n
            tot = per_test.get(cl.split("/", 1)[0], {}).get("evaluations", 0)
            if tot and n / tot > spec.get("max_inconclusive", 0.1):
                floor_problems.append("%d of %d cases of %s were inconclusive because of machine load" % (n, tot, cl.split("/", 1)[0]))
    known_lines = []
    for k in known:
        if k.get("status") == "known" and known_hits.get(k["id"], 0) > 0:
            known_lines.append("%s: %s" % (k["id"], k.get("what", "")))
    cov = {
        "evaluations": int(evals),
        "distinct_nontrivial": len(hashes),
        "nontrivial_evaluations": int(nontriv),
        "rule": spec["rule"],
        "samples": samples if samples else [{"note": "no non-trivial case recorded"}],
        "classes": dict(sorted(classes.items())),
        "per_test": {k: {"evaluations": v["evaluations"], "nontrivial": v["nontrivial"],
                         "distinct_nontrivial": len(v["hashes"])} for k, v in sorted(per_test.items())},
        "processes": nproc,
        "excluded_known": excluded,
        "known_findings_reproduced": known_hits,
        "build_s": round(build_s, 1),
        "inconclusive_machine_load": inconclusive,
    }
    if spec.get("exhaustive_note"):
        cov["exhaustive_subspace"] = spec["exhaustive_note"]
    for k, v in extra.items():
        cov[k] = v
    doc = {
        "property_id": pid,
        "tier": tier,
        "seed": seed,
        "level": "exploration",
        "coverage": cov,
        "assumptions": spec.get("assumptions", []),
        "wall_s": round(wall, 2),
        "violations": len({f["replay"] for f in failures}),
    }
    return {"evidence": doc, "failures": failures, "floor_problems": floor_problems, "known_lines": known_lines}


def write(root, pid, doc):
    os.makedirs(os.path.join(root, "evidence"), exist_ok=True)
    path = os.path.join(root, "evidence", pid + ".json")
    try:
        import jsonschema  # optional (present in the tooling venv only)
        jsonschema.validate(doc, json.load(open(SCHEMA)))
    except ImportError:
        c = doc["coverage"]
        if not (c["evaluations"] >= 1 and isinstance(c["samples"], list) and len(c["samples"]) >= 1
                and isinstance(c["rule"], str) and isinstance(c["distinct_nontrivial"], int)):
            # e.g. every worker died in its first case: the result (violations / INFRA) must still be printed
            print("INFRA: evidence is incomplete (evaluations=%s, samples=%s)" % (c.get("evaluations"), len(c.get("samples") or [])))
    except Exception as e:  # schema problems must not hide the result
        print("INFRA: evidence does not validate: %s" % str(e)[:300])
    tmp = path + ".tmp"
    with open(tmp, "w") as f:
        json.dump(doc, f, indent=1, sort_keys=False, default=str)
        f.write("\n")
    os.replace(tmp, path)
