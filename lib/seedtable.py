#!/usr/bin/env python3
"""Rewrites the seeded-defect table of DESIGN.md (between SEEDED-TABLE-BEGIN / -END) from seeded/*/meta.json."""
import glob
import json
import os

ROOT = os.path.dirname(os.path.dirname(os.path.abspath(__file__)))
rows = []
for mp in sorted(glob.glob(os.path.join(ROOT, "seeded", "*", "meta.json"))):
    m = json.load(open(mp))
    name = os.path.basename(os.path.dirname(mp))
    v = m.get("verified_by_lead") or {}
    checks = v.get("checks") or {}
    caught = [k.split("@")[0] for k, c in checks.items() if c.get("exit") == 1]
    first = ""
    for c in checks.values():
        if c.get("first"):
            first = c["first"][0]
            break
    note = m.get("lead_note", "")
    title = (m.get("title") or "").replace("|", "/").replace("\n", " ")
    if len(title) > 150:
        title = title[:147] + "..."
    rows.append("| %s | %s | %s | %s | %s |" % (
        name, title, m.get("kind", ""),
        ("caught by " + ", ".join(sorted(set(caught)))) if caught else "NOT caught",
        note.replace("|", "/")))
table = ["| seeded change | what it does | needs | result (quick tier, VERIF_SEED=1) | strengthening it prompted |",
         "|---|---|---|---|---|"] + rows
n_caught = sum(1 for r in rows if "caught by" in r)
table.append("")
n_other = 0
for mp in sorted(glob.glob(os.path.join(ROOT, "seeded", "*", "meta.json"))):
    m = json.load(open(mp))
    own = os.path.basename(os.path.dirname(mp)).split("-")[0]
    ch = (m.get("verified_by_lead") or {}).get("checks") or {}
    hit = [k.split("@")[0] for k, c in ch.items() if c.get("exit") == 1]
    if hit and own not in hit:
        n_other += 1
table.append("%d of %d confirmed seeded changes are caught by the quick tier (VERIF_SEED=1): %d by the check of their own property, "
             "%d only by the check of the property whose harness looks at the changed code (`seeded/EXTRA_CHECKS.json`)."
             % (n_caught, len(rows), n_caught - n_other, n_other))
p = os.path.join(ROOT, "DESIGN.md")
s = open(p).read()
a, b = s.index("SEEDED-TABLE-BEGIN"), s.index("SEEDED-TABLE-END")
s = s[:a] + "SEEDED-TABLE-BEGIN\n" + "\n".join(table) + "\n" + s[b:]
open(p, "w").write(s)
print("%d rows, %d caught" % (len(rows), n_caught))
