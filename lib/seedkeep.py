#!/usr/bin/env python3
"""lib/seedkeep.py <Cxx/mN> ... : copies a confirmed seeded defect from /tmp/seed into /verif/seeded/<Cxx-mN>/
(patch.diff, demo/, run.sh, meta.json) and records what was run (from /tmp/seed/results/<Cxx-mN>.json)."""
import json, os, shutil, sys
for s in sys.argv[1:]:
    src = "/tmp/seed/" + s
    name = s.replace("/", "-")
    dst = "/verif/seeded/" + name
    shutil.rmtree(dst, ignore_errors=True)
    os.makedirs(dst)
    shutil.copy(src + "/patch.diff", dst)
    shutil.copy(src + "/run.sh", dst)
    shutil.copytree(src + "/demo", dst + "/demo")
    meta = json.load(open(src + "/meta.json"))
    for k in ("suite_tail", "suite_summary", "demo"):
        meta.pop(k, None)
    rp = "/tmp/seed/results/%s.json" % name
    if os.path.exists(rp):
        r = json.load(open(rp))
        suite_rc, suite_run = (r.get("suite") or {}).get("rc"), "in this verification run"
        su = r.get("suite") or {}
        if suite_rc not in (None, 0) and su.get("rerun_failing_packages") and not su.get("still_failing"):
            suite_rc, suite_run = 0, "in this verification run (packages that failed on the busy machine passed when re-run alone: %s)" % ", ".join(su["rerun_failing_packages"])
        if suite_rc is None:
            # the last re-verification (after later fix: commits in /repo) skipped pandora's suite for changes whose
            # suite run had already been confirmed by an earlier verification run of the same change
            earlier = set(open("/tmp/seed/suite-confirmed.txt").read().split()) if os.path.exists("/tmp/seed/suite-confirmed.txt") else set()
            if s in earlier:
                suite_rc, suite_run = 0, "in an earlier verification run of this change (at an earlier /repo HEAD); the demonstration and the checks were re-run at the final HEAD"
        meta["verified_by_lead"] = {
            "how": "lib/seedverify.py in a throw-away worktree of /repo HEAD: demo on the unchanged tree (exit 0), git apply, go build, demo on the changed tree (non-zero), pandora's own suite with the change (passes), then ./check with VERIF_REPO=<worktree>",
            "demo_on_original_rc": (r.get("demo_on_original") or {}).get("rc"),
            "demo_on_changed_rc": (r.get("demo_on_changed") or {}).get("rc"),
            "suite_rc": suite_rc,
            "suite_run": suite_run,
            "suite_flaky_packages_rerun": (r.get("suite") or {}).get("rerun_failing_packages"),
            "confirmed": r.get("confirmed"),
            "checks": {k: {"exit": v["rc"], "violations": v["violations"], "first": v["first"][:1]} for k, v in (r.get("checks") or {}).items()},
            "detected": r.get("detected"),
        }
    notes = json.load(open("/verif/seeded/NOTES.json")) if os.path.exists("/verif/seeded/NOTES.json") else {}
    if name in notes:
        meta["lead_note"] = notes[name]
    json.dump(meta, open(dst + "/meta.json", "w"), indent=1)
    print("kept", dst)
