#!/bin/bash
# sv.sh Cxx mN : verify a delivered seed; result in /tmp/seed/results/Cxx-mN.json
cd /verif
python3 lib/seedverify.py /tmp/seed/$1/$2 --save-regress > /tmp/seed/results/$1-$2.json 2>/tmp/seed/results/$1-$2.err
python3 - <<P
import json
r=json.load(open('/tmp/seed/results/$1-$2.json'))
print('$1-$2', 'confirmed=',r.get('confirmed'),'detected=',r.get('detected'), {k:(v['rc'],v['violations'],v['first'][:1]) for k,v in (r.get('checks') or {}).items()}, r.get('regress_saved'))
if not r.get('confirmed'): print({k:r.get(k) for k in ('demo_on_original','apply','build','demo_on_changed','suite')})
P
