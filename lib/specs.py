"""Per-property run specifications for ./check.

tests[].quick / .thorough  = number of generated cases (split over shards)
floors                     = minimal frequency (fraction <1) or count (>=1) of a class "<Test>/<class>"
"""

SPECS = {}

# properties whose checks are finished, validated and claimed in MANIFEST.json (others stay under not_applicable)
READY = ["C01", "C02", "C03", "C04", "C05", "C06", "C07", "C08", "C09", "C10", "C11", "C12", "C13", "C14", "C15", "C16", "C17", "C18", "C19", "C20"]

SETUP_CMD = ("cd /verif/harness && GOFLAGS=-mod=mod GOPROXY=off GOSUMDB=off GOTOOLCHAIN=local "
             "go build ./internal/... ; true")

HOOKS = {
    "guard": "verif",
    "enable": ("Go build tag: ./check passes -tags verif to every `go test -c` / `go build` of the harness module, which "
               "compiles /repo through a replace directive"),
    "baseline_off_cmd": "cd /repo && go test -vet=off -count=1 -timeout 25m ./...",
    "source_commits": ["a5b2892", "44fab63"],
    "add_only": True,
}

NOTES = ("One driver (./check <ID> --tier quick|thorough | --replay <file>), one Go harness module. Every check rebuilds its "
         "test binary from /repo's working tree. See DESIGN.md.")


def _load():
    import glob
    import os
    here = os.path.join(os.path.dirname(os.path.abspath(__file__)), "specdir")
    for path in sorted(glob.glob(os.path.join(here, "C*.py"))):
        ns = {}
        with open(path) as f:
            exec(compile(f.read(), path, "exec"), ns)
        SPECS[os.path.basename(path)[:-3]] = ns["SPEC"]


_load()
