"""Per-property run specifications for ./check.

tests[].quick / .thorough  = number of generated cases (split over shards)
floors                     = minimal frequency (fraction <1) or count (>=1) of a class "<Test>/<class>"
"""

SPECS = {}

SETUP_CMD = ("cd /verif/harness && GOFLAGS=-mod=mod GOPROXY=off GOSUMDB=off GOTOOLCHAIN=local "
             "go build ./internal/... ; true")

HOOKS = {
    "guard": "verif",
    "enable": ("Go build tag: ./check passes -tags verif to every `go test -c` / `go build` of the harness module, which "
               "compiles /repo through a replace directive"),
    "baseline_off_cmd": "cd /repo && go test -vet=off -count=1 -timeout 25m ./...",
    "source_commits": ["a5b2892"],
    "add_only": True,
}

NOTES = ("One driver (./check <ID> --tier quick|thorough | --replay <file>), one Go harness module. Every check rebuilds its "
         "test binary from /repo's working tree. See DESIGN.md.")

SPECS["C01"] = {
    "pkg": "c01",
    "tests": [
        {"name": "TestProfile", "quick": 24000, "thorough": 1600000, "shards_quick": 8, "shards_thorough": 16,
         "timeout": 1500},
    ],
    "rule": ("rapid generator over const/line/step/once configs (whole-second, 100ms-, ms-, us- and ns-granular durations; "
             "integer, tenth, arbitrary-float and zero rates; random start instant; built through config.DecodeAndValidate "
             "or the constructors); each schedule is drained completely and judged against the exact closed-form integral "
             "(math/big). Non-trivial = at least 2 tokens and (fractional-second duration, or from != to, or a zero end-point, "
             "or >= 2 step levels); distinct = distinct config tuples (hash of the case)."),
    "floors": {"TestProfile/fractional_duration": 0.25, "TestProfile/line_decreasing": 0.05,
               "TestProfile/zero_endpoint": 0.05, "TestProfile/via_config": 0.3, "TestProfile/step_multi_level": 0.02},
    "manifest": {
        "technique": "property-based testing (rapid) against an exact closed-form integral oracle (math/big)",
        "text": ("Generated const/line/step/once configurations (fractional durations, zero rates, both construction paths) are "
                 "drained completely; every token instant, the token count, Left() and the finish time are compared with the "
                 "exact integral of the configured rate. Random search with shrinking; no exhaustiveness claimed."),
        "note": ("Trusts math/big and the stated float tolerances (count off by one only when the exact integral is within 1e-9 "
                 "relative of an integer; |F(t_k)-k| <= rate*2ns + 1e-9*max(1,k))."),
    },
    "assumptions": ["float tolerance: a token count one off the exact floor is accepted only when the exact integral is within "
                    "1e-9 (relative) of an integer; token instants are judged forward, |F(t_k)-k| <= rate*2ns + 1e-9*max(1,k)",
                    "step levels within 1e-9 of `to` are accepted either way when `from` is not an integer"],
}

SPECS["C02"] = {
    "pkg": "c02",
    "tests": [
        {"name": "TestSeqFinite", "quick": 4000, "thorough": 400000, "shards_quick": 2, "shards_thorough": 8, "timeout": 1500},
        {"name": "TestConcFinite", "quick": 600, "thorough": 40000, "shards_quick": 3, "shards_thorough": 8, "timeout": 1500,
         "race_thorough": True},
        {"name": "TestSeqUnlimited", "quick": 400, "thorough": 16000, "shards_quick": 4, "shards_thorough": 16, "timeout": 1500},
        {"name": "TestConcUnlimited", "quick": 400, "thorough": 16000, "shards_quick": 4, "shards_thorough": 16, "timeout": 1500},
        {"name": "TestInterleavings", "quick": 6000, "thorough": 600000, "shards_quick": 3, "shards_thorough": 16, "timeout": 1500},
    ],
    "rule": ("rapid-generated schedule trees (depth <= 3, <= 5 children; leaves once/const/line/step/instance_step/unlimited, zero-token "
             "and empty parts anywhere) judged against manual chaining of separately drained parts. TestSeqFinite: scripted Next/Left "
             "by one caller in virtual time, optional on-finish wrapper, config or constructor path. TestConcFinite: 2-8 free-running "
             "goroutines, 4 rounds per case, multiset + linearisability windows for Left. TestSeqUnlimited/TestConcUnlimited: real time, "
             "1-4 ms parts, callers wait for each token as coreutil.Waiter does. TestInterleavings: 2-3 callers whose interleaving at the "
             "composite's lock-free yield points (hook) is dictated by a drawn choice list. Non-trivial = >= 2 token-bearing parts and "
             "(nesting depth >= 2 or a zero-token part [seq]; any [conc]; an unknown-length part that is not first [unlimited]; "
             "a lock-upgrade point reached [interleavings]); distinct = hash of tree+script(+choices)."),
    "floors": {"TestSeqUnlimited/unknown_not_first": 0.15, "TestSeqFinite/zero_token_part": 0.2, "TestConcFinite/left_callers": 0.3,
               "TestConcFinite/callers_ge_4": 0.3, "TestInterleavings/next_upgrade_contended": 0.1,
               "TestInterleavings/left_upgrade_point": 0.05, "TestSeqUnlimited/left_negative_seen": 0.1},
    "manifest": {
        "technique": "model-based property testing (rapid): manual-chaining reference, linearisability windows, harness-scheduled interleavings at hook yield points",
        "text": ("Schedule trees are generated and compared with a reference that drains each elementary part alone from the finish "
                 "of its predecessor: exact token sequence sequentially, exact multiset + per-caller monotonicity + Left() windows "
                 "under 2-8 concurrent callers, interval oracles in real time for unlimited parts, and deterministic enumeration-by-"
                 "sampling of interleavings at the composite's lock-upgrade points. Exploration: interleavings are sampled, not exhausted."),
        "note": ("Trusts the elementary parts (judged by C01) as reference; goroutine ids parsed from runtime.Stack; real-time sub-checks "
                 "compare only measured instants that bracket each call, so load can make a sample inconclusive, never wrong. "
                 "Interleaving control exists only at the hook's four yield points, on flat composites."),
    },
    "assumptions": ["callers of trees with unlimited parts wait for a token's time before drawing the next (coreutil.Waiter behaviour)",
                    "Left() may stay negative while an unlimited part ahead has not been started, even if its window has passed on the clock"],
}
