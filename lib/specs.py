"""Per-property run specifications for ./check.

tests[].quick / .thorough  = number of generated cases (split over shards)
floors                     = minimal frequency (fraction <1) or count (>=1) of a class "<Test>/<class>"
"""

SPECS = {}

SETUP_CMD = ("cd /verif/harness && GOFLAGS=-mod=mod GOPROXY=off GOSUMDB=off GOTOOLCHAIN=local "
             "go build ./internal/... ; true")

HOOKS = {
    "guard": "verif",
    "enable": ("Go build tag: ./check passes -tags verif to every `go test -c` / `go build` of the harness module, which "
               "compiles /repo through a replace directive"),
    "baseline_off_cmd": "cd /repo && go test -vet=off -count=1 -timeout 25m ./...",
    "source_commits": ["a5b2892"],
    "add_only": True,
}

NOTES = ("One driver (./check <ID> --tier quick|thorough | --replay <file>), one Go harness module. Every check rebuilds its "
         "test binary from /repo's working tree. See DESIGN.md.")

SPECS["C01"] = {
    "pkg": "c01",
    "tests": [
        {"name": "TestProfile", "quick": 24000, "thorough": 1600000, "shards_quick": 8, "shards_thorough": 16,
         "timeout": 1500},
    ],
    "rule": ("rapid generator over const/line/step/once configs (whole-second, 100ms-, ms-, us- and ns-granular durations; "
             "integer, tenth, arbitrary-float and zero rates; random start instant; built through config.DecodeAndValidate "
             "or the constructors); each schedule is drained completely and judged against the exact closed-form integral "
             "(math/big). Non-trivial = at least 2 tokens and (fractional-second duration, or from != to, or a zero end-point, "
             "or >= 2 step levels); distinct = distinct config tuples (hash of the case)."),
    "floors": {"TestProfile/fractional_duration": 0.25, "TestProfile/line_decreasing": 0.05,
               "TestProfile/zero_endpoint": 0.05, "TestProfile/via_config": 0.3, "TestProfile/step_multi_level": 0.02},
    "manifest": {
        "technique": "property-based testing (rapid) against an exact closed-form integral oracle (math/big)",
        "text": ("Generated const/line/step/once configurations (fractional durations, zero rates, both construction paths) are "
                 "drained completely; every token instant, the token count, Left() and the finish time are compared with the "
                 "exact integral of the configured rate. Random search with shrinking; no exhaustiveness claimed."),
        "note": ("Trusts math/big and the stated float tolerances (count off by one only when the exact integral is within 1e-9 "
                 "relative of an integer; |F(t_k)-k| <= rate*2ns + 1e-9*max(1,k))."),
    },
    "assumptions": ["float tolerance: a token count one off the exact floor is accepted only when the exact integral is within "
                    "1e-9 (relative) of an integer; token instants are judged forward, |F(t_k)-k| <= rate*2ns + 1e-9*max(1,k)",
                    "step levels within 1e-9 of `to` are accepted either way when `from` is not an integer"],
}

SPECS["C02"] = {
    "pkg": "c02",
    "tests": [
        {"name": "TestSeqFinite", "quick": 4000, "thorough": 400000, "shards_quick": 2, "shards_thorough": 8, "timeout": 1500},
        {"name": "TestConcFinite", "quick": 600, "thorough": 40000, "shards_quick": 3, "shards_thorough": 8, "timeout": 1500,
         "race_thorough": True},
        {"name": "TestSeqUnlimited", "quick": 400, "thorough": 16000, "shards_quick": 4, "shards_thorough": 16, "timeout": 1500},
        {"name": "TestConcUnlimited", "quick": 400, "thorough": 16000, "shards_quick": 4, "shards_thorough": 16, "timeout": 1500},
        {"name": "TestInterleavings", "quick": 6000, "thorough": 600000, "shards_quick": 3, "shards_thorough": 16, "timeout": 1500},
    ],
    "rule": ("rapid-generated schedule trees (depth <= 3, <= 5 children; leaves once/const/line/step/instance_step/unlimited, zero-token "
             "and empty parts anywhere) judged against manual chaining of separately drained parts. TestSeqFinite: scripted Next/Left "
             "by one caller in virtual time, optional on-finish wrapper, config or constructor path. TestConcFinite: 2-8 free-running "
             "goroutines, 4 rounds per case, multiset + linearisability windows for Left. TestSeqUnlimited/TestConcUnlimited: real time, "
             "1-4 ms parts, callers wait for each token as coreutil.Waiter does. TestInterleavings: 2-3 callers whose interleaving at the "
             "composite's lock-free yield points (hook) is dictated by a drawn choice list. Non-trivial = >= 2 token-bearing parts and "
             "(nesting depth >= 2 or a zero-token part [seq]; any [conc]; an unknown-length part that is not first [unlimited]; "
             "a lock-upgrade point reached [interleavings]); distinct = hash of tree+script(+choices)."),
    "floors": {"TestSeqUnlimited/unknown_not_first": 0.15, "TestSeqFinite/zero_token_part": 0.2, "TestConcFinite/left_callers": 0.3,
               "TestConcFinite/callers_ge_4": 0.3, "TestInterleavings/next_upgrade_contended": 0.1,
               "TestInterleavings/left_upgrade_point": 0.05, "TestSeqUnlimited/left_negative_seen": 0.1},
    "manifest": {
        "technique": "model-based property testing (rapid): manual-chaining reference, linearisability windows, harness-scheduled interleavings at hook yield points",
        "text": ("Schedule trees are generated and compared with a reference that drains each elementary part alone from the finish "
                 "of its predecessor: exact token sequence sequentially, exact multiset + per-caller monotonicity + Left() windows "
                 "under 2-8 concurrent callers, interval oracles in real time for unlimited parts, and deterministic enumeration-by-"
                 "sampling of interleavings at the composite's lock-upgrade points. Exploration: interleavings are sampled, not exhausted."),
        "note": ("Trusts the elementary parts (judged by C01) as reference; goroutine ids parsed from runtime.Stack; real-time sub-checks "
                 "compare only measured instants that bracket each call, so load can make a sample inconclusive, never wrong. "
                 "Interleaving control exists only at the hook's four yield points, on flat composites."),
    },
    "assumptions": ["callers of trees with unlimited parts wait for a token's time before drawing the next (coreutil.Waiter behaviour)",
                    "Left() may stay negative while an unlimited part ahead has not been started, even if its window has passed on the clock"],
}

SPECS["C03"] = {
    "pkg": "c03",
    "tests": [
        {"name": "TestAccounting", "quick": 640, "thorough": 48000, "shards_quick": 8, "shards_thorough": 16, "timeout": 2400,
         "race_thorough": True},
    ],
    "rule": ("rapid-generated single-pool configurations run through the real engine.Engine with recording doubles: 1-8 instances "
             "(startup once/const/instance_step), shared or per-instance finite profile tree (<= 100 tokens, pre-started 0-3 s in the "
             "past so late tokens are discarded without sleeping), ammo bound around the token count or unbounded, discard_overflow "
             "on/off, shot durations 0/50us/1ms, acquire delays, provider queue 0/1/64; each case is executed 3 times. Non-trivial = "
             ">= 2 instances and min(tokens, ammo) >= instances; distinct = hash of the case."),
    "floors": {"TestAccounting/ammo_lt_tokens": 0.1, "TestAccounting/ammo_eq_tokens": 0.1, "TestAccounting/per_instance": 0.3,
               "TestAccounting/shared": 0.3, "TestAccounting/discards": 0.03, "TestAccounting/composite_profile": 0.3},
    "manifest": {
        "technique": "property-based testing (rapid) of the real engine with recording doubles; conservation-law oracle over the recorded history",
        "text": ("The real engine runs generated pool configurations against doubles that record every Acquire/Release/Shoot/Report; "
                 "after Engine.Run returned nil the history must satisfy fired+discarded = min(tokens, ammo), each item released "
                 "exactly once and never used after release, unfired <= instances-1 (shared) / 0 (per-instance), request = response = "
                 "fired, InstanceStart = InstanceFinish. Interleavings are those the Go scheduler produced (3 runs per case; -race in thorough)."),
        "note": "Trusts the doubles (internal/fake) and the schedule tree reference (C01/C02) for the token count; goroutine interleavings are sampled, not controlled.",
    },
    "assumptions": ["token count of the profile is taken from the C02 reference chain of its parts"],
}

SPECS["C05"] = {
    "pkg": "c05",
    "tests": [
        {"name": "TestOutcome", "quick": 960, "thorough": 64000, "shards_quick": 8, "shards_thorough": 16, "timeout": 3000,
         "race_thorough": True, "replay_repeat": 50},
    ],
    "rule": ("rapid-generated runs of the real engine with 1-3 pools of recording doubles; per run at most one pool gets a fault plan: "
             "provider (before first ammo / after k items / after the engine cancelled it at the very end), aggregator (at start / after "
             "k reports / at the very end), gun factory (call i, call 0 = warm-up probe), Bind, WarmUp, schedule factory (shared or "
             "per-instance call i), shot panic at shot j, each with a generated delay before the faulty return; caller cancel before "
             "Run or 0-10 ms into it; profiles once/const/60 s-long, bounded/unbounded ammo, 1-4 instances; every case runs 3 times. "
             "Non-trivial = a fault was actually reached or the cancel arrived while Run was in progress; distinct = hash of the case."),
    "floors": {"TestOutcome/fault_provider": 0.05, "TestOutcome/fault_aggregator": 0.05, "TestOutcome/fault_sched": 0.02,
               "TestOutcome/fault_factory": 0.02, "TestOutcome/fault_bind": 0.02, "TestOutcome/fault_warmup": 0.02,
               "TestOutcome/fault_shot_panic": 0.01, "TestOutcome/cancel_in_progress": 0.1, "TestOutcome/pools_gt_1": 0.2,
               "TestOutcome/provider_fault_at_end": 0.02, "TestOutcome/aggregator_fault_at_end": 0.02},
    "manifest": {
        "technique": "fault-injection property testing (rapid) of the real engine with recording doubles; outcome oracle from which faults were actually reached",
        "text": ("Generated fault/cancel plans are run against the real engine; the doubles record which injected fault actually returned "
                 "its error. Result must be nil iff nothing failed and no in-progress cancel cut work short, must carry a reached fault "
                 "or the context error otherwise; afterwards Engine.Wait returns, provider/aggregator Run returned, InstanceStart = "
                 "InstanceFinish, bound closable guns are closed exactly once and no engine goroutine survives. Orderings of the engine's "
                 "result channels are those the Go scheduler produced over 3 runs per case (plus -race in thorough)."),
        "note": ("Hang verdicts use a 20 s deadline (normal runs take < 50 ms). Guns whose Bind failed and the warm-up probe gun are not "
                 "required to be closed. A nil result after an in-progress cancel is accepted only if the history shows all work was done."),
    },
    "assumptions": ["a fault counts as reached when the double's faulty call actually returned the error"],
}
