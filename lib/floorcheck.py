#!/usr/bin/env python3
"""lib/floorcheck.py [--only C07,C19] <seed> ... : runs every registered check (quick) at the given VERIF_SEED values and reports, per class
floor of the specs, the smallest observed/floor ratio — floors with a thin margin make a check exit 2 at some seed."""
import json, os, subprocess, sys
ROOT = os.path.dirname(os.path.dirname(os.path.abspath(__file__)))
sys.path.insert(0, os.path.join(ROOT, "lib"))
import specs
worst = {}
bad = []
args = sys.argv[1:]
only = None
if args and args[0] == "--only":
    only = [x.upper() for x in args[1].split(",")]
    args = args[2:]
if not args or not all(a.isdigit() for a in args):
    sys.exit("usage: lib/floorcheck.py [--only C07,C19] <seed> ...   (seeds are integers)")
for seed in args:
    for pid in specs.READY:
        if only and pid not in only:
            continue
        env = dict(os.environ, VERIF_SEED=seed)
        p = subprocess.run([os.path.join(ROOT, "check"), pid], cwd=ROOT, env=env, stdout=subprocess.PIPE, stderr=subprocess.STDOUT, text=True)
        if p.returncode != 0:
            bad.append((pid, seed, p.returncode, [l for l in p.stdout.splitlines() if l.startswith(("VIOLATION", "INFRA"))][:3]))
        ev = json.load(open(os.path.join(ROOT, "evidence", pid + ".json")))
        cl, pt = ev["coverage"]["classes"], ev["coverage"]["per_test"]
        for name, floor in (specs.SPECS[pid].get("floors") or {}).items():
            t = name.split("/", 1)[0]
            tot = pt.get(t, {}).get("evaluations", 0)
            if not tot:
                continue
            got = cl.get(name, 0)
            ratio = (got / floor) if floor >= 1 else (got / tot) / floor
            k = (pid, name)
            if k not in worst or ratio < worst[k][0]:
                worst[k] = (ratio, seed, got, tot, floor)
for (pid, name), (ratio, seed, got, tot, floor) in sorted(worst.items(), key=lambda kv: kv[1][0]):
    if ratio < 1.6:
        print("%-4s %-70s ratio %.2f at seed %s (%d of %d, floor %s)" % (pid, name, ratio, seed, got, tot, floor))
for b in bad:
    print("NON-ZERO EXIT", b)
