package c18

// Nested component sections (added after seeded defect C18/m11).
//
// A component whose settings contain further component sections - an interface-typed plugin field, a list of them, a
// plain struct holding one, factory-typed fields - is what composite schedules, pools and custom guns look like.
// When such a component is made by a factory of a COMPONENT constructor, "every product is built from a freshly
// created and freshly decoded configuration": the user's section - and every section nested in it - is decoded once
// per product, by the pluginconfig hooks, from the very maps the user handed over. So those maps must survive every
// decode unchanged (what /repo 9d29bd6 fixed for the hooks: "a section can be decoded once per product"), every
// product must get nested components of its own, configured with their registered defaults overlaid by their own
// sections, and a nested section that is wrong must fail every product alike.
//
// The sections are given as map[string]interface{} (what JSON and viper's YAML produce) and as
// map[interface{}]interface{} (yaml.v2), chosen per section.

import (
	"errors"
	"fmt"
	"reflect"
	"sort"
	"strings"
	"sync"
	"testing"

	"verif/harness/internal/pand"
	"verif/harness/internal/vf"

	"github.com/yandex/pandora/core/register"
	"pgregory.net/rapid"
)

// NestConf is the config of the nesting components.
type NestConf struct {
	S     string               `config:"s"`
	Inner Comp                 `config:"inner"` // component section (pluginconfig.Hook)
	List  []Comp               `config:"list"`  // list of component sections
	Make  func() (Comp, error) `config:"make"`  // factory section (pluginconfig.FactoryHook)
	Makes []func() Comp        `config:"makes"` // list of factory sections
	Sub   NestSub              `config:"sub"`   // plain settings struct with a component section further down
}

type NestSub struct {
	Inner Comp `config:"inner"`
}

// NestImpl is a component that holds nested components.
type NestImpl struct {
	conf   *NestConf
	serial int
	owner  string
}

func (p *NestImpl) Config() *Conf { return nil }
func (p *NestImpl) Serial() int   { return p.serial }

type nestType struct {
	Name       string
	Kind       string // component | factory
	HasDefault bool
}

const nestDefaultS = "nestdflt"

var nestTypes = []nestType{
	{Name: "c18/nest-component-struct", Kind: "component"},
	{Name: "c18/nest-component-ptr-default-err", Kind: "component", HasDefault: true},
	{Name: "c18/nest-factory-struct", Kind: "factory"},
	{Name: "c18/nest-factory-ptr-default-err", Kind: "factory", HasDefault: true},
}

type nestCall struct {
	typ  string
	conf *NestConf
}

var nest struct {
	mu    sync.Mutex
	ctors []nestCall
	facs  int
	impls int
}

func nestReset() {
	nest.mu.Lock()
	nest.ctors, nest.facs, nest.impls = nil, 0, 0
	nest.mu.Unlock()
}

func nestCtor(typ string, c *NestConf) {
	nest.mu.Lock()
	nest.ctors = append(nest.ctors, nestCall{typ, c})
	nest.mu.Unlock()
}

func nestImpl(typ string, c *NestConf) *NestImpl {
	nest.mu.Lock()
	defer nest.mu.Unlock()
	nest.impls++
	return &NestImpl{conf: c, serial: nest.impls, owner: typ}
}

var nestOnce sync.Once

func nestRegister() {
	gRegister()
	nestOnce.Do(func() {
		var ptr *Comp
		defPtr := func() *NestConf { return &NestConf{S: nestDefaultS} }
		register.RegisterPtr(ptr, nestTypes[0].Name, func(c NestConf) Comp {
			nestCtor(nestTypes[0].Name, &c)
			return nestImpl(nestTypes[0].Name, &c)
		})
		register.RegisterPtr(ptr, nestTypes[1].Name, func(c *NestConf) (Comp, error) {
			nestCtor(nestTypes[1].Name, c)
			return nestImpl(nestTypes[1].Name, c), nil
		}, defPtr)
		register.RegisterPtr(ptr, nestTypes[2].Name, func(c NestConf) func() Comp {
			nestCtor(nestTypes[2].Name, &c)
			return func() Comp {
				nest.mu.Lock()
				nest.facs++
				nest.mu.Unlock()
				return nestImpl(nestTypes[2].Name, &c)
			}
		})
		register.RegisterPtr(ptr, nestTypes[3].Name, func(c *NestConf) (func() (Comp, error), error) {
			nestCtor(nestTypes[3].Name, c)
			return func() (Comp, error) {
				nest.mu.Lock()
				nest.facs++
				nest.mu.Unlock()
				return nestImpl(nestTypes[3].Name, c), nil
			}, nil
		}, defPtr)
	})
}

// nLeafTypes: the flat component types of configpath_test.go usable as nested sections (gTypes[:gFirstStrict]).
const nLeafTypes = gFirstStrict

// Sect is one generated plugin section: a flat component (Nest < 0) or a nesting one.
type Sect struct {
	Nest     int      `json:"nest"` // index into nestTypes, -1 = flat component gTypes[Leaf]
	Leaf     int      `json:"leaf,omitempty"`
	Settings Settings `json:"settings"` // flat component
	SetS     bool     `json:"set_s,omitempty"`
	S        string   `json:"s,omitempty"`
	Inner    *Sect    `json:"inner,omitempty"`
	List     []Sect   `json:"list,omitempty"`
	Make     *Sect    `json:"make,omitempty"`
	Makes    []Sect   `json:"makes,omitempty"`
	SubInner *Sect    `json:"sub_inner,omitempty"`
	YAMLKeys bool     `json:"yaml_keys,omitempty"` // rendered as map[interface{}]interface{}
	TypeKey  string   `json:"type_key"`
	// Bad (flat component sections in a component position right under the top section only):
	// "" | unknown_key | no_type | ctor_fail
	Bad string `json:"bad,omitempty"`
}

type NestedCase struct {
	Top    Sect   `json:"top"`
	Field  string `json:"field"`  // component | factory_err | factory_noerr : type of the field the top section is decoded into
	Rounds int    `json:"rounds"` // products of the decoded factory / decodes of the same section into a component field
	Calls  int    `json:"calls"`  // calls of every nested factory of every product
}

func genLeafSect(t *rapid.T, label string) Sect {
	s := Sect{Nest: -1, Leaf: rapid.IntRange(0, nLeafTypes-1).Draw(t, label+".leaf")}
	if gTypes[s.Leaf].HasConf {
		s.Settings = genSettings(t, label+".settings")
	}
	s.YAMLKeys = oneIn(t, 3, label+".yamlKeys")
	s.TypeKey = rapid.SampledFrom([]string{"type", "type", "type", "Type", "TYPE"}).Draw(t, label+".typeKey")
	return s
}

func genNestSect(t *rapid.T, label string, depth int) Sect {
	s := Sect{Nest: rapid.IntRange(0, len(nestTypes)-1).Draw(t, label+".nest")}
	if s.SetS = rapid.Bool().Draw(t, label+".setS"); s.SetS {
		s.S = word.Draw(t, label+".s") + "!"
	}
	s.YAMLKeys = oneIn(t, 3, label+".yamlKeys")
	s.TypeKey = rapid.SampledFrom([]string{"type", "type", "type", "Type", "TYPE"}).Draw(t, label+".typeKey")
	child := func(l string) Sect {
		if depth > 0 && oneIn(t, 3, l+".nests") {
			return genNestSect(t, l, depth-1)
		}
		return genLeafSect(t, l)
	}
	if rapid.Bool().Draw(t, label+".hasInner") {
		c := child(label + ".inner")
		s.Inner = &c
	}
	nl := rapid.SampledFrom([]int{0, 0, 1, 2, 3}).Draw(t, label+".nList")
	for i := 0; i < nl; i++ {
		s.List = append(s.List, child(fmt.Sprintf("%s.list%d", label, i)))
	}
	if oneIn(t, 3, label+".hasMake") {
		c := child(label + ".make")
		s.Make = &c
	}
	nm := rapid.SampledFrom([]int{0, 0, 0, 1, 2}).Draw(t, label+".nMakes")
	for i := 0; i < nm; i++ {
		s.Makes = append(s.Makes, child(fmt.Sprintf("%s.makes%d", label, i)))
	}
	if oneIn(t, 3, label+".hasSubInner") {
		c := child(label + ".sub")
		s.SubInner = &c
	}
	if s.Inner == nil && len(s.List) == 0 && s.SubInner == nil && depth > 0 {
		// the top section always nests at least one component section
		c := child(label + ".innerForced")
		s.Inner = &c
	}
	return s
}

// componentChildren lists the sections in component positions (interface-typed fields) of a nesting section.
func (s *Sect) componentChildren() []*Sect {
	var out []*Sect
	if s.Inner != nil {
		out = append(out, s.Inner)
	}
	for i := range s.List {
		out = append(out, &s.List[i])
	}
	if s.SubInner != nil {
		out = append(out, s.SubInner)
	}
	return out
}

func genNestedCase(t *rapid.T) NestedCase {
	c := NestedCase{Top: genNestSect(t, "top", 1)}
	c.Field = rapid.SampledFrom([]string{"component", "factory_err", "factory_err", "factory_noerr", "factory_noerr"}).Draw(t, "field")
	c.Rounds = rapid.SampledFrom([]int{1, 2, 2, 3, 3, 4}).Draw(t, "rounds")
	c.Calls = rapid.IntRange(1, 2).Draw(t, "calls")
	if oneIn(t, 7, "bad") {
		var flat []*Sect
		for _, ch := range c.Top.componentChildren() {
			if ch.Nest < 0 {
				flat = append(flat, ch)
			}
		}
		if len(flat) > 0 {
			ch := flat[rapid.IntRange(0, len(flat)-1).Draw(t, "badAt")]
			bads := []string{"unknown_key", "no_type"}
			if gTypes[ch.Leaf].CtorErr {
				bads = append(bads, "ctor_fail", "ctor_fail")
			}
			ch.Bad = rapid.SampledFrom(bads).Draw(t, "badKind")
		}
	}
	return c
}

// data renders the section (a fresh value on every call).
func (s *Sect) data() any {
	m := map[string]any{}
	if s.Nest < 0 {
		ty := gTypes[s.Leaf]
		m[s.TypeKey] = ty.Name
		set := s.Settings
		if set.SetS {
			m["s"] = set.S
		}
		if set.SetN {
			m["n"] = set.N
		}
		if set.SetL {
			l := make([]any, 0, len(set.L))
			for _, x := range set.L {
				l = append(l, x)
			}
			m["l"] = l
		}
		if set.SetM {
			mm := map[string]any{}
			for k, v := range set.M {
				mm[k] = v
			}
			m["m"] = mm
		}
		switch s.Bad {
		case "unknown_key":
			m["no_such_setting"] = 1
		case "no_type":
			delete(m, s.TypeKey)
		case "ctor_fail":
			m["s"] = gFailCtor
		}
	} else {
		m[s.TypeKey] = nestTypes[s.Nest].Name
		if s.SetS {
			m["s"] = s.S
		}
		if s.Inner != nil {
			m["inner"] = s.Inner.data()
		}
		if len(s.List) > 0 {
			var l []any
			for i := range s.List {
				l = append(l, s.List[i].data())
			}
			m["list"] = l
		}
		if s.Make != nil {
			m["make"] = s.Make.data()
		}
		if len(s.Makes) > 0 {
			var l []any
			for i := range s.Makes {
				l = append(l, s.Makes[i].data())
			}
			m["makes"] = l
		}
		if s.SubInner != nil {
			m["sub"] = map[string]any{"inner": s.SubInner.data()}
		}
	}
	if !s.YAMLKeys {
		return m
	}
	y := map[any]any{}
	for k, v := range m {
		y[k] = v
	}
	return y
}

// copyData is a deep copy of a settings value (maps with string or untyped keys, lists, scalars).
func copyData(v any) any {
	switch x := v.(type) {
	case map[string]any:
		out := make(map[string]any, len(x))
		for k, e := range x {
			out[k] = copyData(e)
		}
		return out
	case map[any]any:
		out := make(map[any]any, len(x))
		for k, e := range x {
			out[k] = copyData(e)
		}
		return out
	case []any:
		out := make([]any, len(x))
		for i, e := range x {
			out[i] = copyData(e)
		}
		return out
	}
	return v
}

// diffData describes the first difference between the settings as they are now and as the caller wrote them.
func diffData(path string, now, was any) string {
	keysOf := func(v reflect.Value) map[string]reflect.Value {
		out := map[string]reflect.Value{}
		for _, k := range v.MapKeys() {
			out[fmt.Sprint(k.Interface())] = k
		}
		return out
	}
	switch w := was.(type) {
	case map[string]any, map[any]any:
		if reflect.TypeOf(now) != reflect.TypeOf(was) {
			return fmt.Sprintf("%s is a %T now, was a %T", path, now, was)
		}
		nv, wv := reflect.ValueOf(now), reflect.ValueOf(was)
		nk, wk := keysOf(nv), keysOf(wv)
		var names []string
		for k := range wk {
			names = append(names, k)
		}
		sort.Strings(names)
		for _, k := range names {
			if _, ok := nk[k]; !ok {
				return fmt.Sprintf("%s lost its key %q (was %v)", path, k, wv.MapIndex(wk[k]).Interface())
			}
		}
		for k := range nk {
			if _, ok := wk[k]; !ok {
				return fmt.Sprintf("%s gained the key %q = %v", path, k, nv.MapIndex(nk[k]).Interface())
			}
		}
		for _, k := range names {
			if d := diffData(path+"."+k, nv.MapIndex(nk[k]).Interface(), wv.MapIndex(wk[k]).Interface()); d != "" {
				return d
			}
		}
		return ""
	case []any:
		n, ok := now.([]any)
		if !ok || len(n) != len(w) {
			return fmt.Sprintf("%s is %v now, was %v", path, now, was)
		}
		for i := range w {
			if d := diffData(fmt.Sprintf("%s[%d]", path, i), n[i], w[i]); d != "" {
				return d
			}
		}
		return ""
	}
	if !reflect.DeepEqual(now, was) {
		return fmt.Sprintf("%s is %#v now, was %#v", path, now, was)
	}
	return ""
}

func (s *Sect) expectedLeaf() Conf {
	exp := Conf{}
	if gTypes[s.Leaf].HasDefault {
		exp = gDefault.clone()
	}
	s.Settings.apply(&exp)
	return exp
}

func (s *Sect) kind() string {
	if s.Nest < 0 {
		return gTypes[s.Leaf].Kind
	}
	return nestTypes[s.Nest].Kind
}

func (s *Sect) typeName() string {
	if s.Nest < 0 {
		return gTypes[s.Leaf].Name
	}
	return nestTypes[s.Nest].Name
}

// nestWalk checks components against the sections they were made from.
type nestWalk struct {
	calls int
	stats struct {
		nestedFactoryCalls, componentSections, nestedNest int
	}
}

// owned collects the objects a product owns through component positions: the product, its config object and,
// recursively, its nested components. Products built from separately decoded configurations share none of them.
func owned(v Comp, into map[any]string, path string) string {
	add := func(p any, what string) string {
		if prev, ok := into[p]; ok {
			return fmt.Sprintf("%s is the very object that is also %s", what, prev)
		}
		into[p] = what
		return ""
	}
	switch p := v.(type) {
	case *Impl:
		if d := add(p, path); d != "" {
			return d
		}
		if p.conf != nil {
			return add(p.conf, "the config of "+path)
		}
	case *NestImpl:
		if d := add(p, path); d != "" {
			return d
		}
		if p.conf == nil {
			return ""
		}
		// (the config object of a nesting component is shared by the products of a FACTORY constructor, by design)
		if p.conf.Inner != nil {
			if d := owned(p.conf.Inner, into, path+".inner"); d != "" {
				return d
			}
		}
		for i, e := range p.conf.List {
			if e != nil {
				if d := owned(e, into, fmt.Sprintf("%s.list[%d]", path, i)); d != "" {
					return d
				}
			}
		}
		if p.conf.Sub.Inner != nil {
			if d := owned(p.conf.Sub.Inner, into, path+".sub.inner"); d != "" {
				return d
			}
		}
	}
	return ""
}

// products checks a series of components made from ONE section by one factory (or by repeated decoding): each is
// configured as the section says; when every product is decoded separately (component constructors, repeated
// decoding) no two of them share an object.
func (w *nestWalk) products(path string, vs []Comp, s *Sect, separate bool) error {
	all := map[any]string{}
	tops := map[any]string{}
	for i, v := range vs {
		pp := fmt.Sprintf("%s#%d", path, i)
		if err := w.comp(pp, v, s); err != nil {
			return err
		}
		if prev, ok := tops[v]; ok {
			return fmt.Errorf("%s is the same object as %s", pp, prev)
		}
		tops[v] = pp
		if separate {
			if d := owned(v, all, pp); d != "" {
				return fmt.Errorf("products must not share configuration state, but %s", d)
			}
		}
	}
	return nil
}

// comp checks one component (and everything nested in it) against its section.
func (w *nestWalk) comp(path string, v Comp, s *Sect) error {
	if s.Nest < 0 {
		ty := gTypes[s.Leaf]
		p, ok := v.(*Impl)
		if !ok || p == nil {
			return fmt.Errorf("%s: got %T, expected the component registered as %q", path, v, ty.Name)
		}
		if p.owner != ty.Name {
			return fmt.Errorf("%s: got a component built by %q, the section asks for %q", path, p.owner, ty.Name)
		}
		if ty.HasConf {
			exp := s.expectedLeaf()
			if p.conf == nil || !confEqual(*p.conf, exp) {
				return fmt.Errorf("%s: component configured with %v, expected registered default overlaid by its section = %v", path, p.conf, exp)
			}
		}
		return nil
	}
	ty := nestTypes[s.Nest]
	p, ok := v.(*NestImpl)
	if !ok || p == nil {
		return fmt.Errorf("%s: got %T, expected the component registered as %q", path, v, ty.Name)
	}
	if p.owner != ty.Name {
		return fmt.Errorf("%s: got a component built by %q, the section asks for %q", path, p.owner, ty.Name)
	}
	if p.conf == nil {
		return fmt.Errorf("%s: constructor received no config", path)
	}
	wantS := ""
	if ty.HasDefault {
		wantS = nestDefaultS
	}
	if s.SetS {
		wantS = s.S
	}
	if p.conf.S != wantS {
		return fmt.Errorf("%s: s = %q, expected registered default overlaid by the section = %q", path, p.conf.S, wantS)
	}
	one := func(name string, got Comp, sec *Sect) error {
		if sec == nil {
			if got != nil {
				return fmt.Errorf("%s.%s: a component (%T) although the section has no `%s`", path, name, got, name)
			}
			return nil
		}
		if got == nil {
			return fmt.Errorf("%s.%s: nil although the section holds a component section there", path, name)
		}
		w.stats.componentSections++
		if sec.Nest >= 0 {
			w.stats.nestedNest++
		}
		return w.comp(path+"."+name, got, sec)
	}
	if err := one("inner", p.conf.Inner, s.Inner); err != nil {
		return err
	}
	if len(p.conf.List) != len(s.List) {
		return fmt.Errorf("%s.list: %d components, the section lists %d", path, len(p.conf.List), len(s.List))
	}
	for i := range s.List {
		if err := one(fmt.Sprintf("list[%d]", i), p.conf.List[i], &s.List[i]); err != nil {
			return err
		}
	}
	if err := one("sub.inner", p.conf.Sub.Inner, s.SubInner); err != nil {
		return err
	}
	// nested factories: called w.calls times each
	callAll := func(name string, sec *Sect, call func() outcome) error {
		var vs []Comp
		for k := 0; k < w.calls; k++ {
			o := call()
			if o.panicked {
				return fmt.Errorf("%s.%s: call #%d of the nested factory panicked: %v\n%s", path, name, k, o.panicVal, o.stack)
			}
			if o.err != nil {
				return fmt.Errorf("%s.%s: call #%d of the nested factory failed although its section is valid: %v", path, name, k, o.err)
			}
			c, _ := o.val.(Comp)
			if c == nil {
				return fmt.Errorf("%s.%s: call #%d of the nested factory returned %T", path, name, k, o.val)
			}
			vs = append(vs, c)
			w.stats.nestedFactoryCalls++
		}
		return w.products(path+"."+name+"()", vs, sec, sec.kind() == "component")
	}
	if (p.conf.Make != nil) != (s.Make != nil) {
		return fmt.Errorf("%s.make: factory present = %v, section present = %v", path, p.conf.Make != nil, s.Make != nil)
	}
	if s.Make != nil {
		f := p.conf.Make
		if err := callAll("make", s.Make, func() outcome {
			return guarded(func() (any, error) {
				v, err := f()
				return v, err
			})
		}); err != nil {
			return err
		}
	}
	if len(p.conf.Makes) != len(s.Makes) {
		return fmt.Errorf("%s.makes: %d factories, the section lists %d", path, len(p.conf.Makes), len(s.Makes))
	}
	for i := range s.Makes {
		f := p.conf.Makes[i]
		if f == nil {
			return fmt.Errorf("%s.makes[%d]: nil factory", path, i)
		}
		if err := callAll(fmt.Sprintf("makes[%d]", i), &s.Makes[i], func() outcome {
			return guarded(func() (any, error) { return f(), nil })
		}); err != nil {
			return err
		}
	}
	return nil
}

var errNestNoType = errors.New("plugin type expected")

func checkNested(c NestedCase, o *vf.Obs) error {
	nestRegister()
	if c.Top.Nest < 0 || c.Top.Nest >= len(nestTypes) || c.Rounds < 1 || c.Calls < 1 {
		return fmt.Errorf("harness: malformed case %+v", c)
	}
	gReset()
	nestReset()
	top := &c.Top
	ty := nestTypes[top.Nest]
	bad := ""
	for _, ch := range top.componentChildren() {
		if ch.Bad != "" {
			bad = ch.Bad
		}
	}
	var wantErr string
	switch bad {
	case "unknown_key":
		wantErr = "no_such_setting"
	case "no_type":
		wantErr = errNestNoType.Error()
	case "ctor_fail":
		wantErr = errGCtor.Error()
	}
	input := map[string]any{"p": top.data()}
	before := copyData(input)
	unchanged := func(after string) error {
		if d := diffData("settings", input, before); d != "" {
			return fmt.Errorf("%s the caller's settings are no longer what the caller wrote (they are decoded again for the next product): %s\nnow: %v\nwas: %v", after, d, input, before)
		}
		return nil
	}
	// failed: a planned failure must reach the caller carrying its cause
	failed := func(what string, oc outcome, viaPanic bool) error {
		var err error
		switch {
		case oc.panicked && !viaPanic:
			return fmt.Errorf("%s panicked: %v\n%s", what, oc.panicVal, oc.stack)
		case oc.panicked:
			pe, ok := oc.panicVal.(error)
			if !ok {
				return fmt.Errorf("%s panicked with %#v, expected a panic carrying the error", what, oc.panicVal)
			}
			err = pe
		default:
			err = oc.err
		}
		if err == nil {
			return fmt.Errorf("%s succeeded (%v) although a nested section is bad (%s): error lost", what, oc.val, bad)
		}
		if !strings.Contains(err.Error(), wantErr) {
			return fmt.Errorf("%s failed with %q, expected it to carry %q", what, err, wantErr)
		}
		return nil
	}
	good := func(what string, oc outcome) error {
		if oc.panicked {
			return fmt.Errorf("%s panicked: %v\n%s", what, oc.panicVal, oc.stack)
		}
		if oc.err != nil {
			return fmt.Errorf("%s failed although every section is valid: %v", what, oc.err)
		}
		return nil
	}
	w := &nestWalk{calls: c.Calls}
	var made []Comp
	separate := true
	atDecode, atProduct := false, false
	if c.Field == "component" {
		// the same section decoded Rounds times, for Rounds components
		for i := 0; i < c.Rounds; i++ {
			what := fmt.Sprintf("decode #%d of the section into a component field", i)
			var dst struct {
				P Comp `config:"p"`
			}
			oc := guarded(func() (any, error) { return nil, pand.Decode(input, &dst) })
			if bad != "" {
				if err := failed(what, oc, false); err != nil {
					return err
				}
				atDecode = true
			} else {
				if err := good(what, oc); err != nil {
					return err
				}
				if dst.P == nil {
					return fmt.Errorf("%s left the field nil", what)
				}
				made = append(made, dst.P)
				if err := w.products("component", made[len(made)-1:], top, true); err != nil {
					return fmt.Errorf("%s: %w", what, err)
				}
			}
			if err := unchanged("after " + what); err != nil {
				return err
			}
		}
	} else {
		viaPanic := c.Field == "factory_noerr"
		var call func() outcome
		var oc outcome
		if viaPanic {
			var dst struct {
				P func() Comp `config:"p"`
			}
			oc = guarded(func() (any, error) { return nil, pand.Decode(input, &dst) })
			call = func() outcome { return guarded(func() (any, error) { return dst.P(), nil }) }
			if oc.err == nil && !oc.panicked && dst.P == nil {
				return fmt.Errorf("Decode succeeded but left the factory field nil")
			}
		} else {
			var dst struct {
				P func() (Comp, error) `config:"p"`
			}
			oc = guarded(func() (any, error) { return nil, pand.Decode(input, &dst) })
			call = func() outcome {
				return guarded(func() (any, error) {
					v, err := dst.P()
					return v, err
				})
			}
			if oc.err == nil && !oc.panicked && dst.P == nil {
				return fmt.Errorf("Decode succeeded but left the factory field nil")
			}
		}
		separate = ty.Kind == "component"
		decodeFails := bad != "" && ty.Kind == "factory" // a factory constructor's configuration is decoded when the factory is made
		if decodeFails {
			if err := failed("Decode into a factory field", oc, false); err != nil {
				return err
			}
			atDecode = true
		} else if err := good("Decode into a factory field", oc); err != nil {
			return err
		}
		if err := unchanged("after Decode into a factory field"); err != nil {
			return err
		}
		for i := 0; i < c.Rounds && !decodeFails; i++ {
			what := fmt.Sprintf("product #%d of the decoded factory", i)
			po := call()
			if bad != "" {
				if err := failed(what, po, viaPanic); err != nil {
					return err
				}
				atProduct = true
			} else {
				if err := good(what, po); err != nil {
					return err
				}
				v, _ := po.val.(Comp)
				if v == nil {
					return fmt.Errorf("%s is %T", what, po.val)
				}
				made = append(made, v)
				if err := w.products("product", made[len(made)-1:], top, true); err != nil {
					return fmt.Errorf("%s: %w", what, err)
				}
			}
			if err := unchanged("after " + what); err != nil {
				return err
			}
		}
	}
	if bad == "" {
		// all products together: configured alike, and nothing shared when each was decoded by itself
		w2 := &nestWalk{calls: 1}
		if err := w2.products("product", made, top, separate); err != nil {
			return err
		}
		if err := unchanged("after the nested factories of all products were called once more"); err != nil {
			return err
		}
		// constructor calls of the top registration
		n := 0
		for _, cc := range nest.ctors {
			if cc.typ == ty.Name {
				n++
			}
		}
		sameTypeBelow := false
		var scan func(s *Sect)
		scan = func(s *Sect) {
			for _, ch := range append(s.componentChildren(), optional(s.Make)...) {
				sameTypeBelow = sameTypeBelow || ch.Nest == top.Nest
				if ch.Nest >= 0 {
					scan(ch)
				}
			}
			for i := range s.Makes {
				sameTypeBelow = sameTypeBelow || s.Makes[i].Nest == top.Nest
				if s.Makes[i].Nest >= 0 {
					scan(&s.Makes[i])
				}
			}
		}
		scan(top)
		if !sameTypeBelow {
			want := len(made)
			if c.Field != "component" && ty.Kind == "factory" {
				want = 1
			}
			if n != want {
				return fmt.Errorf("%d components made from the top section (%s, field %s): its constructor ran %d times, expected %d", len(made), ty.Name, c.Field, n, want)
			}
		}
	}
	// classes
	strKeyNested, yamlNested := false, false
	for _, ch := range top.componentChildren() {
		if ch.YAMLKeys {
			yamlNested = true
		} else {
			strKeyNested = true
		}
	}
	repeated := c.Rounds >= 2
	o.Class("top_" + strings.TrimPrefix(ty.Name, "c18/nest-"))
	o.Class("field_" + c.Field)
	o.ClassIf(bad != "", "nested_bad_"+bad)
	o.ClassIf(atDecode, "nested_error_at_decode")
	o.ClassIf(atProduct, "nested_error_at_every_product")
	if bad == "" {
		perProduct := c.Field == "component" || ty.Kind == "component"
		o.ClassIf(repeated && perProduct, "section_decoded_2plus_times")
		o.ClassIf(repeated && perProduct && strKeyNested, "decoded_2plus_times_nested_component_string_keys")
		o.ClassIf(repeated && perProduct && yamlNested, "decoded_2plus_times_nested_component_yaml_keys")
		o.ClassIf(repeated && c.Field != "component" && ty.Kind == "component" && strKeyNested, "component_ctor_factory_2plus_products_nested_string_keys")
		o.ClassIf(repeated && c.Field != "component" && ty.Kind == "component" && len(top.List) > 0, "component_ctor_factory_2plus_products_nested_list")
		o.ClassIf(repeated && c.Field != "component" && ty.Kind == "component" && top.SubInner != nil, "component_ctor_factory_2plus_products_nested_in_plain_struct")
		o.ClassIf(repeated && c.Field == "component" && !top.YAMLKeys, "component_field_decoded_2plus_times_string_keys")
		o.ClassIf(repeated && c.Field != "component" && ty.Kind == "factory", "factory_ctor_factory_2plus_products")
		o.ClassIf(w.stats.nestedNest > 0, "nesting_component_inside_nesting_component")
		o.ClassIf(w.stats.nestedFactoryCalls > 0, "nested_factory_called")
		o.ClassIf(w.stats.nestedFactoryCalls > 0 && c.Calls >= 2, "nested_factory_called_2plus_times")
	}
	if repeated || bad != "" {
		o.NonTrivial()
	}
	return nil
}

func optional(s *Sect) []*Sect {
	if s == nil {
		return nil
	}
	return []*Sect{s}
}

func TestNestedSections(t *testing.T) {
	r := vf.Start(t, "C18")
	vf.Check(r, genNestedCase, checkNested)
}
