package c18

import (
	"context"
	"fmt"
	"io"
	"reflect"
	"sync"
	"testing"
	"time"

	"verif/harness/internal/pand"
	"verif/harness/internal/vf"

	"github.com/yandex/pandora/core"
	"github.com/yandex/pandora/core/plugin"
	"github.com/yandex/pandora/core/register"
	"pgregory.net/rapid"
)

// TestRegisterHelpers — the registration layer plugin authors really use: the per-kind helpers of core/register
// (register.Provider, Limiter, Gun, Aggregator, DataSource, DataSink), each of which only has to pass the
// constructor AND the optional default-config function on to the registry for its component kind. For every
// helper, components of that kind (core.Provider, core.Schedule, core.Gun, core.Aggregator, core.DataSource,
// core.DataSink) are registered in six constructor shapes - four with a default-config function, two without -
// and created by name, as a component / func() (I, error) / func() I, directly (plugin.New / plugin.NewFactory
// with an overlaying fillConf) and through pandora's decoder and plugin hooks, from settings that give any
// subset of the options: every product must be configured with the registered default of ITS kind and shape
// overlaid by the settings - options that are not given keep the registered default.

type hBase struct {
	kind, name string
	conf       *Conf
}

func (b *hBase) base() *hBase { return b }

type hasBase interface{ base() *hBase }

type hProvider struct{ *hBase }

func (hProvider) Run(context.Context, core.ProviderDeps) error { return nil }
func (hProvider) Acquire() (core.Ammo, bool)                   { return nil, false }
func (hProvider) Release(core.Ammo)                            {}

type hSchedule struct{ *hBase }

func (hSchedule) Start(time.Time)         {}
func (hSchedule) Next() (time.Time, bool) { return time.Time{}, false }
func (hSchedule) Left() int               { return 0 }

type hGun struct{ *hBase }

func (hGun) Bind(core.Aggregator, core.GunDeps) error { return nil }
func (hGun) Shoot(core.Ammo)                          {}

type hAggregator struct{ *hBase }

func (hAggregator) Run(context.Context, core.AggregatorDeps) error { return nil }
func (hAggregator) Report(core.Sample)                             {}

type hSource struct{ *hBase }

func (hSource) OpenSource() (io.ReadCloser, error) { return nil, io.EOF }

type hSink struct{ *hBase }

func (hSink) OpenSink() (io.WriteCloser, error) { return nil, io.EOF }

// hShape is one way a component is registered through a helper.
type hShape struct {
	Name       string
	Factory    bool // the registered constructor returns a factory
	HasDefault bool // a default-config function is passed to the helper
}

var hShapes = []hShape{
	{Name: "component-struct-default", HasDefault: true},
	{Name: "component-ptr-default-err", HasDefault: true},
	{Name: "factory-struct-default", Factory: true, HasDefault: true},
	{Name: "factory-ptr-default-err", Factory: true, HasDefault: true},
	{Name: "component-struct-nodefault"},
	{Name: "factory-ptr-nodefault-err", Factory: true},
}

// hKind is one helper of core/register with the component kind it registers.
type hKind struct {
	Name string // name of the helper function
	Def  Conf   // what the default-config functions registered for this kind return
	// creation by name; factories are wrapped so that they deliver `any`
	newComp func(name string, fill func(any) error) (any, error)
	newFac  func(withErr bool, name string, fill func(any) error) (func() (any, error), error)
	decode  func(field string, data any) (comp any, fac func() (any, error), err error)
}

var hState struct {
	mu    sync.Mutex
	ctors int
	facs  int
}

func hName(kind, shape string) string { return "c18h/" + kind + "/" + shape }

type hHolder[I any] struct {
	C  I                 `config:"c"`
	FE func() (I, error) `config:"fe"`
	F  func() I          `config:"f"`
}

// mkKind registers the six shapes of one component kind through its helper and returns the ways to create them.
func mkKind[I any](helper string, def Conf, reg func(name string, ctor any, def ...any), wrap func(*hBase) I) *hKind {
	defStruct := func() Conf { return def.clone() }
	defPtr := func() *Conf { c := def.clone(); return &c }
	comp := func(shape string, c *Conf) I {
		hState.mu.Lock()
		hState.ctors++
		hState.mu.Unlock()
		return wrap(&hBase{kind: helper, name: hName(helper, shape), conf: c})
	}
	fac := func(shape string, c *Conf) func() (I, error) {
		hState.mu.Lock()
		hState.ctors++
		hState.mu.Unlock()
		return func() (I, error) {
			hState.mu.Lock()
			hState.facs++
			hState.mu.Unlock()
			own := c.clone() // the registered factory gives every product its own copy of the once decoded config
			return wrap(&hBase{kind: helper, name: hName(helper, shape), conf: &own}), nil
		}
	}
	s := func(i int) string { return hShapes[i].Name }
	reg(hName(helper, s(0)), func(c Conf) I { return comp(s(0), &c) }, defStruct)
	reg(hName(helper, s(1)), func(c *Conf) (I, error) { return comp(s(1), c), nil }, defPtr)
	reg(hName(helper, s(2)), func(c Conf) func() (I, error) { return fac(s(2), &c) }, defStruct)
	reg(hName(helper, s(3)), func(c *Conf) (func() I, error) {
		f := fac(s(3), c)
		return func() I { v, _ := f(); return v }, nil
	}, defPtr)
	reg(hName(helper, s(4)), func(c Conf) I { return comp(s(4), &c) })
	reg(hName(helper, s(5)), func(c *Conf) (func() (I, error), error) { return fac(s(5), c), nil })

	pluginType := reflect.TypeOf((*I)(nil)).Elem()
	facEType := reflect.TypeOf((func() (I, error))(nil))
	facType := reflect.TypeOf((func() I)(nil))
	k := &hKind{Name: helper, Def: def}
	k.newComp = func(name string, fill func(any) error) (any, error) {
		return plugin.New(pluginType, name, fill)
	}
	k.newFac = func(withErr bool, name string, fill func(any) error) (func() (any, error), error) {
		if withErr {
			f, err := plugin.NewFactory(facEType, name, fill)
			if err != nil {
				return nil, err
			}
			ff, ok := f.(func() (I, error))
			if !ok {
				return nil, fmt.Errorf("NewFactory(%s) returned %T", facEType, f)
			}
			return func() (any, error) { v, err := ff(); return v, err }, nil
		}
		f, err := plugin.NewFactory(facType, name, fill)
		if err != nil {
			return nil, err
		}
		ff, ok := f.(func() I)
		if !ok {
			return nil, fmt.Errorf("NewFactory(%s) returned %T", facType, f)
		}
		return func() (any, error) { return ff(), nil }, nil
	}
	k.decode = func(field string, data any) (any, func() (any, error), error) {
		var dst hHolder[I]
		if err := pand.Decode(map[string]any{field: data}, &dst); err != nil {
			return nil, nil, err
		}
		switch field {
		case "c":
			return dst.C, nil, nil
		case "fe":
			if dst.FE == nil {
				return nil, nil, fmt.Errorf("Decode succeeded but left the factory field nil")
			}
			return nil, func() (any, error) { v, err := dst.FE(); return v, err }, nil
		case "f":
			if dst.F == nil {
				return nil, nil, fmt.Errorf("Decode succeeded but left the factory field nil")
			}
			return nil, func() (any, error) { return dst.F(), nil }, nil
		}
		return nil, nil, fmt.Errorf("harness: no field %q", field)
	}
	return k
}

var (
	hOnce  sync.Once
	hKinds []*hKind
)

// hRegister registers everything once per process on the global registry (the one the helpers write to).
func hRegister() {
	hOnce.Do(func() {
		pand.Init()
		// every kind has its own default, so a default that ends up with another kind is visible
		hKinds = []*hKind{
			mkKind[core.Provider]("Provider", Conf{S: "provider-default", N: 11}, register.Provider, func(b *hBase) core.Provider { return hProvider{b} }),
			mkKind[core.Schedule]("Limiter", Conf{S: "limiter-default", N: 22}, register.Limiter, func(b *hBase) core.Schedule { return hSchedule{b} }),
			mkKind[core.Gun]("Gun", Conf{S: "gun-default", N: 33}, register.Gun, func(b *hBase) core.Gun { return hGun{b} }),
			mkKind[core.Aggregator]("Aggregator", Conf{S: "aggregator-default", N: 44}, register.Aggregator, func(b *hBase) core.Aggregator { return hAggregator{b} }),
			mkKind[core.DataSource]("DataSource", Conf{S: "datasource-default", N: 55}, register.DataSource, func(b *hBase) core.DataSource { return hSource{b} }),
			mkKind[core.DataSink]("DataSink", Conf{S: "datasink-default", N: 66}, register.DataSink, func(b *hBase) core.DataSink { return hSink{b} }),
		}
	})
}

const hKindCount = 6

type HelperCase struct {
	Kind     int      `json:"kind"`  // index into hKinds: Provider, Limiter, Gun, Aggregator, DataSource, DataSink
	Shape    int      `json:"shape"` // index into hShapes
	Path     string   `json:"path"`  // direct (plugin.New / NewFactory + fillConf) | decoder (config decode + plugin hooks)
	Form     string   `json:"form"`  // component | factory_err | factory_noerr
	Settings Settings `json:"settings"`
	Products int      `json:"products"`
}

func genHelperCase(t *rapid.T) HelperCase {
	c := HelperCase{}
	c.Kind = rapid.IntRange(0, hKindCount-1).Draw(t, "kind")
	// shapes with a default-config function twice as often
	c.Shape = rapid.SampledFrom([]int{0, 0, 1, 1, 2, 2, 3, 3, 4, 5}).Draw(t, "shape")
	c.Path = rapid.SampledFrom([]string{"direct", "decoder"}).Draw(t, "path")
	c.Form = rapid.SampledFrom([]string{"component", "factory_err", "factory_noerr"}).Draw(t, "form")
	c.Settings = genSettings(t, "settings")
	c.Products = rapid.IntRange(1, 3).Draw(t, "products")
	return c
}

func (c HelperCase) section(name string) map[string]any {
	m := map[string]any{"type": name}
	s := c.Settings
	if s.SetS {
		m["s"] = s.S
	}
	if s.SetN {
		m["n"] = s.N
	}
	if s.SetL {
		l := make([]any, 0, len(s.L))
		for _, x := range s.L {
			l = append(l, x)
		}
		m["l"] = l
	}
	if s.SetM {
		mm := map[string]any{}
		for k, v := range s.M {
			mm[k] = v
		}
		m["m"] = mm
	}
	return m
}

func checkHelper(c HelperCase, o *vf.Obs) error {
	hRegister()
	if c.Kind < 0 || c.Kind >= len(hKinds) || c.Shape < 0 || c.Shape >= len(hShapes) || c.Products < 1 || c.Products > 100 {
		return fmt.Errorf("harness: bad case %+v", c)
	}
	k, sh := hKinds[c.Kind], hShapes[c.Shape]
	name := hName(k.Name, sh.Name)
	exp := Conf{}
	if sh.HasDefault {
		exp = k.Def.clone()
	}
	c.Settings.apply(&exp)
	what := fmt.Sprintf("register.%s(%q, <%s constructor>%s), created %s as %s", k.Name, name, sh.Name,
		map[bool]string{true: ", <default config func returning " + k.Def.String() + ">", false: ""}[sh.HasDefault], c.Path, c.Form)

	hState.mu.Lock()
	hState.ctors, hState.facs = 0, 0
	hState.mu.Unlock()
	fill := func(arg any) error {
		p, ok := arg.(*Conf)
		if !ok || p == nil {
			return fmt.Errorf("fillConf was called with %T, expected *Conf", arg)
		}
		c.Settings.apply(p)
		return nil
	}
	var comp any
	var fac func() (any, error)
	made := guarded(func() (any, error) {
		var err error
		switch {
		case c.Path == "direct" && c.Form == "component":
			comp, err = k.newComp(name, fill)
		case c.Path == "direct":
			fac, err = k.newFac(c.Form == "factory_err", name, fill)
		case c.Path == "decoder":
			field := map[string]string{"component": "c", "factory_err": "fe", "factory_noerr": "f"}[c.Form]
			comp, fac, err = k.decode(field, c.section(name))
		default:
			err = fmt.Errorf("harness: unknown path %q", c.Path)
		}
		return nil, err
	})
	if made.panicked {
		return fmt.Errorf("%s: panicked: %v\n%s", what, made.panicVal, made.stack)
	}
	if made.err != nil {
		return fmt.Errorf("%s: failed although the settings are valid: %v", what, made.err)
	}
	checkOne := func(label string, v any) (*hBase, error) {
		hb, ok := v.(hasBase)
		if !ok || hb == nil || hb.base() == nil {
			return nil, fmt.Errorf("%s: %s is %T, expected the component registered under that name", what, label, v)
		}
		b := hb.base()
		if b.kind != k.Name || b.name != name {
			return nil, fmt.Errorf("%s: %s was built by the registration %q of helper %s", what, label, b.name, b.kind)
		}
		if b.conf == nil || !confEqual(*b.conf, exp) {
			return nil, fmt.Errorf("%s: %s is configured with %v, expected the registered default overlaid by the settings %+v = %v", what, label, b.conf, c.Settings, exp)
		}
		return b, nil
	}
	products := 1
	if c.Form == "component" {
		if _, err := checkOne("the component", comp); err != nil {
			return err
		}
	} else {
		products = c.Products
		var got []*hBase
		for i := 0; i < c.Products; i++ {
			po := guarded(fac)
			if po.panicked {
				return fmt.Errorf("%s: product #%d panicked: %v\n%s", what, i, po.panicVal, po.stack)
			}
			if po.err != nil {
				return fmt.Errorf("%s: product #%d failed: %v", what, i, po.err)
			}
			b, err := checkOne(fmt.Sprintf("product #%d", i), po.val)
			if err != nil {
				return err
			}
			for j, q := range got {
				if q == b || q.conf == b.conf {
					return fmt.Errorf("%s: products #%d and #%d are / share the same object", what, j, i)
				}
			}
			got = append(got, b)
		}
	}
	hState.mu.Lock()
	ctors, facs := hState.ctors, hState.facs
	hState.mu.Unlock()
	wantCtors, wantFacs := products, 0
	if sh.Factory {
		wantCtors, wantFacs = 1, products
	}
	if ctors != wantCtors || facs != wantFacs {
		return fmt.Errorf("%s: %d products made with %d constructor and %d registered-factory calls, expected %d and %d", what, products, ctors, facs, wantCtors, wantFacs)
	}

	set := c.Settings
	given := 0
	for _, b := range []bool{set.SetS, set.SetN, set.SetL, set.SetM} {
		if b {
			given++
		}
	}
	o.Class("helper:"+k.Name, "shape:"+sh.Name, "path:"+c.Path, "form:"+c.Form)
	if sh.HasDefault {
		o.Class("helper_with_default:" + k.Name)
		// S and N of every registered default are non-zero: an unset one must come from the default
		if !set.SetS || !set.SetN {
			o.Class("unset_option_keeps_default", "unset_option_keeps_default:"+k.Name, "unset_option_keeps_default:"+c.Path+":"+c.Form)
			o.NonTrivial()
		}
		o.ClassIf(given > 0 && given < 4, "partial_overlay_of_default")
		o.ClassIf(given == 0, "no_settings_at_all")
	} else {
		o.Class("helper_without_default:" + k.Name)
	}
	o.ClassIf(sh.Factory, "factory_constructor")
	o.ClassIf(c.Form != "component" && c.Products >= 2, "factory_with_2plus_products")
	return nil
}

func TestRegisterHelpers(t *testing.T) {
	r := vf.Start(t, "C18")
	if shard0() {
		r.Extra("register_helpers_covered", "Provider, Limiter, Gun, Aggregator, DataSource, DataSink (RegisterPtr: TestConfigPath)")
	}
	vf.Check(r, genHelperCase, checkHelper)
}
