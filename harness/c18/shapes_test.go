// C18 — plugin registry: every constructor shape yields rightly configured components.
//
// This file holds the component model used by all C18 tests: the plugin
// interface, its implementation, the config struct, the enumeration of all
// supported constructor shapes and a "world" that builds a recording
// constructor of a given shape with reflect.MakeFunc.
package c18

import (
	"fmt"
	"reflect"
	"sort"
	"strings"
)

// ---------- the component ----------

// Conf is the configuration struct of the test component.
type Conf struct {
	S string            `json:"s" config:"s"`
	N int               `json:"n" config:"n" validate:"max=1000000"`
	L []string          `json:"l" config:"l"`
	M map[string]string `json:"m" config:"m"`
}

func (c Conf) clone() Conf {
	out := Conf{S: c.S, N: c.N}
	if c.L != nil {
		out.L = append([]string{}, c.L...)
	}
	if c.M != nil {
		out.M = make(map[string]string, len(c.M))
		for k, v := range c.M {
			out.M[k] = v
		}
	}
	return out
}

// confEqual compares two configs; a nil and an empty slice / map are the same thing.
func confEqual(a, b Conf) bool {
	if a.S != b.S || a.N != b.N || len(a.L) != len(b.L) || len(a.M) != len(b.M) {
		return false
	}
	for i := range a.L {
		if a.L[i] != b.L[i] {
			return false
		}
	}
	for k, v := range a.M {
		if w, ok := b.M[k]; !ok || w != v {
			return false
		}
	}
	return true
}

func (c Conf) String() string {
	keys := make([]string, 0, len(c.M))
	for k := range c.M {
		keys = append(keys, k)
	}
	sort.Strings(keys)
	var m []string
	for _, k := range keys {
		m = append(m, k+"="+c.M[k])
	}
	return fmt.Sprintf("{S:%q N:%d L:%q M:{%s}}", c.S, c.N, c.L, strings.Join(m, ","))
}

// mutateConf changes everything reachable through a product's config in place
// (what a component that owns its config is free to do).
func mutateConf(c *Conf) {
	c.S = "MUTATED"
	c.N = -424242
	for i := range c.L {
		c.L[i] = "MUTATED"
	}
	c.L = append(c.L, "MUTATED-APPENDED")
	for k := range c.M {
		c.M[k] = "MUTATED"
	}
	if c.M != nil {
		c.M["MUTATED-KEY"] = "MUTATED"
	}
}

// Comp is the plugin interface.
type Comp interface {
	Config() *Conf
	Serial() int
}

// Wider is an interface that has Comp's methods as a subset (a legal <pluginImpl>).
type Wider interface {
	Comp
	Extra()
}

// Impl is the plugin implementation.
type Impl struct {
	conf    *Conf // nil for constructors without config
	serial  int
	owner   string // name of the world / registration that built it
	mutated bool
}

func (p *Impl) Config() *Conf { return p.conf }
func (p *Impl) Serial() int   { return p.serial }
func (p *Impl) Extra()        {}

var (
	compType     = reflect.TypeOf((*Comp)(nil)).Elem()
	widerType    = reflect.TypeOf((*Wider)(nil)).Elem()
	implPtrType  = reflect.TypeOf((*Impl)(nil))
	confType     = reflect.TypeOf(Conf{})
	confPtrType  = reflect.TypeOf((*Conf)(nil))
	errorType    = reflect.TypeOf((*error)(nil)).Elem()
	facErrType   = reflect.TypeOf((func() (Comp, error))(nil))
	facNoErrType = reflect.TypeOf((func() Comp)(nil))
	// the same two signatures as DEFINED func types (what a program that names its factory types requests)
	namedFacErrType   = reflect.TypeOf(CompFactory(nil))
	namedFacNoErrType = reflect.TypeOf(CompFactoryNoErr(nil))
)

// CompFactory and CompFactoryNoErr are defined (named) factory types: Registry.LookupFactory accepts them like the
// unnamed func() (Comp, error) / func() Comp, and a factory requested as one of them has to BE one of them.
type (
	CompFactory      func() (Comp, error)
	CompFactoryNoErr func() Comp
)

// ---------- shapes ----------

// Shape is one supported way of registering a constructor.
type Shape struct {
	Kind    string `json:"kind"`        // component | factory : what the registered constructor returns
	Conf    string `json:"conf"`        // none | struct | ptr
	CtorErr bool   `json:"ctor_err"`    // registered constructor has an error result
	FacErr  bool   `json:"factory_err"` // (factory kind) the returned factory has an error result
	Default string `json:"default"`     // none | func | nilptr (default func that returns a nil pointer; ptr config only)
	Result  string `json:"result"`      // iface | concrete | wider : static type of the created component
}

func (s Shape) String() string {
	b := func(v bool, y, n string) string {
		if v {
			return y
		}
		return n
	}
	k := "C"
	fe := ""
	if s.Kind == "factory" {
		k = "F"
		fe = "." + b(s.FacErr, "facE", "fac")
	}
	return fmt.Sprintf("%s.%s.%s%s.def-%s.%s", k, s.Conf, b(s.CtorErr, "ctorE", "ctor"), fe, s.Default, s.Result)
}

// forms are the requested forms: a component, or a factory of the unnamed / defined func type with / without error result.
var forms = []string{"new", "factory_err", "factory_noerr", "named_factory_err", "named_factory_noerr"}

const unnamedForms = 3 // forms[:unnamedForms] are what the check requested before the defined types were added

func formValid(f string) bool {
	for _, x := range forms {
		if x == f {
			return true
		}
	}
	return false
}

// formFactoryType: the factory type a form requests (nil for "new"), whether it is a defined type, and the unnamed
// func type of the same signature.
func formFactoryType(form string) (t reflect.Type, named bool, unnamed reflect.Type) {
	switch form {
	case "factory_err":
		return facErrType, false, facErrType
	case "factory_noerr":
		return facNoErrType, false, facNoErrType
	case "named_factory_err":
		return namedFacErrType, true, facErrType
	case "named_factory_noerr":
		return namedFacNoErrType, true, facNoErrType
	}
	return nil, false, nil
}

// formViaPanic: the requested factory type has no error result.
func formViaPanic(form string) bool { return form == "factory_noerr" || form == "named_factory_noerr" }

// What a failing constructor (or registered factory) returns BESIDE its error.
const (
	besideNil      = ""         // the zero value of its first result (the usual `return nil, err`)
	besideValue    = "value"    // a non-nil first result: a partially built component, a wrapper around the failed inner value
	besideTypedNil = "typednil" // interface-typed results: an interface holding a nil *Impl (`var p *Impl; return p, err`)
)

var besides = []string{besideNil, besideValue, besideTypedNil}

func besideValid(b string) bool { return b == besideNil || b == besideValue || b == besideTypedNil }

// allShapes enumerates the complete cross product of supported constructor shapes.
func allShapes() []Shape {
	var out []Shape
	for _, kind := range []string{"component", "factory"} {
		for _, conf := range []string{"none", "struct", "ptr"} {
			defaults := []string{"none"}
			switch conf {
			case "struct":
				defaults = []string{"none", "func"}
			case "ptr":
				defaults = []string{"none", "func", "nilptr"}
			}
			for _, def := range defaults {
				for _, ctorErr := range []bool{false, true} {
					facErrs := []bool{false}
					if kind == "factory" {
						facErrs = []bool{false, true}
					}
					for _, facErr := range facErrs {
						for _, res := range []string{"iface", "concrete", "wider"} {
							out = append(out, Shape{Kind: kind, Conf: conf, CtorErr: ctorErr, FacErr: facErr, Default: def, Result: res})
						}
					}
				}
			}
		}
	}
	return out
}

func (s Shape) valid() bool {
	for _, x := range allShapes() {
		if x == s {
			return true
		}
	}
	return false
}

func (s Shape) hasConf() bool { return s.Conf != "none" }

func (s Shape) resultType() reflect.Type {
	switch s.Result {
	case "concrete":
		return implPtrType
	case "wider":
		return widerType
	}
	return compType
}

func (s Shape) confArgs() []reflect.Type {
	switch s.Conf {
	case "struct":
		return []reflect.Type{confType}
	case "ptr":
		return []reflect.Type{confPtrType}
	}
	return nil
}

// productFuncType is the type of the factory a factory-kind constructor returns.
func (s Shape) productFuncType() reflect.Type {
	out := []reflect.Type{s.resultType()}
	if s.FacErr {
		out = append(out, errorType)
	}
	return reflect.FuncOf(nil, out, false)
}

func (s Shape) ctorType() reflect.Type {
	first := s.resultType()
	if s.Kind == "factory" {
		first = s.productFuncType()
	}
	out := []reflect.Type{first}
	if s.CtorErr {
		out = append(out, errorType)
	}
	return reflect.FuncOf(s.confArgs(), out, false)
}

// ---------- recording world around one registration ----------

type injErr struct {
	stage string
	id    int
	owner string
}

func (e *injErr) Error() string {
	return fmt.Sprintf("injected %s error #%d of %s", e.stage, e.id, e.owner)
}

type fillRec struct {
	arg any
	ptr *Conf // the config handed to fillConf (config shapes)
	pre Conf  // its content on entry
	err *injErr
}

type ctorRec struct {
	ptr    *Conf // live config the constructor keeps (its own copy for struct configs)
	snap   Conf  // content at call time
	err    *injErr
	beside string // what was really returned beside err: besideNil | besideValue | besideTypedNil
}

type facRec struct {
	impl   *Impl
	err    *injErr
	beside string
}

// Settings are the user's settings, overlaid on the default config by fillConf.
type Settings struct {
	SetS bool              `json:"set_s"`
	S    string            `json:"s"`
	SetN bool              `json:"set_n"`
	N    int               `json:"n"`
	SetL bool              `json:"set_l"`
	L    []string          `json:"l"`
	SetM bool              `json:"set_m"`
	M    map[string]string `json:"m"`
}

func (s Settings) apply(c *Conf) {
	if s.SetS {
		c.S = s.S
	}
	if s.SetN {
		c.N = s.N
	}
	if s.SetL {
		c.L = append([]string{}, s.L...)
	}
	if s.SetM {
		c.M = make(map[string]string, len(s.M))
		for k, v := range s.M {
			c.M[k] = v
		}
	}
}

type world struct {
	shape Shape
	name  string
	def   Conf // what the registered default config func returns (zero without one)

	defCalls int
	defPtrs  []*Conf
	fills    []*fillRec
	ctors    []*ctorRec
	facs     []*facRec
	impls    []*Impl
	errSeq   int
	problems []string

	// plan for the invocations of the step being executed
	failFill, failCtor, failFac bool
	beside                      string // what a failing constructor / registered factory returns beside its error
}

func newWorld(s Shape, name string, def Conf) *world {
	w := &world{shape: s, name: name}
	if s.Default == "func" {
		w.def = def.clone()
		w.def.S += "@" + name // every registration has its own default: cross-talk between names is visible
	}
	return w
}

func (w *world) problem(format string, a ...any) {
	w.problems = append(w.problems, fmt.Sprintf(format, a...))
}

func (w *world) newErr(stage string) *injErr {
	w.errSeq++
	return &injErr{stage: stage, id: w.errSeq, owner: w.name}
}

// defaultArgs returns what is passed to Register after the constructor.
func (w *world) defaultArgs() []any {
	switch {
	case w.shape.Default == "func" && w.shape.Conf == "struct":
		return []any{func() Conf {
			w.defCalls++
			return w.def.clone()
		}}
	case w.shape.Default == "func" && w.shape.Conf == "ptr":
		return []any{func() *Conf {
			w.defCalls++
			c := w.def.clone()
			w.defPtrs = append(w.defPtrs, &c)
			return &c
		}}
	case w.shape.Default == "nilptr":
		return []any{func() *Conf {
			w.defCalls++
			return nil
		}}
	}
	return nil
}

func typed(t reflect.Type, v any) reflect.Value {
	out := reflect.New(t).Elem()
	if v != nil {
		out.Set(reflect.ValueOf(v))
	}
	return out
}

func errValue(e *injErr) reflect.Value {
	if e == nil {
		return reflect.Zero(errorType)
	}
	return typed(errorType, e)
}

// besideComponent is the first result of a failing component constructor / registered factory.
func (w *world) besideComponent(resT reflect.Type, conf *Conf) (reflect.Value, string) {
	switch w.beside {
	case besideValue:
		// not one of w.impls: nobody may ever be handed this as the created component
		return typed(resT, &Impl{conf: conf, serial: -1, owner: w.name + " (returned beside an error)"}), besideValue
	case besideTypedNil:
		if resT.Kind() == reflect.Interface {
			return typed(resT, (*Impl)(nil)), besideTypedNil
		}
	}
	return reflect.Zero(resT), besideNil
}

func (w *world) newImpl(conf *Conf) *Impl {
	p := &Impl{conf: conf, serial: len(w.impls), owner: w.name}
	w.impls = append(w.impls, p)
	return p
}

// constructor builds the registered constructor of the world's shape.
func (w *world) constructor() any {
	s := w.shape
	resT := s.resultType()
	return reflect.MakeFunc(s.ctorType(), func(in []reflect.Value) []reflect.Value {
		rec := &ctorRec{}
		w.ctors = append(w.ctors, rec)
		switch s.Conf {
		case "struct":
			c := in[0].Interface().(Conf)
			rec.ptr = &c
		case "ptr":
			rec.ptr = in[0].Interface().(*Conf)
			if rec.ptr == nil {
				w.problem("the registered constructor received a nil config pointer")
			}
		}
		if rec.ptr != nil {
			rec.snap = rec.ptr.clone()
		}
		if w.failCtor && s.CtorErr {
			rec.err = w.newErr("constructor")
		}
		// the factory a factory constructor returns
		productFactory := func(conf *Conf) reflect.Value {
			return reflect.MakeFunc(s.productFuncType(), func([]reflect.Value) []reflect.Value {
				fr := &facRec{}
				w.facs = append(w.facs, fr)
				if w.failFac && s.FacErr {
					fr.err = w.newErr("factory")
				}
				var prod reflect.Value
				if fr.err != nil {
					prod, fr.beside = w.besideComponent(resT, conf)
				} else {
					// the registered factory gives every product its own copy of the (once decoded) config
					var own *Conf
					if conf != nil {
						c := conf.clone()
						own = &c
					}
					fr.impl = w.newImpl(own)
					prod = typed(resT, fr.impl)
				}
				if s.FacErr {
					return []reflect.Value{prod, errValue(fr.err)}
				}
				return []reflect.Value{prod}
			})
		}
		var first reflect.Value
		switch {
		case s.Kind == "component" && rec.err != nil:
			first, rec.beside = w.besideComponent(resT, rec.ptr)
		case s.Kind == "component":
			first = typed(resT, w.newImpl(rec.ptr))
		case rec.err != nil && w.beside == besideValue:
			// a working factory returned together with the error: calling it counts as a registered-factory call
			first, rec.beside = productFactory(rec.ptr), besideValue
		case rec.err != nil:
			first = reflect.Zero(s.productFuncType()) // (a func has no typed nil)
		default:
			first = productFactory(rec.ptr)
		}
		if s.CtorErr {
			return []reflect.Value{first, errValue(rec.err)}
		}
		return []reflect.Value{first}
	}).Interface()
}

// fillConf builds the callback that overlays the settings on the config it is given.
func (w *world) fillConf(set Settings) func(any) error {
	return func(arg any) error {
		rec := &fillRec{arg: arg}
		w.fills = append(w.fills, rec)
		v := reflect.ValueOf(arg)
		if !v.IsValid() || v.Kind() != reflect.Ptr || v.IsNil() || v.Elem().Kind() != reflect.Struct {
			w.problem("fillConf was called with %T, not with a valid struct pointer", arg)
		} else if w.shape.hasConf() {
			p, ok := arg.(*Conf)
			if !ok {
				w.problem("fillConf was called with %T, the constructor's config type is Conf", arg)
			} else {
				rec.ptr = p
				rec.pre = p.clone()
			}
		}
		if w.failFill {
			rec.err = w.newErr("fillConf")
			return rec.err
		}
		if rec.ptr != nil {
			set.apply(rec.ptr)
		}
		return nil
	}
}

type marks struct{ def, fill, ctor, fac, impl int }

func (w *world) mark() marks {
	return marks{w.defCalls, len(w.fills), len(w.ctors), len(w.facs), len(w.impls)}
}
