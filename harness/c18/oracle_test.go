package c18

import (
	"errors"
	"fmt"
	"reflect"
	"runtime/debug"

	"github.com/yandex/pandora/core/plugin"
)

// ProductPlan plans one creation (a New call, or one call of a created factory).
type ProductPlan struct {
	FillFail bool `json:"fill_fail"` // fillConf fails for this creation (where fillConf runs per creation)
	CtorFail bool `json:"ctor_fail"` // the registered constructor fails (shapes with an error result)
	FacFail  bool `json:"fac_fail"`  // the registered factory fails (factory shapes with an error result)
	Mutate   bool `json:"mutate"`    // afterwards the product scribbles all over its config
	// Beside: what the failing constructor / registered factory returns together with its error:
	// "" = nil | value = a non-nil first result | typednil = an interface holding a nil pointer
	Beside string `json:"beside,omitempty"`
}

// Session is one NewFactory call followed by calls of the factory; in the
// "new" form every product is one New call with the session's settings.
type Session struct {
	Settings      Settings      `json:"settings"`
	NoFill        bool          `json:"no_fill"`                // no fillConf callback is passed at all
	SetupFillFail bool          `json:"setup_fill_fail"`        // fillConf fails where it runs once per factory
	SetupCtorFail bool          `json:"setup_ctor_fail"`        // the factory constructor fails at NewFactory
	SetupBeside   string        `json:"setup_beside,omitempty"` // what it returns beside the error: "" | value (a working factory)
	Products      []ProductPlan `json:"products"`
}

type Script struct {
	Default  Conf      `json:"default"`
	Sessions []Session `json:"sessions"`
}

// validate rejects what the generator cannot produce (replay files may carry anything).
func (sc Script) validate() error {
	for si, se := range sc.Sessions {
		if se.SetupBeside != besideNil && se.SetupBeside != besideValue {
			return fmt.Errorf("harness: session %d: unknown setup_beside %q", si, se.SetupBeside)
		}
		for pi, p := range se.Products {
			if !besideValid(p.Beside) {
				return fmt.Errorf("harness: session %d product %d: unknown beside %q", si, pi, p.Beside)
			}
		}
	}
	return nil
}

// stats counts what was really exercised (for the class histogram).
type stats struct {
	products, sessions                    int
	multiProductFactories                 int
	errResult, errPanic                   int
	fillErr, ctorErr, facErr, setupErr    int
	mutations, independenceChecks         int
	sameTypeNoWrap, newCalls, factoryMade int
	// errors that came together with a non-nil first result, by the requested form that had to deliver them
	besideValueNew, besideValueFactory       int
	besideTypedNilNew, besideTypedNilFactory int
	besideFactoryAtSetup                     int // a factory constructor returned a working factory AND an error
	namedFactoryMade, namedSameSignature     int // factories of a defined func type; ... whose signature the registered func has
}

type outcome struct {
	val      any
	err      error
	panicked bool
	panicVal any
	stack    string
}

func guarded(f func() (any, error)) (o outcome) {
	defer func() {
		if p := recover(); p != nil {
			o.panicked, o.panicVal, o.stack = true, p, string(debug.Stack())
		}
	}()
	o.val, o.err = f()
	return
}

// expectOutcome checks how the result of a creation reached the caller.
// viaPanic: the requested factory type has no error result.
func expectOutcome(what string, o outcome, want *injErr, viaPanic bool, st *stats) error {
	if want == nil {
		if o.panicked {
			return fmt.Errorf("%s panicked although nothing failed: %v\n%s", what, o.panicVal, o.stack)
		}
		if o.err != nil {
			return fmt.Errorf("%s returned error %q although nothing failed", what, o.err)
		}
		return nil
	}
	if viaPanic {
		if !o.panicked {
			return fmt.Errorf("%s: %q was lost: the requested factory type has no error result, so it must arrive as a panic, but the call returned normally (%v)", what, want, o.val)
		}
		pe, ok := o.panicVal.(error)
		if !ok || !errors.Is(pe, want) {
			return fmt.Errorf("%s panicked with %#v, expected a panic carrying the error %q", what, o.panicVal, want)
		}
		st.errPanic++
		return nil
	}
	if o.panicked {
		return fmt.Errorf("%s panicked (%v) although an error result is available; expected error %q\n%s", what, o.panicVal, want, o.stack)
	}
	if o.err == nil {
		return fmt.Errorf("%s: %q was lost: the call returned a nil error (value %v)", what, want, o.val)
	}
	if !errors.Is(o.err, want) {
		return fmt.Errorf("%s returned error %q, expected %q", what, o.err, want)
	}
	st.errResult++
	return nil
}

type runner struct {
	reg  *plugin.Registry
	w    *world
	form string
	st   *stats
}

// noteBeside records that an error which came together with a non-nil first result had to be delivered.
func (r *runner) noteBeside(beside string) {
	switch {
	case beside == besideValue && r.form == "new":
		r.st.besideValueNew++
	case beside == besideValue:
		r.st.besideValueFactory++
	case beside == besideTypedNil && r.form == "new":
		r.st.besideTypedNilNew++
	case beside == besideTypedNil:
		r.st.besideTypedNilFactory++
	}
}

func (r *runner) flush() error {
	if len(r.w.problems) > 0 {
		p := r.w.problems[0]
		r.w.problems = nil
		return errors.New(p)
	}
	return nil
}

// checkFill verifies the fillConf invocations since `from` for a creation that decodes a config.
// want: exact number of calls expected (-1: at least one).
func (r *runner) checkFill(what string, from marks, want int) error {
	w := r.w
	got := len(w.fills) - from.fill
	if want >= 0 && got != want {
		return fmt.Errorf("%s: fillConf ran %d times, expected %d", what, got, want)
	}
	if want < 0 && got < 1 {
		return fmt.Errorf("%s: fillConf was not called", what)
	}
	newDefs := w.defCalls - from.def
	if w.shape.hasConf() && w.shape.Default != "none" && got > 0 && newDefs < 1 {
		return fmt.Errorf("%s: the registered default config func was not called for this creation (config not freshly created)", what)
	}
	if !w.shape.hasConf() || got == 0 {
		return nil
	}
	for i := from.fill; i < len(w.fills); i++ {
		rec := w.fills[i]
		if rec.ptr == nil {
			continue // reported through problems
		}
		if !confEqual(rec.pre, w.def) {
			return fmt.Errorf("%s: fillConf received config %v, expected the registered default %v (config is not fresh)", what, rec.pre, w.def)
		}
		for j := 0; j < i; j++ {
			if w.fills[j].ptr == rec.ptr {
				return fmt.Errorf("%s: fillConf received the same config object %p as fillConf call #%d before it (configs must be created per creation)", what, rec.ptr, j)
			}
		}
		for _, c := range w.ctors[:from.ctor] {
			if c.ptr == rec.ptr {
				return fmt.Errorf("%s: fillConf received config object %p that an earlier product already owns", what, rec.ptr)
			}
		}
	}
	return nil
}

func lastFillErr(w *world, from marks) *injErr {
	for i := len(w.fills) - 1; i >= from.fill; i-- {
		if w.fills[i].err != nil {
			return w.fills[i].err
		}
	}
	return nil
}

// checkProduct verifies a successfully created component.
func (r *runner) checkProduct(what string, o outcome, from marks, exp Conf) (*Impl, error) {
	w := r.w
	if len(w.impls)-from.impl != 1 {
		return nil, fmt.Errorf("%s: %d components were built for one creation", what, len(w.impls)-from.impl)
	}
	built := w.impls[len(w.impls)-1]
	got, ok := o.val.(*Impl)
	if !ok {
		return nil, fmt.Errorf("%s returned %T (%v), expected the component the registered constructor built", what, o.val, o.val)
	}
	if got != built {
		return nil, fmt.Errorf("%s returned component #%d of %q, but this creation built #%d of %q", what, got.serial, got.owner, built.serial, built.owner)
	}
	if w.shape.hasConf() {
		if got.conf == nil {
			return nil, fmt.Errorf("%s: component has no config", what)
		}
		if !confEqual(*got.conf, exp) {
			return nil, fmt.Errorf("%s: component is configured with %v, expected default overlaid by settings = %v", what, *got.conf, exp)
		}
	}
	return got, nil
}

func (r *runner) expectedConf(sess Session) Conf {
	exp := r.w.def.clone()
	if !sess.NoFill {
		sess.Settings.apply(&exp)
	}
	return exp
}

// create performs one full creation (config created, filled, constructor run):
// a New call, or a call of a factory made from a component constructor with a config.
func (r *runner) create(what string, call func() outcome, sess Session, p ProductPlan, viaPanic bool) (*Impl, error) {
	w, s := r.w, r.w.shape
	hasFill := !sess.NoFill
	w.failFill, w.failCtor, w.failFac, w.beside = p.FillFail, p.CtorFail, p.FacFail, p.Beside
	from := w.mark()
	o := call()
	w.failFill, w.failCtor, w.failFac, w.beside = false, false, false, besideNil
	if err := r.flush(); err != nil {
		return nil, fmt.Errorf("%s: %w", what, err)
	}
	wantFill := 0
	if hasFill {
		wantFill = 1
	}
	if err := r.checkFill(what, from, wantFill); err != nil {
		return nil, err
	}
	ctorCalls, facCalls := len(w.ctors)-from.ctor, len(w.facs)-from.fac
	if hasFill && p.FillFail {
		if ctorCalls != 0 || facCalls != 0 {
			return nil, fmt.Errorf("%s: fillConf failed but the registered constructor ran anyway (%d constructor, %d factory calls)", what, ctorCalls, facCalls)
		}
		r.st.fillErr++
		return nil, expectOutcome(what, o, lastFillErr(w, from), viaPanic, r.st)
	}
	if ctorCalls != 1 {
		return nil, fmt.Errorf("%s: the registered constructor ran %d times, expected once per creation", what, ctorCalls)
	}
	exp := r.expectedConf(sess)
	cr := w.ctors[len(w.ctors)-1]
	if s.hasConf() && cr.ptr != nil && !confEqual(cr.snap, exp) {
		return nil, fmt.Errorf("%s: the registered constructor received config %v, expected default overlaid by settings = %v", what, cr.snap, exp)
	}
	if cr.err != nil {
		if facCalls != 0 {
			return nil, fmt.Errorf("%s: constructor failed but %d factory calls happened", what, facCalls)
		}
		r.st.ctorErr++
		r.noteBeside(cr.beside)
		return nil, expectOutcome(what+besideText(cr.beside), o, cr.err, viaPanic, r.st)
	}
	if s.Kind == "factory" {
		if facCalls != 1 {
			return nil, fmt.Errorf("%s: the registered factory ran %d times, expected once per creation", what, facCalls)
		}
		if fr := w.facs[len(w.facs)-1]; fr.err != nil {
			r.st.facErr++
			r.noteBeside(fr.beside)
			return nil, expectOutcome(what+besideText(fr.beside), o, fr.err, viaPanic, r.st)
		}
	} else if facCalls != 0 {
		return nil, fmt.Errorf("%s: unexpected factory calls", what)
	}
	if err := expectOutcome(what, o, nil, viaPanic, r.st); err != nil {
		return nil, err
	}
	return r.checkProduct(what, o, from, exp)
}

// besideText names what the failing call returned together with the error (for messages).
func besideText(beside string) string {
	switch beside {
	case besideValue:
		return " (the error was returned together with a NON-NIL first result)"
	case besideTypedNil:
		return " (the error was returned together with an interface holding a nil pointer)"
	}
	return ""
}

// callFactory: fac has the dynamic type the form requested (checked by the caller).
func (r *runner) callFactory(fac any) func() outcome {
	var withErr func() (Comp, error)
	var noErr func() Comp
	switch f := fac.(type) {
	case func() (Comp, error):
		withErr = f
	case CompFactory:
		withErr = f
	case func() Comp:
		noErr = f
	case CompFactoryNoErr:
		noErr = f
	default:
		panic(fmt.Sprintf("c18 harness: callFactory(%T)", fac))
	}
	if withErr != nil {
		return func() outcome {
			return guarded(func() (any, error) {
				c, err := withErr()
				return c, err
			})
		}
	}
	return func() outcome {
		return guarded(func() (any, error) { return noErr(), nil })
	}
}

type delivered struct {
	impl *Impl
	exp  Conf
}

// run drives the whole script through one (shape, form) combination.
func (r *runner) run(script Script) error {
	w, s := r.w, r.w.shape
	viaPanic := formViaPanic(r.form)
	facType, namedType, unnamedType := formFactoryType(r.form)
	for si, sess := range script.Sessions {
		r.st.sessions++
		var fillArgs []func(any) error
		if !sess.NoFill {
			fillArgs = append(fillArgs, w.fillConf(sess.Settings))
		}
		exp := r.expectedConf(sess)
		var got []delivered
		deliver := func(p ProductPlan, impl *Impl) {
			if impl == nil {
				return
			}
			r.st.products++
			got = append(got, delivered{impl, exp})
			if p.Mutate && impl.conf != nil {
				mutateConf(impl.conf)
				impl.mutated = true
				r.st.mutations++
			}
		}
		if r.form == "new" {
			for pi, p := range sess.Products {
				what := fmt.Sprintf("session %d New #%d", si, pi)
				r.st.newCalls++
				impl, err := r.create(what, func() outcome {
					return guarded(func() (any, error) { return r.reg.New(compType, w.name, fillArgs...) })
				}, sess, p, false)
				if err != nil {
					return err
				}
				deliver(p, impl)
			}
		} else {
			// ---- NewFactory ----
			what := fmt.Sprintf("session %d NewFactory(%s)", si, facType)
			perFactoryFill := s.Kind == "factory" || !s.hasConf() // fillConf runs when the factory is made
			w.failFill = perFactoryFill && sess.SetupFillFail
			w.failCtor = s.Kind == "factory" && sess.SetupCtorFail
			w.failFac = false
			w.beside = sess.SetupBeside
			from := w.mark()
			o := guarded(func() (any, error) { return r.reg.NewFactory(facType, w.name, fillArgs...) })
			w.failCtor, w.beside = false, besideNil
			if err := r.flush(); err != nil {
				return fmt.Errorf("%s: %w", what, err)
			}
			if len(w.facs) != from.fac || len(w.impls) != from.impl {
				return fmt.Errorf("%s: a component was built although only a factory was requested", what)
			}
			fillFailing := w.failFill && !sess.NoFill
			noConfLazyFillFailure := false
			switch {
			case s.Kind == "component" && s.hasConf():
				if n := len(w.fills) - from.fill; n != 0 {
					return fmt.Errorf("%s: fillConf ran %d times while the factory was made; for a component constructor it runs once per product", what, n)
				}
				if n := len(w.ctors) - from.ctor; n != 0 {
					return fmt.Errorf("%s: the component constructor ran %d times while the factory was made", what, n)
				}
				if err := expectOutcome(what, o, nil, false, r.st); err != nil {
					return err
				}
			case s.Kind == "component": // no config: nothing to decode per product
				if n := len(w.ctors) - from.ctor; n != 0 {
					return fmt.Errorf("%s: the component constructor ran %d times while the factory was made", what, n)
				}
				if o.panicked {
					return fmt.Errorf("%s panicked: %v\n%s", what, o.panicVal, o.stack)
				}
				if fillFailing {
					if o.err != nil {
						fe := lastFillErr(w, from)
						if fe == nil || !errors.Is(o.err, fe) {
							return fmt.Errorf("%s returned error %q, expected the fillConf error", what, o.err)
						}
						r.st.fillErr++
						r.st.setupErr++
						r.st.errResult++
						w.failFill = false
						continue
					}
					noConfLazyFillFailure = true // then every product has to fail instead
				} else if o.err != nil {
					return fmt.Errorf("%s returned error %q although nothing failed", what, o.err)
				}
			default: // factory constructor: config decoded once, constructor run once, now
				wantFill := 0
				if !sess.NoFill {
					wantFill = 1
					if !s.hasConf() {
						wantFill = -1
					}
				}
				if err := r.checkFill(what, from, wantFill); err != nil {
					return err
				}
				ctorCalls := len(w.ctors) - from.ctor
				if fillFailing {
					w.failFill = false
					if ctorCalls != 0 {
						return fmt.Errorf("%s: fillConf failed but the factory constructor ran anyway", what)
					}
					r.st.fillErr++
					r.st.setupErr++
					if err := expectOutcome(what, o, lastFillErr(w, from), false, r.st); err != nil {
						return err
					}
					continue
				}
				if ctorCalls != 1 {
					return fmt.Errorf("%s: the factory constructor ran %d times, expected exactly once per NewFactory", what, ctorCalls)
				}
				cr := w.ctors[len(w.ctors)-1]
				if s.hasConf() && cr.ptr != nil && !confEqual(cr.snap, exp) {
					return fmt.Errorf("%s: the factory constructor received config %v, expected default overlaid by settings = %v", what, cr.snap, exp)
				}
				if cr.err != nil {
					r.st.ctorErr++
					r.st.setupErr++
					if cr.beside == besideValue {
						r.st.besideFactoryAtSetup++
						what += " (the factory constructor returned the error together with a NON-NIL factory)"
					}
					if err := expectOutcome(what, o, cr.err, false, r.st); err != nil {
						return err
					}
					continue
				}
				if err := expectOutcome(what, o, nil, false, r.st); err != nil {
					return err
				}
			}
			if o.val == nil || reflect.TypeOf(o.val) != facType {
				return fmt.Errorf("%s returned %T, expected a %s", what, o.val, facType)
			}
			r.st.factoryMade++
			if (s.Kind == "component" && s.ctorType() == facType) || (s.Kind == "factory" && s.productFuncType() == facType) {
				r.st.sameTypeNoWrap++
			}
			if namedType {
				r.st.namedFactoryMade++
				// the registered func could be handed out as it is but for its type: it has exactly the signature asked for
				if (s.Kind == "component" && s.ctorType() == unnamedType) || (s.Kind == "factory" && s.productFuncType() == unnamedType) {
					r.st.namedSameSignature++
				}
			}
			call := r.callFactory(o.val)
			if len(sess.Products) >= 2 {
				r.st.multiProductFactories++
			}
			// ---- products ----
			for pi, p := range sess.Products {
				what := fmt.Sprintf("session %d product #%d of the %s", si, pi, facType)
				switch {
				case s.Kind == "component" && s.hasConf():
					impl, err := r.create(what, call, sess, p, viaPanic)
					if err != nil {
						return err
					}
					deliver(p, impl)
				case s.Kind == "component":
					w.failFill = noConfLazyFillFailure
					w.failCtor, w.failFac, w.beside = p.CtorFail, false, p.Beside
					from := w.mark()
					o := call()
					w.failCtor, w.beside = false, besideNil
					if err := r.flush(); err != nil {
						return fmt.Errorf("%s: %w", what, err)
					}
					ctorCalls := len(w.ctors) - from.ctor
					if noConfLazyFillFailure {
						if ctorCalls != 0 {
							return fmt.Errorf("%s: fillConf fails but the constructor ran", what)
						}
						fe := lastFillErr(w, from)
						if fe == nil {
							return fmt.Errorf("%s: the failing fillConf was never consulted: neither NewFactory nor the factory call reported its error", what)
						}
						r.st.fillErr++
						if err := expectOutcome(what, o, fe, viaPanic, r.st); err != nil {
							return err
						}
						continue
					}
					if ctorCalls != 1 {
						return fmt.Errorf("%s: the registered constructor ran %d times, expected once per product", what, ctorCalls)
					}
					if cr := w.ctors[len(w.ctors)-1]; cr.err != nil {
						r.st.ctorErr++
						r.noteBeside(cr.beside)
						if err := expectOutcome(what+besideText(cr.beside), o, cr.err, viaPanic, r.st); err != nil {
							return err
						}
						continue
					}
					if err := expectOutcome(what, o, nil, viaPanic, r.st); err != nil {
						return err
					}
					impl, err := r.checkProduct(what, o, from, exp)
					if err != nil {
						return err
					}
					deliver(p, impl)
				default: // factory constructor: one call of the registered factory, nothing else
					w.failFill, w.failCtor, w.failFac, w.beside = false, false, p.FacFail, p.Beside
					from := w.mark()
					o := call()
					w.failFac, w.beside = false, besideNil
					if err := r.flush(); err != nil {
						return fmt.Errorf("%s: %w", what, err)
					}
					if n := len(w.fills) - from.fill; n != 0 {
						return fmt.Errorf("%s: fillConf ran %d times for a product of a factory constructor; the config is decoded once per NewFactory", what, n)
					}
					if n := len(w.ctors) - from.ctor; n != 0 {
						return fmt.Errorf("%s: the factory constructor ran %d more times for a product; it runs once per NewFactory", what, n)
					}
					if n := len(w.facs) - from.fac; n != 1 {
						return fmt.Errorf("%s: the registered factory ran %d times, expected once per product", what, n)
					}
					if fr := w.facs[len(w.facs)-1]; fr.err != nil {
						r.st.facErr++
						r.noteBeside(fr.beside)
						if err := expectOutcome(what+besideText(fr.beside), o, fr.err, viaPanic, r.st); err != nil {
							return err
						}
						continue
					}
					if err := expectOutcome(what, o, nil, viaPanic, r.st); err != nil {
						return err
					}
					impl, err := r.checkProduct(what, o, from, exp)
					if err != nil {
						return err
					}
					deliver(p, impl)
				}
			}
			w.failFill = false
		}
		// ---- products of one session never share configuration state ----
		for i, a := range got {
			for _, b := range got[:i] {
				if a.impl == b.impl {
					return fmt.Errorf("session %d: the same component object was delivered twice", si)
				}
				if a.impl.conf != nil && a.impl.conf == b.impl.conf {
					return fmt.Errorf("session %d: products #%d and #%d share one config object %p", si, a.impl.serial, b.impl.serial, a.impl.conf)
				}
			}
			if a.impl.conf != nil && !a.impl.mutated {
				r.st.independenceChecks++
				if !confEqual(*a.impl.conf, a.exp) {
					return fmt.Errorf("session %d: config of product #%d changed to %v (expected %v) after OTHER products of the same factory mutated their own config: products share slice/map state",
						si, a.impl.serial, *a.impl.conf, a.exp)
				}
			}
		}
	}
	return nil
}

// registerWorld registers the world's constructor; a panic is reported as an error.
func registerWorld(reg *plugin.Registry, w *world) (err error) {
	defer func() {
		if p := recover(); p != nil {
			err = fmt.Errorf("Register panicked for the supported constructor shape %s (%s): %v", w.shape, w.shape.ctorType(), p)
		}
	}()
	reg.Register(compType, w.name, w.constructor(), w.defaultArgs()...)
	return nil
}
