package c18

import (
	"errors"
	"fmt"
	"reflect"
	"testing"

	"verif/harness/internal/vf"

	"github.com/yandex/pandora/core/plugin"
	"pgregory.net/rapid"
)

// Registrations that core/plugin documents as illegal (doc.go "Type expectations",
// the Register doc comment, the expect() calls in constructor.go / registry.go):
// each must panic at Register.

type otherConf struct{ X int }

type illegal struct {
	name string
	reg  func(r *plugin.Registry, name string)
}

func illegalRegistrations() []illegal {
	simple := func(name string, ctor any, def ...any) illegal {
		return illegal{name, func(r *plugin.Registry, n string) { r.Register(compType, n, ctor, def...) }}
	}
	return []illegal{
		{"plugin_type_not_interface", func(r *plugin.Registry, n string) {
			r.Register(reflect.TypeOf(Impl{}), n, func() *Impl { return nil })
		}},
		{"plugin_type_pointer_to_interface", func(r *plugin.Registry, n string) {
			r.Register(reflect.TypeOf((*Comp)(nil)), n, func() Comp { return nil })
		}},
		{"empty_name", func(r *plugin.Registry, _ string) { r.Register(compType, "", func() Comp { return nil }) }},
		{"duplicate_name", func(r *plugin.Registry, n string) {
			ok := false
			defer func() {
				if !ok { // the first, legal registration must not be what panics
					recover()
				}
			}()
			r.Register(compType, n, func() Comp { return nil })
			ok = true
			r.Register(compType, n, func(Conf) (*Impl, error) { return nil, nil })
		}},
		simple("constructor_not_func_string", "not a constructor"),
		simple("constructor_not_func_error", errors.New("not a constructor")),
		simple("constructor_not_func_component", &Impl{}),
		simple("constructor_no_results", func() {}),
		simple("constructor_config_only_no_results", func(Conf) {}),
		simple("result_not_implementing_struct", func() struct{} { return struct{}{} }),
		simple("result_not_implementing_int", func() int { return 0 }),
		simple("result_value_type_methods_on_pointer", func() Impl { return Impl{} }),
		simple("result_is_error_only", func() error { return nil }),
		simple("two_config_args_struct", func(_, _ Conf) Comp { return nil }),
		simple("two_config_args_ptr", func(_, _ *Conf) Comp { return nil }),
		simple("two_config_args_mixed", func(Conf, *Conf) (Comp, error) { return nil, nil }),
		simple("config_int", func(int) Comp { return nil }),
		simple("config_ptr_int", func(*int) Comp { return nil }),
		simple("config_string", func(string) Comp { return nil }),
		simple("config_map", func(map[string]string) Comp { return nil }),
		simple("config_slice_of_struct", func([]Conf) Comp { return nil }),
		simple("config_ptr_ptr_struct", func(**Conf) Comp { return nil }),
		simple("config_interface", func(any) Comp { return nil }),
		simple("three_results", func() (Comp, error, error) { return nil, nil, nil }),
		simple("second_result_component", func() (Comp, Comp) { return nil, nil }),
		simple("second_result_string", func() (Comp, string) { return nil, "" }),
		simple("second_result_bool", func(Conf) (*Impl, bool) { return nil, false }),
		simple("default_config_without_config_arg", func() Comp { return nil }, func() Conf { return Conf{} }),
		simple("default_ptr_for_struct_config", func(Conf) Comp { return nil }, func() *Conf { return nil }),
		simple("default_struct_for_ptr_config", func(*Conf) Comp { return nil }, func() Conf { return Conf{} }),
		simple("default_other_struct", func(Conf) Comp { return nil }, func() otherConf { return otherConf{} }),
		simple("default_func_takes_args", func(*Conf) Comp { return nil }, func(int) *Conf { return nil }),
		simple("default_func_two_results", func(Conf) Comp { return nil }, func() (Conf, error) { return Conf{}, nil }),
		simple("default_is_value_not_func", func(Conf) Comp { return nil }, Conf{}),
		simple("default_is_ptr_value_not_func", func(*Conf) Comp { return nil }, &Conf{}),
		simple("two_default_configs", func(Conf) Comp { return nil }, func() Conf { return Conf{} }, func() Conf { return Conf{} }),
		simple("factory_default_wrong_type", func(*Conf) func() Comp { return nil }, func() Conf { return Conf{} }),
		simple("factory_default_without_config_arg", func() func() Comp { return nil }, func() *Conf { return nil }),
		simple("factory_two_config_args", func(_, _ Conf) func() Comp { return nil }),
		simple("factory_config_not_struct", func(int) func() Comp { return nil }),
		simple("factory_three_results", func() (func() Comp, error, error) { return nil, nil, nil }),
		simple("factory_second_result_not_error", func() (func() Comp, Comp) { return nil, nil }),
		simple("factory_returned_func_accepts_config", func() func(Conf) Comp { return nil }),
		simple("factory_returned_func_not_implementing", func() func() struct{} { return nil }),
		simple("factory_returned_func_no_results", func() func() { return nil }),
		simple("factory_returned_func_three_results", func() func() (Comp, error, error) { return nil }),
		simple("factory_returned_func_second_not_error", func() func() (Comp, Comp) { return nil }),
		simple("factory_of_factory", func() func() func() Comp { return nil }),
	}
}

type IllegalCase struct {
	Idx  int    `json:"idx"`
	What string `json:"what"` // informative, Idx decides
	Name string `json:"name"`
	// legal registrations made on the same registry first: they must keep working afterwards
	Before []Shape `json:"before"`
}

func genIllegalCase(t *rapid.T) IllegalCase {
	all := illegalRegistrations()
	c := IllegalCase{Idx: rapid.IntRange(0, len(all)-1).Draw(t, "idx")}
	c.What = all[c.Idx].name
	c.Name = rapid.SampledFrom([]string{"x", "my-plugin", "http", "shape", "Имя"}).Draw(t, "name")
	nb := rapid.IntRange(0, 2).Draw(t, "before")
	for i := 0; i < nb; i++ {
		c.Before = append(c.Before, genShape(t, fmt.Sprintf("before%d", i)))
	}
	return c
}

func checkIllegal(c IllegalCase, o *vf.Obs) error {
	all := illegalRegistrations()
	if c.Idx < 0 || c.Idx >= len(all) {
		return fmt.Errorf("harness: no illegal registration #%d", c.Idx)
	}
	il := all[c.Idx]
	reg := plugin.NewRegistry()
	var before []*world
	for i, s := range c.Before {
		if !s.valid() {
			return fmt.Errorf("harness: not a supported shape: %+v", s)
		}
		w := newWorld(s, fmt.Sprintf("before-%d", i), Conf{S: "before", N: i})
		if err := registerWorld(reg, w); err != nil {
			return err
		}
		before = append(before, w)
	}
	var panicked bool
	var val any
	func() {
		defer func() {
			if p := recover(); p != nil {
				panicked, val = true, p
			}
		}()
		il.reg(reg, c.Name)
	}()
	if !panicked {
		return fmt.Errorf("illegal registration %q was accepted by Register without a panic", il.name)
	}
	o.Note("panic", fmt.Sprint(val))
	// Earlier, legal registrations are unaffected.
	for _, w := range before {
		r := &runner{reg: reg, w: w, form: "new", st: &stats{}}
		script := Script{Sessions: []Session{{Settings: Settings{SetN: true, N: 5}, Products: []ProductPlan{{}}}}}
		if err := r.run(script); err != nil {
			return fmt.Errorf("after the rejected registration %q, the legal registration %s: %w", il.name, w.shape, err)
		}
	}
	o.Class("illegal_" + il.name)
	o.ClassIf(len(before) > 0, "with_earlier_legal_registrations")
	o.Key([]any{c.Idx, c.Name, c.Before})
	o.NonTrivial()
	return nil
}

func TestIllegalRegistrations(t *testing.T) {
	r := vf.Start(t, "C18")
	if shard0() {
		r.Extra("illegal_registrations_listed", len(illegalRegistrations()))
	}
	vf.Check(r, genIllegalCase, checkIllegal)
}
