package c18

import (
	"fmt"
	"os"
	"reflect"
	"testing"

	"verif/harness/internal/vf"

	"github.com/yandex/pandora/core/plugin"
	"pgregory.net/rapid"
)

// shard0: numeric extras are summed over the shard processes by the driver, so
// constants of the search space are reported by the first shard only.
func shard0() bool {
	sh := os.Getenv("VERIF_SHARD")
	return sh == "" || sh == "0"
}

// ---------- generators ----------

var word = rapid.SampledFrom([]string{"", "a", "b", "alpha", "beta", "x1", "y2", "zz"})

func genConf(t *rapid.T, label string) Conf {
	c := Conf{}
	c.S = word.Draw(t, label+".s")
	c.N = rapid.IntRange(-3, 50).Draw(t, label+".n")
	if rapid.Bool().Draw(t, label+".hasL") {
		c.L = rapid.SliceOfN(word, 0, 3).Draw(t, label+".l")
	}
	if rapid.Bool().Draw(t, label+".hasM") {
		c.M = rapid.MapOfN(word, word, 0, 3).Draw(t, label+".m")
	}
	return c
}

func genSettings(t *rapid.T, label string) Settings {
	s := Settings{}
	if s.SetS = rapid.Bool().Draw(t, label+".setS"); s.SetS {
		s.S = word.Draw(t, label+".s") + "!"
	}
	if s.SetN = rapid.Bool().Draw(t, label+".setN"); s.SetN {
		s.N = rapid.IntRange(100, 200).Draw(t, label+".n")
	}
	if s.SetL = rapid.Bool().Draw(t, label+".setL"); s.SetL {
		s.L = rapid.SliceOfN(word, 0, 3).Draw(t, label+".l")
	}
	if s.SetM = rapid.Bool().Draw(t, label+".setM"); s.SetM {
		s.M = rapid.MapOfN(word, word, 0, 3).Draw(t, label+".m")
	}
	return s
}

func oneIn(t *rapid.T, n int, label string) bool {
	return rapid.IntRange(0, n-1).Draw(t, label) == n-1 // shrinks towards false
}

func genScript(t *rapid.T, maxSessions, maxProducts int) Script {
	sc := Script{Default: genConf(t, "default")}
	ns := rapid.IntRange(1, maxSessions).Draw(t, "sessions")
	for i := 0; i < ns; i++ {
		l := fmt.Sprintf("s%d", i)
		se := Session{Settings: genSettings(t, l)}
		se.NoFill = oneIn(t, 6, l+".noFill")
		se.SetupFillFail = oneIn(t, 6, l+".setupFillFail")
		se.SetupCtorFail = oneIn(t, 6, l+".setupCtorFail")
		if se.SetupCtorFail && rapid.Bool().Draw(t, l+".setupBeside") {
			se.SetupBeside = besideValue
		}
		np := rapid.IntRange(1, maxProducts).Draw(t, l+".products")
		for j := 0; j < np; j++ {
			pl := fmt.Sprintf("%s.p%d", l, j)
			p := ProductPlan{}
			switch rapid.IntRange(0, 9).Draw(t, pl+".fault") {
			case 7:
				p.FillFail = true
			case 8:
				p.CtorFail = true
			case 9:
				p.FacFail = true
			}
			if p.CtorFail || p.FacFail {
				// what comes back beside the error: nothing, a non-nil first result, a typed nil
				p.Beside = rapid.SampledFrom(besides).Draw(t, pl+".beside")
			}
			p.Mutate = rapid.IntRange(0, 2).Draw(t, pl+".mutate") == 2
			se.Products = append(se.Products, p)
		}
		sc.Sessions = append(sc.Sessions, se)
	}
	return sc
}

func classify(o *vf.Obs, st *stats) {
	o.ClassIf(st.multiProductFactories > 0, "factory_with_2plus_products")
	o.ClassIf(st.errResult > 0, "error_as_result")
	o.ClassIf(st.errPanic > 0, "error_as_panic")
	o.ClassIf(st.fillErr > 0, "fillconf_error")
	o.ClassIf(st.ctorErr > 0, "constructor_error")
	o.ClassIf(st.facErr > 0, "registered_factory_error")
	o.ClassIf(st.setupErr > 0, "newfactory_error")
	o.ClassIf(st.mutations > 0, "config_mutated_by_product")
	o.ClassIf(st.independenceChecks > 0, "independence_checked")
	o.ClassIf(st.sameTypeNoWrap > 0, "same_type_no_wrap")
	o.ClassIf(st.besideValueNew > 0, "error_beside_nonnil_result_component_form")
	o.ClassIf(st.besideValueFactory > 0, "error_beside_nonnil_result_factory_form")
	o.ClassIf(st.besideTypedNilNew > 0, "error_beside_typed_nil_component_form")
	o.ClassIf(st.besideTypedNilFactory > 0, "error_beside_typed_nil_factory_form")
	o.ClassIf(st.besideFactoryAtSetup > 0, "error_beside_nonnil_factory_at_newfactory")
	o.ClassIf(st.namedFactoryMade > 0, "named_factory_type")
	o.ClassIf(st.namedSameSignature > 0, "named_factory_type_same_signature")
	if st.multiProductFactories > 0 || st.errResult > 0 || st.errPanic > 0 {
		o.NonTrivial()
	}
}

// unknownName: creating by a name nobody registered is an error result, never a panic.
func unknownName(reg *plugin.Registry) error {
	o := guarded(func() (any, error) { return reg.New(compType, "c18-no-such-name") })
	if o.panicked || o.err == nil {
		return fmt.Errorf("New with an unregistered name: panicked=%v (%v) err=%v, expected an error result", o.panicked, o.panicVal, o.err)
	}
	for _, ft := range []reflect.Type{facErrType, facNoErrType, namedFacErrType, namedFacNoErrType} {
		o = guarded(func() (any, error) { return reg.NewFactory(ft, "c18-no-such-name") })
		if o.panicked || o.err == nil {
			return fmt.Errorf("NewFactory(%s) with an unregistered name: panicked=%v (%v) err=%v, expected an error result", ft, o.panicked, o.panicVal, o.err)
		}
	}
	return nil
}

// ---------- TestShapes: one random script driven through the COMPLETE shape x form cross product ----------

type ShapesCase struct {
	// Only >= 0 restricts the run to one combination — for hand-minimising a replay. index = shape*3 + form for the
	// forms new / factory_err / factory_noerr, 324 + shape*2 + {0: named_factory_err, 1: named_factory_noerr}.
	Only   int    `json:"only"`
	Script Script `json:"script"`
}

func genShapesCase(t *rapid.T) ShapesCase {
	return ShapesCase{Only: -1, Script: genScript(t, 3, 4)}
}

func checkShapes(c ShapesCase, o *vf.Obs) (enumerated int, err error) {
	if err := c.Script.validate(); err != nil {
		return 0, err
	}
	shapes := allShapes()
	reg := plugin.NewRegistry()
	worlds := make([]*world, len(shapes))
	for i, s := range shapes {
		worlds[i] = newWorld(s, fmt.Sprintf("shape-%03d-%s", i, s), c.Script.Default)
		if err := registerWorld(reg, worlds[i]); err != nil {
			return 0, err
		}
	}
	st := &stats{}
	for i, w := range worlds {
		for fi, form := range forms {
			idx := i*unnamedForms + fi
			if fi >= unnamedForms {
				idx = len(shapes)*unnamedForms + i*(len(forms)-unnamedForms) + fi - unnamedForms
			}
			if c.Only >= 0 && c.Only != idx {
				continue
			}
			r := &runner{reg: reg, w: w, form: form, st: st}
			if err := r.run(c.Script); err != nil {
				o.Note("failing_combination", map[string]any{"index": idx, "shape": w.shape, "form": form, "constructor_type": w.shape.ctorType().String()})
				return enumerated, fmt.Errorf("combination %d: constructor %s (%s) requested as %s: %w", idx, w.shape, w.shape.ctorType(), form, err)
			}
			enumerated++
		}
		o.Class("shape_" + w.shape.String())
	}
	for _, f := range forms {
		o.Class("form_" + f)
	}
	if err := unknownName(reg); err != nil {
		return enumerated, err
	}
	classify(o, st)
	o.Note("creations", st.products)
	return enumerated, nil
}

func TestShapes(t *testing.T) {
	r := vf.Start(t, "C18")
	total := len(allShapes()) * len(forms)
	if shard0() {
		r.Extra("shapes_enumerated", total)
		r.Extra("shape_space", fmt.Sprintf("%d constructor shapes x %d requested forms = %d combinations, all of them driven by every TestShapes case",
			len(allShapes()), len(forms), total))
	}
	vf.Check(r, genShapesCase, func(c ShapesCase, o *vf.Obs) error {
		n, err := checkShapes(c, o)
		if err == nil && c.Only < 0 {
			if n != total {
				return fmt.Errorf("harness: enumerated %d of %d combinations", n, total)
			}
			r.AddExtra("full_cross_product_passes", 1)
		}
		return err
	})
}

// ---------- TestSequences: one random combination, longer random call sequences ----------

type SeqCase struct {
	Shape Shape  `json:"shape"`
	Form  string `json:"form"` // new | factory_err | factory_noerr
	// Named: the factory is requested as the DEFINED func type of that signature (CompFactory / CompFactoryNoErr)
	Named       bool    `json:"named,omitempty"`
	Distractors []Shape `json:"distractors"` // other registrations living in the same registry
	Script      Script  `json:"script"`
}

func genShape(t *rapid.T, label string) Shape {
	s := Shape{Default: "none"}
	s.Kind = rapid.SampledFrom([]string{"component", "factory"}).Draw(t, label+".kind")
	s.Conf = rapid.SampledFrom([]string{"none", "struct", "struct", "ptr", "ptr"}).Draw(t, label+".conf")
	switch s.Conf {
	case "struct":
		s.Default = rapid.SampledFrom([]string{"none", "func", "func"}).Draw(t, label+".default")
	case "ptr":
		s.Default = rapid.SampledFrom([]string{"none", "func", "func", "nilptr"}).Draw(t, label+".default")
	}
	s.CtorErr = rapid.Bool().Draw(t, label+".ctorErr")
	if s.Kind == "factory" {
		s.FacErr = rapid.Bool().Draw(t, label+".facErr")
	}
	s.Result = rapid.SampledFrom([]string{"iface", "concrete", "wider"}).Draw(t, label+".result")
	return s
}

func genSeqCase(t *rapid.T) SeqCase {
	c := SeqCase{Shape: genShape(t, "shape")}
	c.Form = rapid.SampledFrom([]string{"new", "factory_err", "factory_err", "factory_noerr", "factory_noerr"}).Draw(t, "form")
	if c.Form != "new" {
		c.Named = oneIn(t, 6, "named")
	}
	nd := rapid.IntRange(0, 2).Draw(t, "distractors")
	for i := 0; i < nd; i++ {
		c.Distractors = append(c.Distractors, genShape(t, fmt.Sprintf("distractor%d", i)))
	}
	c.Script = genScript(t, 5, 8)
	return c
}

func checkSeq(c SeqCase, o *vf.Obs) error {
	if !c.Shape.valid() {
		return fmt.Errorf("harness: not a supported shape: %+v", c.Shape)
	}
	okForm := false
	for _, f := range forms[:unnamedForms] {
		okForm = okForm || f == c.Form
	}
	if !okForm || (c.Named && c.Form == "new") {
		return fmt.Errorf("harness: unknown form %q (named %v)", c.Form, c.Named)
	}
	form := c.Form
	if c.Named {
		form = "named_" + form
	}
	if err := c.Script.validate(); err != nil {
		return err
	}
	reg := plugin.NewRegistry()
	var others []*world
	for i, d := range c.Distractors {
		if !d.valid() {
			return fmt.Errorf("harness: not a supported shape: %+v", d)
		}
		dw := newWorld(d, fmt.Sprintf("other-%d", i), Conf{S: "OTHER", N: -77, L: []string{"OTHER"}})
		if err := registerWorld(reg, dw); err != nil {
			return err
		}
		others = append(others, dw)
	}
	w := newWorld(c.Shape, "subject", c.Script.Default)
	if err := registerWorld(reg, w); err != nil {
		return err
	}
	st := &stats{}
	r := &runner{reg: reg, w: w, form: form, st: st}
	if err := r.run(c.Script); err != nil {
		return fmt.Errorf("constructor %s (%s) requested as %s: %w", w.shape, w.shape.ctorType(), form, err)
	}
	for _, dw := range others {
		if len(dw.ctors)+len(dw.fills)+dw.defCalls != 0 {
			return fmt.Errorf("creating %q touched the registration %q (%d constructor, %d fillConf, %d default calls)", w.name, dw.name, len(dw.ctors), len(dw.fills), dw.defCalls)
		}
	}
	if err := unknownName(reg); err != nil {
		return err
	}
	s := c.Shape
	o.Class("kind_"+s.Kind, "conf_"+s.Conf, "default_"+s.Default, "result_"+s.Result, "form_"+c.Form)
	o.ClassIf(s.CtorErr, "ctor_has_error_result")
	o.ClassIf(s.Kind == "factory" && s.FacErr, "returned_factory_has_error_result")
	o.ClassIf(len(c.Distractors) > 0, "other_registrations_present")
	classify(o, st)
	o.Note("creations", st.products)
	return nil
}

func TestSequences(t *testing.T) {
	r := vf.Start(t, "C18")
	vf.Check(r, genSeqCase, checkSeq)
}
