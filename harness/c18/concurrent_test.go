package c18

import (
	"fmt"
	"reflect"
	"runtime"
	"strconv"
	"strings"
	"sync"
	"sync/atomic"
	"testing"

	"verif/harness/internal/vf"

	"github.com/yandex/pandora/core/plugin"
	"pgregory.net/rapid"
)

// TestConcurrentFactory — "a factory made from a component constructor builds every product from a freshly
// created and freshly decoded configuration, so products never share configuration state", for factories that
// are used the way the engine uses a pool's gun factory (and, with rps-per-instance, its schedule factory):
// one long-living factory called from the goroutines of all instances that are being started.
//
// One registration of a COMPONENT constructor that takes a config (every wrap shape), 1-2 factories made from
// it with different settings; after 0-5 sequential products each factory is called from 2-6 goroutines at
// once, 10-120 times each. Every fillConf call stamps the configuration it decodes with its own number, so
// afterwards it is known which decoded configuration each constructor call was given:
//
//   - fillConf, constructor and delivered product counts are equal: one decode and one construction per product;
//   - every decoded configuration reached exactly one constructor (no configuration handed to two products, none dropped),
//     for pointer configs as the very object fillConf filled;
//   - a product of the factory made with settings X holds default overlaid by X;
//   - what a product writes into its own configuration after construction (a scalar while the other goroutines are
//     still running, everything reachable once they are done) shows in no other product's configuration.
type ConcCase struct {
	Shape      Shape      `json:"shape"` // component kind with a config
	Form       string     `json:"form"`  // factory_err | factory_noerr
	Default    Conf       `json:"default"`
	Factories  []Settings `json:"factories"`  // one NewFactory call per entry
	Warmup     int        `json:"warmup"`     // sequential products of every factory before the goroutines start
	Goroutines int        `json:"goroutines"` // per factory
	Calls      int        `json:"calls"`      // per goroutine
	Aligned    bool       `json:"aligned"`    // fillConf lets the goroutines of a factory leave it together
}

func genConcCase(t *rapid.T) ConcCase {
	c := ConcCase{}
	s := Shape{Kind: "component", Default: "none"}
	s.Conf = rapid.SampledFrom([]string{"struct", "ptr"}).Draw(t, "conf")
	s.Default = rapid.SampledFrom([]string{"none", "func"}).Draw(t, "default")
	s.CtorErr = rapid.Bool().Draw(t, "ctorErr")
	s.Result = rapid.SampledFrom([]string{"iface", "concrete", "wider"}).Draw(t, "result")
	c.Shape = s
	c.Form = rapid.SampledFrom([]string{"factory_err", "factory_noerr"}).Draw(t, "form")
	c.Default = genConf(t, "default")
	nf := rapid.SampledFrom([]int{1, 1, 2}).Draw(t, "factories")
	for i := 0; i < nf; i++ {
		c.Factories = append(c.Factories, genSettings(t, fmt.Sprintf("f%d", i)))
	}
	c.Warmup = rapid.IntRange(0, 5).Draw(t, "warmup")
	c.Goroutines = rapid.IntRange(2, 6).Draw(t, "goroutines")
	c.Calls = rapid.IntRange(10, 120).Draw(t, "calls")
	c.Aligned = rapid.IntRange(0, 3).Draw(t, "aligned") > 0
	return c
}

// aligner makes groups of n callers leave together (bounded: it never blocks for good, so a registry that
// serialised the calls would only make it useless, not deadlock it).
type aligner struct {
	n        int64
	arrivals atomic.Int64
}

func (a *aligner) wait() {
	if a == nil || a.n < 2 {
		return
	}
	k := a.arrivals.Add(1)
	target := (k + a.n - 1) / a.n * a.n
	for spins := 0; a.arrivals.Load() < target && spins < 4000; spins++ {
		if spins%64 == 63 {
			runtime.Gosched()
		}
	}
}

const fillStamp = "#fill"

type cFill struct {
	fac int
	ptr *Conf
}

type cCtor struct {
	ptr    *Conf // the configuration the product keeps (its own copy for struct configs)
	snap   Conf  // content at call time
	fillID int
	impl   *Impl
}

// cworld is the goroutine-safe recording world of one registration.
type cworld struct {
	shape Shape
	name  string
	def   Conf

	mu       sync.Mutex
	fills    []cFill
	ctors    []*cCtor
	problems []string
}

func (w *cworld) problem(format string, a ...any) {
	w.mu.Lock()
	if len(w.problems) < 5 {
		w.problems = append(w.problems, fmt.Sprintf(format, a...))
	}
	w.mu.Unlock()
}

func stampOf(s string) (base string, id int) {
	i := strings.LastIndex(s, fillStamp)
	if i < 0 {
		return s, -1
	}
	n, err := strconv.Atoi(s[i+len(fillStamp):])
	if err != nil {
		return s, -1
	}
	return s[:i], n
}

func (w *cworld) defaultArgs() []any {
	if w.shape.Default != "func" {
		return nil
	}
	if w.shape.Conf == "struct" {
		return []any{func() Conf { return w.def.clone() }}
	}
	return []any{func() *Conf { c := w.def.clone(); return &c }}
}

func (w *cworld) constructor() any {
	s := w.shape
	resT := s.resultType()
	return reflect.MakeFunc(s.ctorType(), func(in []reflect.Value) []reflect.Value {
		rec := &cCtor{}
		if s.Conf == "struct" {
			c := in[0].Interface().(Conf)
			rec.ptr = &c
		} else {
			rec.ptr = in[0].Interface().(*Conf)
		}
		var first reflect.Value
		if rec.ptr == nil {
			w.problem("the registered constructor received a nil config pointer")
			first = reflect.Zero(resT)
		} else {
			rec.snap = rec.ptr.clone()
			_, rec.fillID = stampOf(rec.snap.S)
			rec.impl = &Impl{conf: rec.ptr, owner: w.name}
			w.mu.Lock()
			rec.impl.serial = len(w.ctors)
			w.ctors = append(w.ctors, rec)
			w.mu.Unlock()
			first = typed(resT, rec.impl)
		}
		if s.CtorErr {
			return []reflect.Value{first, reflect.Zero(errorType)}
		}
		return []reflect.Value{first}
	}).Interface()
}

// fillConf of factory #fac: overlays the settings and stamps the configuration with the number of this call.
func (w *cworld) fillConf(fac int, set Settings, al *aligner) func(any) error {
	return func(arg any) error {
		p, ok := arg.(*Conf)
		if !ok || p == nil {
			w.problem("fillConf was called with %T, expected a valid *Conf", arg)
			return nil
		}
		if !confEqual(*p, w.def) {
			w.problem("fillConf received config %v, expected the registered default %v (config is not fresh)", *p, w.def)
		}
		set.apply(p)
		w.mu.Lock()
		id := len(w.fills)
		w.fills = append(w.fills, cFill{fac: fac, ptr: p})
		w.mu.Unlock()
		p.S += fillStamp + strconv.Itoa(id)
		al.wait()
		return nil
	}
}

type cProduct struct {
	impl *Impl
	fac  int
}

func ownerMark(p *Impl) int { return -1000000 - p.serial }

func checkConc(c ConcCase, o *vf.Obs) error {
	s := c.Shape
	if !s.valid() || s.Kind != "component" || !s.hasConf() || s.Default == "nilptr" {
		return fmt.Errorf("harness: not a component constructor with a config: %+v", s)
	}
	if c.Form != "factory_err" && c.Form != "factory_noerr" {
		return fmt.Errorf("harness: unknown form %q", c.Form)
	}
	if len(c.Factories) < 1 || c.Goroutines < 1 || c.Calls < 1 || c.Goroutines > 64 || c.Calls > 100000 || c.Warmup < 0 {
		return fmt.Errorf("harness: bad sizes in %+v", c)
	}
	w := &cworld{shape: s, name: "subject"}
	if s.Default == "func" {
		w.def = c.Default.clone()
	}
	reg := plugin.NewRegistry()
	if err := vf.Guard(func() error { reg.Register(compType, w.name, w.constructor(), w.defaultArgs()...); return nil }); err != nil {
		return fmt.Errorf("Register failed for the supported constructor shape %s (%s): %v", s, s.ctorType(), err)
	}
	facType := facErrType
	if c.Form == "factory_noerr" {
		facType = facNoErrType
	}
	what := fmt.Sprintf("constructor %s (%s), factories requested as %s", s, s.ctorType(), facType)

	// expected configuration of a product of factory f, the stamp aside
	exp := make([]Conf, len(c.Factories))
	calls := make([]func() outcome, len(c.Factories))
	for f, set := range c.Factories {
		exp[f] = w.def.clone()
		set.apply(&exp[f])
		var al *aligner
		if c.Aligned {
			al = &aligner{n: int64(c.Goroutines)}
		}
		made := guarded(func() (any, error) { return reg.NewFactory(facType, w.name, w.fillConf(f, set, al)) })
		if made.panicked || made.err != nil || made.val == nil || reflect.TypeOf(made.val) != facType {
			return fmt.Errorf("%s: NewFactory #%d: panicked=%v (%v) err=%v value %T", what, f, made.panicked, made.panicVal, made.err, made.val)
		}
		calls[f] = (&runner{form: c.Form}).callFactory(made.val)
	}
	// one creation, judged as far as the calling goroutine can
	create := func(f int) (cProduct, error) {
		out := calls[f]()
		if out.panicked {
			return cProduct{}, fmt.Errorf("factory #%d panicked although nothing failed: %v\n%s", f, out.panicVal, out.stack)
		}
		if out.err != nil {
			return cProduct{}, fmt.Errorf("factory #%d returned error %q although nothing failed", f, out.err)
		}
		p, ok := out.val.(*Impl)
		if !ok || p == nil || p.conf == nil {
			return cProduct{}, fmt.Errorf("factory #%d returned %T (%v), expected a component of the registered constructor with its config", f, out.val, out.val)
		}
		got := p.conf.clone()
		base, id := stampOf(got.S)
		got.S = base
		if id < 0 {
			return cProduct{}, fmt.Errorf("product #%d of factory #%d is configured with %v: not a configuration fillConf has filled", p.serial, f, *p.conf)
		}
		if got.N <= -1000000 && got.N != exp[f].N {
			return cProduct{}, fmt.Errorf("product #%d of factory #%d (fillConf call #%d) is delivered with a config %v that already carries the mark product #%d wrote into ITS OWN config after it was made (expected %v): two products were given one configuration",
				p.serial, f, id, got, -1000000-got.N, exp[f])
		}
		if !confEqual(got, exp[f]) {
			return cProduct{}, fmt.Errorf("product #%d of factory #%d (fillConf call #%d) is configured with %v, expected default overlaid by that factory's settings = %v",
				p.serial, f, id, got, exp[f])
		}
		// the product owns its configuration from now on
		p.conf.N = ownerMark(p)
		return cProduct{p, f}, nil
	}

	var all []cProduct
	for i := 0; i < c.Warmup; i++ {
		for f := range calls {
			p, err := create(f)
			if err != nil {
				return fmt.Errorf("%s: sequential product #%d: %w", what, i, err)
			}
			all = append(all, p)
		}
	}
	var wg sync.WaitGroup
	var sink vf.ErrSink
	results := make([][]cProduct, len(calls)*c.Goroutines)
	start := make(chan struct{})
	for f := range calls {
		for g := 0; g < c.Goroutines; g++ {
			f, slot := f, f*c.Goroutines+g
			vf.GoErr(&wg, &sink, func() {
				<-start
				for k := 0; k < c.Calls; k++ {
					p, err := create(f)
					if err != nil {
						sink.Set(fmt.Errorf("%s: call #%d of goroutine %d (after %d sequential products): %w", what, k, slot, c.Warmup, err))
						return
					}
					results[slot] = append(results[slot], p)
				}
			})
		}
	}
	close(start)
	wg.Wait()
	if err := sink.Get(); err != nil {
		return err
	}
	for _, r := range results {
		all = append(all, r...)
	}
	w.mu.Lock()
	defer w.mu.Unlock()
	if len(w.problems) > 0 {
		return fmt.Errorf("%s: %s", what, w.problems[0])
	}
	total := len(calls) * (c.Warmup + c.Goroutines*c.Calls)
	if len(all) != total {
		return fmt.Errorf("harness: %d products collected, %d calls made", len(all), total)
	}
	if len(w.fills) != total || len(w.ctors) != total {
		return fmt.Errorf("%s: %d products were made with %d fillConf calls and %d constructor calls; a component constructor decodes and runs once per product",
			what, total, len(w.fills), len(w.ctors))
	}
	// every decoded configuration reached exactly one constructor
	usedBy := make([]*cCtor, len(w.fills))
	for _, rec := range w.ctors {
		if rec.fillID < 0 || rec.fillID >= len(w.fills) {
			return fmt.Errorf("%s: constructor call #%d received config %v, which no fillConf call has filled", what, rec.impl.serial, rec.snap)
		}
		if prev := usedBy[rec.fillID]; prev != nil {
			dropped := -1
			seen := map[int]bool{}
			for _, r := range w.ctors {
				seen[r.fillID] = true
			}
			for id := range w.fills {
				if !seen[id] {
					dropped = id
					break
				}
			}
			return fmt.Errorf("%s: products #%d and #%d were both built from the configuration decoded by fillConf call #%d (same object: %v), the one decoded by fillConf call #%d reached no constructor: "+
				"concurrent calls of one factory (%d goroutines, after %d sequential products) share configuration", what, prev.impl.serial, rec.impl.serial, rec.fillID,
				prev.ptr == rec.ptr, dropped, c.Goroutines, c.Warmup)
		}
		usedBy[rec.fillID] = rec
		if s.Conf == "ptr" && rec.ptr != w.fills[rec.fillID].ptr {
			return fmt.Errorf("%s: product #%d received a pointer config %p with the content of fillConf call #%d, which filled %p", what, rec.impl.serial, rec.ptr, rec.fillID, w.fills[rec.fillID].ptr)
		}
	}
	seenImpl := map[*Impl]bool{}
	seenConf := map[*Conf]int{}
	for _, p := range all {
		if seenImpl[p.impl] {
			return fmt.Errorf("%s: component #%d was delivered twice", what, p.impl.serial)
		}
		seenImpl[p.impl] = true
		if q, dup := seenConf[p.impl.conf]; dup {
			return fmt.Errorf("%s: products #%d and #%d share one config object %p", what, q, p.impl.serial, p.impl.conf)
		}
		seenConf[p.impl.conf] = p.impl.serial
		rec := w.ctors[p.impl.serial]
		if rec.impl != p.impl {
			return fmt.Errorf("%s: delivered component #%d is not the one constructor call #%d built", what, p.impl.serial, p.impl.serial)
		}
		if fac := w.fills[rec.fillID].fac; fac != p.fac {
			return fmt.Errorf("%s: product #%d was delivered by factory #%d but built from a configuration decoded for factory #%d", what, p.impl.serial, p.fac, fac)
		}
		if p.impl.conf.N != ownerMark(p.impl) {
			return fmt.Errorf("%s: product #%d wrote %d into its own config right after it was made; now it reads %d: another product writes to the same configuration",
				what, p.impl.serial, ownerMark(p.impl), p.impl.conf.N)
		}
	}
	// fill-after-construction: every product scribbles over everything reachable through its configuration ...
	tag := func(p *Impl) string { return "owned-by-" + strconv.Itoa(p.serial) }
	for _, p := range all {
		cf, t := p.impl.conf, tag(p.impl)
		cf.S = t
		for i := range cf.L {
			cf.L[i] = t
		}
		cf.L = append(cf.L, t)
		for k := range cf.M {
			cf.M[k] = t
		}
		if cf.M != nil {
			cf.M["owner"] = t
		}
	}
	// ... and finds only its own handwriting afterwards
	for _, p := range all {
		cf, t := p.impl.conf, tag(p.impl)
		bad := cf.S != t
		for _, x := range cf.L {
			bad = bad || x != t
		}
		for _, x := range cf.M {
			bad = bad || x != t
		}
		if bad {
			return fmt.Errorf("%s: after every product wrote %q-style marks over its own config, product #%d holds %v: products share string / slice / map state",
				what, t, p.impl.serial, *cf)
		}
	}

	o.Class("conf_"+s.Conf, "default_"+s.Default, "result_"+s.Result, "form_"+c.Form, fmt.Sprintf("factories_%d", len(c.Factories)))
	o.ClassIf(s.CtorErr, "ctor_has_error_result")
	o.ClassIf(c.Warmup > 0, "long_living_factory") // the concurrent calls are not the factory's first products
	o.ClassIf(c.Warmup == 0, "concurrent_first_products")
	o.ClassIf(c.Aligned, "aligned_calls")
	o.ClassIf(c.Goroutines >= 4, "goroutines_ge_4")
	hasShared := false
	for f := range exp {
		hasShared = hasShared || len(exp[f].L) > 0 || len(exp[f].M) > 0
	}
	o.ClassIf(hasShared, "config_with_slice_or_map")
	o.Note("products", total)
	o.NonTrivial()
	return nil
}

func TestConcurrentFactory(t *testing.T) {
	r := vf.Start(t, "C18")
	vf.Check(r, genConcCase, checkConc)
}
