package c18

import (
	"errors"
	"fmt"
	"strings"
	"sync"
	"testing"

	"verif/harness/internal/pand"
	"verif/harness/internal/vf"

	"github.com/yandex/pandora/core/register"
	"pgregory.net/rapid"
)

// The real config path: components registered on the GLOBAL registry (the one
// the pluginconfig hooks consult), created by decoding `{type: name, ...settings}`
// with pandora's decoder into fields of interface type and of factory func type.

var gDefault = Conf{S: "dflt", N: 7}

const (
	gFailCtor = "FAILCTOR" // value of `s` that makes constructors with an error result fail
	gFailFac  = "FAILFAC"  // value of `s` that makes registered factories with an error result fail
	// either of them may carry a suffix saying what the failing call returns BESIDE the error (nothing: nil)
	gBesideValue    = "+VALUE"    // a non-nil first result (a half-built component; factory constructors: a working factory)
	gBesideTypedNil = "+TYPEDNIL" // interface results: an interface holding a nil *Impl
)

// gFails: does the setting `s` order the failure `marker` (gFailCtor / gFailFac), and with what beside the error.
func gFails(s, marker string) (fails bool, beside string) {
	if !strings.HasPrefix(s, marker) {
		return false, besideNil
	}
	switch s[len(marker):] {
	case gBesideValue:
		return true, besideValue
	case gBesideTypedNil:
		return true, besideTypedNil
	}
	return true, besideNil
}

// gBesideImpl: the *Impl a failing call returns beside its error (never one of g.impls).
func gBesideImpl(beside, typ string, conf *Conf) *Impl {
	if beside == besideValue {
		return &Impl{conf: conf, serial: -1, owner: typ + " (returned beside an error)"}
	}
	return nil
}

// gBesideComp: the same for calls whose result type is the interface: nil, a value, or a typed nil.
func gBesideComp(beside, typ string, conf *Conf) Comp {
	if beside == besideNil {
		return nil
	}
	return gBesideImpl(beside, typ, conf) // besideTypedNil: a Comp holding (*Impl)(nil)
}

var (
	errGCtor = errors.New("c18 global constructor failed")
	errGFac  = errors.New("c18 global factory failed")
)

type gCall struct {
	typ  string
	conf *Conf
	snap Conf
}

// global recording state; the tests of this package run sequentially.
var g struct {
	mu    sync.Mutex
	ctors []gCall
	facs  int
	impls []*Impl
}

func gReset() {
	g.mu.Lock()
	g.ctors, g.facs, g.impls = nil, 0, nil
	g.mu.Unlock()
}

func gCtor(typ string, conf *Conf) {
	g.mu.Lock()
	defer g.mu.Unlock()
	c := gCall{typ: typ, conf: conf}
	if conf != nil {
		c.snap = conf.clone()
	}
	g.ctors = append(g.ctors, c)
}

func gImpl(typ string, conf *Conf) *Impl {
	g.mu.Lock()
	defer g.mu.Unlock()
	p := &Impl{conf: conf, serial: len(g.impls), owner: typ}
	g.impls = append(g.impls, p)
	return p
}

type gType struct {
	Name       string
	Kind       string // component | factory
	HasConf    bool
	HasDefault bool
	CtorErr    bool // constructor can fail (s == FAILCTOR)
	FacErr     bool // registered factory can fail (s == FAILFAC)
	Concrete   bool // the (component) constructor's declared result is *Impl, not an interface: it has no typed nil
	// Strict: the config type is StrictConf, whose validate rules the registered default (the zero config when
	// there is none) does NOT satisfy: the user has to override `s` and / or `n` (cf. the guns' required `target`).
	Strict bool
	Def    Conf // what the registered default-config function returns (Strict types; the others return gDefault)
}

// StrictConf is Conf with rules a default does not pass by itself (struct tags aside the types are identical, so
// a *StrictConf converts to *Conf).
type StrictConf struct {
	S string            `config:"s" validate:"required"`
	N int               `config:"n" validate:"min=1,max=1000000"`
	L []string          `config:"l"`
	M map[string]string `config:"m"`
}

// strictValid is the model of StrictConf's rules for the values the generator produces.
func strictValid(c Conf) bool { return c.S != "" && c.N >= 1 && c.N <= 1000000 }

var (
	gDefNeedsS = Conf{N: 7}      // no default for the required `s`
	gDefNeedsN = Conf{S: "dflt"} // `n` must be >= 1
)

var gTypes = []gType{
	{Name: "c18/component-struct-default", Kind: "component", HasConf: true, HasDefault: true},
	{Name: "c18/component-ptr-default-err", Kind: "component", HasConf: true, HasDefault: true, CtorErr: true, Concrete: true},
	{Name: "c18/component-struct-nodefault", Kind: "component", HasConf: true},
	{Name: "c18/component-noconf", Kind: "component"},
	{Name: "c18/factory-ptr-default-err", Kind: "factory", HasConf: true, HasDefault: true, CtorErr: true, FacErr: true},
	{Name: "c18/factory-struct-nodefault", Kind: "factory", HasConf: true},
	{Name: "c18/component-ptr-nodefault", Kind: "component", HasConf: true},
	// every constructor shape again, with defaults that need overriding (index 7 and up)
	{Name: "c18/strict-component-struct-default", Kind: "component", HasConf: true, HasDefault: true, Strict: true, Def: gDefNeedsS},
	{Name: "c18/strict-component-ptr-default-err", Kind: "component", HasConf: true, HasDefault: true, CtorErr: true, Strict: true, Def: gDefNeedsN},
	{Name: "c18/strict-component-struct-nodefault-err", Kind: "component", HasConf: true, CtorErr: true, Strict: true, Concrete: true},
	{Name: "c18/strict-component-ptr-nodefault", Kind: "component", HasConf: true, Strict: true},
	{Name: "c18/strict-factory-ptr-default-err", Kind: "factory", HasConf: true, HasDefault: true, CtorErr: true, FacErr: true, Strict: true, Def: gDefNeedsS},
	{Name: "c18/strict-factory-struct-default", Kind: "factory", HasConf: true, HasDefault: true, Strict: true, Def: gDefNeedsN},
	{Name: "c18/strict-factory-struct-nodefault", Kind: "factory", HasConf: true, Strict: true},
	{Name: "c18/strict-factory-ptr-nodefault-err", Kind: "factory", HasConf: true, CtorErr: true, FacErr: true, Strict: true},
}

const gFirstStrict = 7

var gOnce sync.Once

func gRegister() {
	gOnce.Do(func() {
		pand.Init()
		var ptr *Comp
		defStruct := func() Conf { return gDefault.clone() }
		defPtr := func() *Conf { c := gDefault.clone(); return &c }
		register.RegisterPtr(ptr, gTypes[0].Name, func(c Conf) Comp {
			gCtor(gTypes[0].Name, &c)
			return gImpl(gTypes[0].Name, &c)
		}, defStruct)
		register.RegisterPtr(ptr, gTypes[1].Name, func(c *Conf) (*Impl, error) {
			gCtor(gTypes[1].Name, c)
			if fails, beside := gFails(c.S, gFailCtor); fails {
				return gBesideImpl(beside, gTypes[1].Name, c), errGCtor
			}
			return gImpl(gTypes[1].Name, c), nil
		}, defPtr)
		register.RegisterPtr(ptr, gTypes[2].Name, func(c Conf) Wider {
			gCtor(gTypes[2].Name, &c)
			return gImpl(gTypes[2].Name, &c)
		})
		register.RegisterPtr(ptr, gTypes[3].Name, func() Comp {
			gCtor(gTypes[3].Name, nil)
			return gImpl(gTypes[3].Name, nil)
		})
		register.RegisterPtr(ptr, gTypes[4].Name, func(c *Conf) (func() (Comp, error), error) {
			gCtor(gTypes[4].Name, c)
			fac := func() (Comp, error) {
				g.mu.Lock()
				g.facs++
				g.mu.Unlock()
				if fails, beside := gFails(c.S, gFailFac); fails {
					return gBesideComp(beside, gTypes[4].Name, c), errGFac
				}
				own := c.clone()
				return gImpl(gTypes[4].Name, &own), nil
			}
			if fails, beside := gFails(c.S, gFailCtor); fails {
				if beside == besideValue {
					return fac, errGCtor
				}
				return nil, errGCtor
			}
			return fac, nil
		}, defPtr)
		register.RegisterPtr(ptr, gTypes[5].Name, func(c Conf) func() Comp {
			gCtor(gTypes[5].Name, &c)
			return func() Comp {
				g.mu.Lock()
				g.facs++
				g.mu.Unlock()
				own := c.clone()
				return gImpl(gTypes[5].Name, &own)
			}
		})
		register.RegisterPtr(ptr, gTypes[6].Name, func(c *Conf) Comp {
			gCtor(gTypes[6].Name, c)
			if c == nil {
				return gImpl(gTypes[6].Name, nil)
			}
			return gImpl(gTypes[6].Name, c)
		})
		gRegisterStrict()
	})
}

// gRegisterStrict registers gTypes[gFirstStrict:]: the constructor shapes {component, factory} x {struct, pointer
// config} x {default-config function or none} x {with / without error results}, all on StrictConf.
func gRegisterStrict() {
	var ptr *Comp
	for i := gFirstStrict; i < len(gTypes); i++ {
		if !gTypes[i].Strict || !gTypes[i].HasConf {
			panic("c18 harness: gTypes order changed")
		}
	}
	t := func(k int) gType { return gTypes[gFirstStrict+k] }
	defStruct := func(d Conf) func() StrictConf { return func() StrictConf { return StrictConf(d.clone()) } }
	defPtr := func(d Conf) func() *StrictConf {
		return func() *StrictConf { c := StrictConf(d.clone()); return &c }
	}
	facOf := func(ty gType, c *Conf) func() (Comp, error) {
		return func() (Comp, error) {
			g.mu.Lock()
			g.facs++
			g.mu.Unlock()
			if fails, beside := gFails(c.S, gFailFac); ty.FacErr && fails {
				return gBesideComp(beside, ty.Name, c), errGFac
			}
			own := c.clone()
			return gImpl(ty.Name, &own), nil
		}
	}
	// components
	register.RegisterPtr(ptr, t(0).Name, func(sc StrictConf) Comp {
		c := (*Conf)(&sc)
		gCtor(t(0).Name, c)
		return gImpl(t(0).Name, c)
	}, defStruct(t(0).Def))
	register.RegisterPtr(ptr, t(1).Name, func(sc *StrictConf) (Comp, error) {
		c := (*Conf)(sc)
		gCtor(t(1).Name, c)
		if fails, beside := gFails(c.S, gFailCtor); fails {
			return gBesideComp(beside, t(1).Name, c), errGCtor
		}
		return gImpl(t(1).Name, c), nil
	}, defPtr(t(1).Def))
	register.RegisterPtr(ptr, t(2).Name, func(sc StrictConf) (*Impl, error) {
		c := (*Conf)(&sc)
		gCtor(t(2).Name, c)
		if fails, beside := gFails(c.S, gFailCtor); fails {
			return gBesideImpl(beside, t(2).Name, c), errGCtor
		}
		return gImpl(t(2).Name, c), nil
	})
	register.RegisterPtr(ptr, t(3).Name, func(sc *StrictConf) Wider {
		c := (*Conf)(sc)
		gCtor(t(3).Name, c)
		return gImpl(t(3).Name, c)
	})
	// factories
	register.RegisterPtr(ptr, t(4).Name, func(sc *StrictConf) (func() (Comp, error), error) {
		c := (*Conf)(sc)
		gCtor(t(4).Name, c)
		if fails, beside := gFails(c.S, gFailCtor); fails {
			if beside == besideValue {
				return facOf(t(4), c), errGCtor
			}
			return nil, errGCtor
		}
		return facOf(t(4), c), nil
	}, defPtr(t(4).Def))
	register.RegisterPtr(ptr, t(5).Name, func(sc StrictConf) func() Comp {
		c := (*Conf)(&sc)
		gCtor(t(5).Name, c)
		f := facOf(t(5), c)
		return func() Comp { p, _ := f(); return p }
	}, defStruct(t(5).Def))
	register.RegisterPtr(ptr, t(6).Name, func(sc StrictConf) func() Comp {
		c := (*Conf)(&sc)
		gCtor(t(6).Name, c)
		f := facOf(t(6), c)
		return func() Comp { p, _ := f(); return p }
	})
	register.RegisterPtr(ptr, t(7).Name, func(sc *StrictConf) (func() (Comp, error), error) {
		c := (*Conf)(sc)
		gCtor(t(7).Name, c)
		if fails, beside := gFails(c.S, gFailCtor); fails {
			if beside == besideValue {
				return facOf(t(7), c), errGCtor
			}
			return nil, errGCtor
		}
		return facOf(t(7), c), nil
	})
}

type ConfigCase struct {
	Type     int      `json:"type"`  // index into gTypes
	Field    string   `json:"field"` // component | factory_err | factory_noerr : type of the decoded struct field
	Settings Settings `json:"settings"`
	Bad      string   `json:"bad"`       // "" | unknown_key | wrong_type | validation | ctor_fail | fac_fail
	TypeKey  string   `json:"type_key"`  // spelling of the `type` key
	YAMLKeys bool     `json:"yaml_keys"` // map[interface{}]interface{} as the YAML decoder produces
	Products int      `json:"products"`
	Mutate   []bool   `json:"mutate"` // product i scribbles over its config
	// Section (Strict types): type_only = the plugin section holds nothing but the type key | overriding = it sets
	// at least what the default lacks | "" = whatever Settings says
	Section string `json:"section,omitempty"`
	// NamedField (factory fields): the field has the DEFINED func type CompFactory / CompFactoryNoErr
	NamedField bool `json:"named_field,omitempty"`
	// Beside (ctor_fail, fac_fail): what the failing call returns together with its error: "" | value | typednil
	Beside string `json:"beside,omitempty"`
}

func genConfigCase(t *rapid.T) ConfigCase {
	c := ConfigCase{}
	c.Type = rapid.IntRange(0, len(gTypes)-1).Draw(t, "type")
	ty := gTypes[c.Type]
	c.Field = rapid.SampledFrom([]string{"component", "factory_err", "factory_err", "factory_noerr", "factory_noerr"}).Draw(t, "field")
	if ty.HasConf {
		c.Settings = genSettings(t, "settings")
	}
	if ty.Strict {
		// what the user wrote decides whether the registered default is good enough: nothing but the type, the
		// options the default lacks (and maybe more), or any subset of the options
		c.Section = rapid.SampledFrom([]string{"type_only", "overriding", "overriding", ""}).Draw(t, "section")
		switch c.Section {
		case "type_only":
			c.Settings = Settings{}
		case "overriding":
			if !c.Settings.SetS {
				c.Settings.SetS, c.Settings.S = true, word.Draw(t, "overrideS")+"!"
			}
			if !c.Settings.SetN {
				c.Settings.SetN, c.Settings.N = true, rapid.IntRange(1, 200).Draw(t, "overrideN")
			}
		}
	}
	bads := []string{"", "", "", "", "unknown_key"}
	if ty.HasConf {
		bads = append(bads, "wrong_type", "validation")
	}
	if ty.CtorErr {
		bads = append(bads, "ctor_fail", "ctor_fail")
	}
	if ty.FacErr {
		bads = append(bads, "fac_fail", "fac_fail", "fac_fail")
	}
	if c.Section == "type_only" {
		bads = []string{""} // nothing else in the section
	}
	c.Bad = rapid.SampledFrom(bads).Draw(t, "bad")
	if c.Bad == "ctor_fail" || c.Bad == "fac_fail" {
		c.Beside = rapid.SampledFrom([]string{besideNil, besideValue, besideValue, besideTypedNil}).Draw(t, "beside")
	}
	if c.Field != "component" {
		c.NamedField = oneIn(t, 3, "namedField")
	}
	c.TypeKey = rapid.SampledFrom([]string{"type", "type", "type", "Type", "TYPE"}).Draw(t, "typeKey")
	c.YAMLKeys = rapid.Bool().Draw(t, "yamlKeys")
	c.Products = rapid.IntRange(1, 5).Draw(t, "products")
	for i := 0; i < c.Products; i++ {
		c.Mutate = append(c.Mutate, rapid.IntRange(0, 3).Draw(t, fmt.Sprintf("mutate%d", i)) >= 2)
	}
	return c
}

// pluginData renders the `{type: name, ...settings}` map (fresh on every call: the hook edits it).
func (c ConfigCase) pluginData() any {
	ty := gTypes[c.Type]
	m := map[string]any{c.TypeKey: ty.Name}
	s := c.Settings
	if s.SetS {
		m["s"] = s.S
	}
	if s.SetN {
		m["n"] = s.N
	}
	if s.SetL {
		l := make([]any, 0, len(s.L))
		for _, x := range s.L {
			l = append(l, x)
		}
		m["l"] = l
	}
	if s.SetM {
		mm := map[string]any{}
		for k, v := range s.M {
			mm[k] = v
		}
		m["m"] = mm
	}
	switch c.Bad {
	case "unknown_key":
		m["no_such_setting"] = 1
	case "wrong_type":
		m["n"] = "not-a-number"
	case "validation":
		m["n"] = 1000001 // Conf.N carries validate:"max=1000000"
	case "ctor_fail":
		m["s"] = gFailCtor + c.besideSuffix()
	case "fac_fail":
		m["s"] = gFailFac + c.besideSuffix()
	}
	if !c.YAMLKeys {
		return m
	}
	y := map[any]any{}
	for k, v := range m {
		y[k] = v
	}
	return y
}

func (c ConfigCase) besideSuffix() string {
	switch c.Beside {
	case besideValue:
		return gBesideValue
	case besideTypedNil:
		return gBesideTypedNil
	}
	return ""
}

// effectiveBeside: what the failing call really returns beside its error (a func or a *Impl result has no typed nil).
func (c ConfigCase) effectiveBeside() string {
	ty := gTypes[c.Type]
	if c.Beside == besideTypedNil && c.Bad == "ctor_fail" && (ty.Kind == "factory" || ty.Concrete) {
		return besideNil
	}
	return c.Beside
}

func (c ConfigCase) expected() Conf {
	ty := gTypes[c.Type]
	exp := Conf{}
	if ty.HasDefault {
		exp = gDefault.clone()
		if ty.Strict {
			exp = ty.Def.clone()
		}
	}
	c.Settings.apply(&exp)
	return exp
}

// defaultInvalid: the registered default overlaid by the section does not pass the config's validate rules.
func (c ConfigCase) defaultInvalid() bool {
	ty := gTypes[c.Type]
	if !ty.Strict {
		return false
	}
	eff := c.expected()
	if c.Bad == "ctor_fail" || c.Bad == "fac_fail" {
		eff.S = gFailCtor // those set `s`
	}
	return !strictValid(eff)
}

func (c ConfigCase) badText() string {
	if c.defaultInvalid() {
		ty := gTypes[c.Type]
		d := "no default-config function"
		if ty.HasDefault {
			d = fmt.Sprintf("registered default %+v", ty.Def)
		}
		return fmt.Sprintf("%s %s; %s, section sets %+v: breaks validate rules s required, n min=1", c.Bad, c.Section, d, c.Settings)
	}
	return c.Bad
}

func checkConfig(c ConfigCase, o *vf.Obs) error {
	gRegister()
	if c.Type < 0 || c.Type >= len(gTypes) {
		return fmt.Errorf("harness: no type #%d", c.Type)
	}
	ty := gTypes[c.Type]
	gReset()
	exp := c.expected()
	// Is the failure the case plans expressible for this type? (replay files may carry anything)
	defaultInvalid := c.defaultInvalid()
	failing := c.Bad != "" || defaultInvalid
	if c.Section == "type_only" && (c.Bad != "" || c.Settings.SetS || c.Settings.SetN || c.Settings.SetL || c.Settings.SetM) {
		return fmt.Errorf("harness: a type-only section with settings: %+v", c)
	}
	if (c.Bad == "ctor_fail" && !ty.CtorErr) || (c.Bad == "fac_fail" && !ty.FacErr) || ((c.Bad == "wrong_type" || c.Bad == "validation") && !ty.HasConf) {
		return fmt.Errorf("harness: fault %q cannot be expressed for %s", c.Bad, ty.Name)
	}
	if !besideValid(c.Beside) || (c.Beside != besideNil && c.Bad != "ctor_fail" && c.Bad != "fac_fail") {
		return fmt.Errorf("harness: beside %q with fault %q", c.Beside, c.Bad)
	}
	if c.NamedField && c.Field == "component" {
		return fmt.Errorf("harness: a component field has no named factory type")
	}
	input := map[string]any{"p": c.pluginData()}

	checkImpl := func(what string, v any) (*Impl, error) {
		p, ok := v.(*Impl)
		if !ok || p == nil {
			return nil, fmt.Errorf("%s: got %T, expected the registered component", what, v)
		}
		if p.owner != ty.Name {
			return nil, fmt.Errorf("%s: got a component built by %q, asked for %q", what, p.owner, ty.Name)
		}
		if ty.HasConf {
			if p.conf == nil || !confEqual(*p.conf, exp) {
				return nil, fmt.Errorf("%s: component configured with %v, expected registered default overlaid by the settings = %v", what, p.conf, exp)
			}
		}
		return p, nil
	}
	// where may a planned failure surface, and as what
	surfaced := false
	var atProductPanic, atProductResult, mutated bool
	expectErr := func(what string, err error, want error) error {
		if err == nil {
			return nil
		}
		if !failing {
			return fmt.Errorf("%s failed although the config is valid: %v", what, err)
		}
		if want != nil && !errors.Is(err, want) && !strings.Contains(err.Error(), want.Error()) {
			return fmt.Errorf("%s failed with %q, expected it to carry %q", what, err, want)
		}
		surfaced = true
		return nil
	}
	var wantErr error
	switch c.Bad {
	case "ctor_fail":
		wantErr = errGCtor
	case "fac_fail":
		wantErr = errGFac
	}
	if defaultInvalid {
		wantErr = nil // the config error comes first: no constructor may run on a config that breaks its rules
	}

	if c.Field == "component" {
		var dst struct {
			P Comp `config:"p"`
		}
		o1 := guarded(func() (any, error) { return nil, pand.Decode(input, &dst) })
		if o1.panicked {
			return fmt.Errorf("Decode panicked: %v\n%s", o1.panicVal, o1.stack)
		}
		if err := expectErr("Decode into a component field", o1.err, wantErr); err != nil {
			return err
		}
		if failing {
			if !surfaced {
				return fmt.Errorf("Decode into a component field succeeded (component %v) although the plugin config is bad (%s)", dst.P, c.badText())
			}
			o.Class("config_error_at_decode")
		} else {
			if _, err := checkImpl("decoded component", dst.P); err != nil {
				return err
			}
			if len(g.ctors) != 1 || len(g.impls) != 1 {
				return fmt.Errorf("one component decoded, but %d constructor calls built %d components", len(g.ctors), len(g.impls))
			}
		}
	} else {
		viaPanic := c.Field == "factory_noerr"
		var call func() outcome
		var o1 outcome
		switch {
		case viaPanic && c.NamedField:
			var dst struct {
				P CompFactoryNoErr `config:"p"`
			}
			o1 = guarded(func() (any, error) { return nil, pand.Decode(input, &dst) })
			call = func() outcome { return guarded(func() (any, error) { return dst.P(), nil }) }
			if o1.err == nil && !o1.panicked && dst.P == nil {
				return fmt.Errorf("Decode succeeded but left the factory field (of a defined func type) nil")
			}
		case c.NamedField:
			var dst struct {
				P CompFactory `config:"p"`
			}
			o1 = guarded(func() (any, error) { return nil, pand.Decode(input, &dst) })
			call = func() outcome {
				return guarded(func() (any, error) {
					v, err := dst.P()
					return v, err
				})
			}
			if o1.err == nil && !o1.panicked && dst.P == nil {
				return fmt.Errorf("Decode succeeded but left the factory field (of a defined func type) nil")
			}
		case viaPanic:
			var dst struct {
				P func() Comp `config:"p"`
			}
			o1 = guarded(func() (any, error) { return nil, pand.Decode(input, &dst) })
			call = func() outcome { return guarded(func() (any, error) { return dst.P(), nil }) }
			if o1.err == nil && !o1.panicked && dst.P == nil {
				return fmt.Errorf("Decode succeeded but left the factory field nil")
			}
		default:
			var dst struct {
				P func() (Comp, error) `config:"p"`
			}
			o1 = guarded(func() (any, error) { return nil, pand.Decode(input, &dst) })
			call = func() outcome {
				return guarded(func() (any, error) {
					v, err := dst.P()
					return v, err
				})
			}
			if o1.err == nil && !o1.panicked && dst.P == nil {
				return fmt.Errorf("Decode succeeded but left the factory field nil")
			}
		}
		if o1.panicked {
			return fmt.Errorf("Decode panicked: %v\n%s", o1.panicVal, o1.stack)
		}
		if err := expectErr("Decode into a factory field", o1.err, wantErr); err != nil {
			return err
		}
		if o1.err != nil {
			o.Class("config_error_at_decode")
		} else {
			if ty.Kind == "factory" && len(g.ctors) != 1 {
				return fmt.Errorf("factory constructor ran %d times at decode, expected once", len(g.ctors))
			}
			if ty.Kind == "component" && len(g.ctors) != 0 {
				return fmt.Errorf("component constructor ran %d times although only a factory was decoded", len(g.ctors))
			}
			var got []*Impl
			for i := 0; i < c.Products; i++ {
				what := fmt.Sprintf("product #%d of the decoded factory", i)
				po := call()
				if failing {
					// the error must reach the caller: as the error result, or as a panic carrying it when there is none
					if viaPanic {
						if !po.panicked {
							return fmt.Errorf("%s was delivered (%v) although the plugin config is bad (%s): error lost", what, po.val, c.badText())
						}
						pe, ok := po.panicVal.(error)
						if !ok {
							return fmt.Errorf("%s panicked with %#v, expected a panic carrying the error", what, po.panicVal)
						}
						if err := expectErr(what, pe, wantErr); err != nil {
							return err
						}
						atProductPanic = true
					} else {
						if po.panicked {
							return fmt.Errorf("%s panicked (%v) although the factory type has an error result\n%s", what, po.panicVal, po.stack)
						}
						if po.err == nil {
							return fmt.Errorf("%s was delivered (%v) although the plugin config is bad (%s): error lost", what, po.val, c.badText())
						}
						if err := expectErr(what, po.err, wantErr); err != nil {
							return err
						}
						atProductResult = true
					}
					continue
				}
				if po.panicked {
					return fmt.Errorf("%s panicked: %v\n%s", what, po.panicVal, po.stack)
				}
				if po.err != nil {
					return fmt.Errorf("%s failed although the config is valid: %v", what, po.err)
				}
				p, err := checkImpl(what, po.val)
				if err != nil {
					return err
				}
				for _, q := range got {
					if q == p {
						return fmt.Errorf("%s is the same object as an earlier product", what)
					}
					if p.conf != nil && q.conf == p.conf {
						return fmt.Errorf("%s shares its config object with product #%d", what, q.serial)
					}
				}
				got = append(got, p)
				if i < len(c.Mutate) && c.Mutate[i] && p.conf != nil {
					mutateConf(p.conf)
					p.mutated = true
					mutated = true
				}
			}
			if !failing {
				for _, p := range got {
					if p.conf != nil && !p.mutated && !confEqual(*p.conf, exp) {
						return fmt.Errorf("config of product #%d changed to %v (expected %v) after other products mutated their own config", p.serial, *p.conf, exp)
					}
				}
				if ty.Kind == "component" && len(g.ctors) != c.Products {
					return fmt.Errorf("%d products made, the component constructor ran %d times", c.Products, len(g.ctors))
				}
				if ty.Kind == "factory" && (len(g.ctors) != 1 || g.facs != c.Products) {
					return fmt.Errorf("%d products made: factory constructor ran %d times (expected 1), registered factory %d times", c.Products, len(g.ctors), g.facs)
				}
				if ty.Kind == "component" && ty.HasConf {
					for _, call := range g.ctors {
						if !confEqual(call.snap, exp) {
							return fmt.Errorf("constructor received config %v, expected %v", call.snap, exp)
						}
					}
				}
			}
		}
	}
	o.Class("type_"+strings.TrimPrefix(ty.Name, "c18/"), "field_"+c.Field)
	o.ClassIf(c.Bad != "", "bad_"+c.Bad)
	if defaultInvalid {
		o.Class("default_config_invalid")
		o.ClassIf(c.Section == "type_only", "default_invalid_type_only_section")
		o.ClassIf(c.Section != "type_only", "default_invalid_partly_overridden")
		o.Class("default_invalid_" + ty.Kind + "_" + c.Field)
	}
	o.ClassIf(ty.Strict && !failing, "default_invalid_overridden_by_section")
	o.ClassIf(c.YAMLKeys, "yaml_style_keys")
	o.ClassIf(c.NamedField, "field_of_named_factory_type")
	o.ClassIf(c.NamedField && ty.Kind == "factory", "field_of_named_factory_type_factory_constructor")
	o.ClassIf(c.NamedField && c.Products >= 1 && !failing, "field_of_named_factory_type_products_made")
	if eb := c.effectiveBeside(); eb != besideNil && !defaultInvalid {
		o.Class("error_beside_nonnil_result")
		o.ClassIf(eb == besideTypedNil, "error_beside_typed_nil")
		o.ClassIf(c.Field == "component", "error_beside_nonnil_result_component_field")
		o.ClassIf(c.Field != "component", "error_beside_nonnil_result_factory_field")
	}
	o.ClassIf(atProductPanic, "config_error_as_panic_at_product")
	o.ClassIf(atProductResult, "config_error_as_result_at_product")
	o.ClassIf(mutated, "config_mutated_by_product")
	o.ClassIf(c.Products >= 2 && c.Field != "component" && !failing, "factory_with_2plus_products")
	set := c.Settings
	o.ClassIf(ty.HasDefault && (set.SetS || set.SetN || set.SetL || set.SetM) && !(set.SetS && set.SetN && set.SetL && set.SetM), "partial_overlay_of_default")
	if failing || (c.Field != "component" && c.Products >= 2) {
		o.NonTrivial()
	}
	return nil
}

func TestConfigPath(t *testing.T) {
	r := vf.Start(t, "C18")
	vf.Check(r, genConfigCase, checkConfig)
}
