// Package schedgen generates schedule trees and keeps a flattened reference
// model of them ("manual chaining": leaf j starts at the finish of leaf j-1).
package schedgen

import (
	"fmt"
	"time"

	"github.com/yandex/pandora/core"
	"github.com/yandex/pandora/core/schedule"
	"pgregory.net/rapid"
)

// Node is a JSON-serialisable schedule tree.
type Node struct {
	Kind     string  `json:"kind"` // once const line step istep unlimited composite
	N        int64   `json:"n,omitempty"`
	From     float64 `json:"from,omitempty"`
	To       float64 `json:"to,omitempty"`
	Step     int64   `json:"step,omitempty"`
	DurNs    int64   `json:"dur_ns,omitempty"`
	Children []Node  `json:"children,omitempty"`
	// OmitTo (istep with To == 0 only): ConfigMap leaves the `to` key out, as a
	// user who wants "just `from` instances" would; the decoded value is 0 too.
	OmitTo bool `json:"omit_to,omitempty"`
}

// Leaf is one flattened elementary part.
type Leaf struct {
	Kind  string // once const line unlimited
	N     int64
	From  float64
	To    float64
	DurNs int64
}

func (l Leaf) Unknown() bool { return l.Kind == "unlimited" }

// Build constructs the real schedule through pandora's constructors.
func Build(n Node) core.Schedule {
	d := time.Duration(n.DurNs)
	switch n.Kind {
	case "once":
		return schedule.NewOnce(n.N)
	case "const":
		return schedule.NewConst(n.From, d)
	case "line":
		return schedule.NewLine(n.From, n.To, d)
	case "step":
		return schedule.NewStep(n.From, n.To, n.Step, d)
	case "istep":
		return schedule.NewInstanceStep(int64(n.From), int64(n.To), n.Step, d)
	case "unlimited":
		return schedule.NewUnlimited(d)
	case "composite":
		var cs []core.Schedule
		for _, c := range n.Children {
			cs = append(cs, Build(c))
		}
		return schedule.NewComposite(cs...)
	}
	panic("bad kind " + n.Kind)
}

// ConfigMap renders the node as a pandora config value (map or list).
func ConfigMap(n Node) any {
	dur := time.Duration(n.DurNs).String()
	switch n.Kind {
	case "once":
		return map[string]any{"type": "once", "times": n.N}
	case "const":
		return map[string]any{"type": "const", "ops": n.From, "duration": dur}
	case "line":
		return map[string]any{"type": "line", "from": n.From, "to": n.To, "duration": dur}
	case "step":
		return map[string]any{"type": "step", "from": n.From, "to": n.To, "step": n.Step, "duration": dur}
	case "istep":
		if n.OmitTo && int64(n.To) == 0 {
			return map[string]any{"type": "instance_step", "from": int64(n.From), "step": n.Step, "stepduration": dur}
		}
		return map[string]any{"type": "instance_step", "from": int64(n.From), "to": int64(n.To), "step": n.Step, "stepduration": dur}
	case "unlimited":
		return map[string]any{"type": "unlimited", "duration": dur}
	case "composite":
		var l []any
		for _, c := range n.Children {
			l = append(l, ConfigMap(c))
		}
		if l == nil {
			l = []any{}
		}
		return l
	}
	panic("bad kind")
}

// ConfigOK reports whether the tree is expressible through config validation
// (once needs times>=1).
func ConfigOK(n Node) bool {
	switch n.Kind {
	case "once":
		return n.N >= 1
	case "composite":
		for _, c := range n.Children {
			if !ConfigOK(c) {
				return false
			}
		}
	}
	return true
}

// Flatten expands the tree into elementary leaves by the documented meaning of
// step (one const per level from, from+step, ... <= to) and instance_step
// (`from` at once, then every step-duration `step` more, while <= to).
func Flatten(n Node) []Leaf {
	switch n.Kind {
	case "once":
		return []Leaf{{Kind: "once", N: n.N}}
	case "const":
		return []Leaf{{Kind: "const", From: n.From, To: n.From, DurNs: n.DurNs}}
	case "line":
		return []Leaf{{Kind: "line", From: n.From, To: n.To, DurNs: n.DurNs}}
	case "unlimited":
		return []Leaf{{Kind: "unlimited", DurNs: n.DurNs}}
	case "step":
		var out []Leaf
		if n.From == n.To {
			return []Leaf{{Kind: "const", From: n.From, To: n.From, DurNs: n.DurNs}}
		}
		for lv := n.From; lv <= n.To; lv += float64(n.Step) { // generator keeps these integers: exact
			out = append(out, Leaf{Kind: "const", From: lv, To: lv, DurNs: n.DurNs})
		}
		return out
	case "istep":
		out := []Leaf{{Kind: "once", N: int64(n.From)}}
		for i := int64(n.From) + n.Step; i <= int64(n.To); i += n.Step {
			out = append(out, Leaf{Kind: "const", From: 0, To: 0, DurNs: n.DurNs})
			out = append(out, Leaf{Kind: "once", N: n.Step})
		}
		return out
	case "composite":
		var out []Leaf
		for _, c := range n.Children {
			out = append(out, Flatten(c)...)
		}
		return out
	}
	panic("bad kind")
}

// RefLeaf builds a fresh elementary schedule for a leaf (reference drain).
func RefLeaf(l Leaf) core.Schedule {
	d := time.Duration(l.DurNs)
	switch l.Kind {
	case "once":
		return schedule.NewOnce(l.N)
	case "const":
		return schedule.NewConst(l.From, d)
	case "line":
		return schedule.NewLine(l.From, l.To, d)
	case "unlimited":
		return schedule.NewUnlimited(d)
	}
	panic("bad leaf")
}

// Part is the reference result for one leaf in a chain.
type Part struct {
	Leaf   Leaf
	Start  time.Time
	Finish time.Time
	Tokens []time.Time // empty for unlimited
}

// Chain computes the manual-chaining reference: each finite leaf drained alone
// from the finish of its predecessor. Unlimited parts only get start/finish.
func Chain(leaves []Leaf, start time.Time) (parts []Part, finish time.Time, finiteTokens int, err error) {
	s := start
	for _, l := range leaves {
		p := Part{Leaf: l, Start: s}
		if l.Unknown() {
			p.Finish = s.Add(time.Duration(l.DurNs))
		} else {
			ref := RefLeaf(l)
			ref.Start(s)
			for i := 0; ; i++ {
				tx, ok := ref.Next()
				if !ok {
					p.Finish = tx
					break
				}
				if i > 2_000_000 {
					return nil, time.Time{}, 0, fmt.Errorf("reference leaf too long")
				}
				p.Tokens = append(p.Tokens, tx)
			}
			finiteTokens += len(p.Tokens)
		}
		parts = append(parts, p)
		s = p.Finish
	}
	return parts, s, finiteTokens, nil
}

// Opts bound the generated trees.
type Opts struct {
	MaxDepth    int
	MaxChildren int
	MaxLeafTok  int           // tokens per finite leaf
	Unlimited   bool          // allow unlimited leaves
	MaxDur      time.Duration // finite leaf duration bound
	MinDur      time.Duration
	Flat        bool // no leaf that is itself a composite (step, instance_step, empty composite)
	// IStepToBelowFrom also draws instance_step leaves whose `to` lies below
	// `from` (`to` omitted = 0, or copied smaller than `from`): config validation
	// only asks for to >= 0, and no step fits, so the profile is `from` tokens at
	// once and finishes at its own start. Off by default (draw sequence of the
	// other generators is unchanged); ignored with Flat.
	IStepToBelowFrom bool
}

func genDur(t *rapid.T, o Opts, label string) int64 {
	lo, hi := int64(o.MinDur), int64(o.MaxDur)
	if lo <= 0 {
		lo = int64(time.Millisecond)
	}
	if hi < lo {
		hi = lo
	}
	return rapid.Int64Range(lo/int64(time.Millisecond), hi/int64(time.Millisecond)).Draw(t, label) * int64(time.Millisecond)
}

// GenLeaf draws one leaf node.
func GenLeaf(t *rapid.T, o Opts) Node {
	kinds := []string{"once", "once", "const", "line", "step", "istep", "zero"}
	if o.Flat {
		kinds = []string{"once", "once", "const", "line", "zero"}
	}
	if o.Unlimited {
		kinds = append(kinds, "unlimited", "unlimited")
	}
	if o.IStepToBelowFrom && !o.Flat {
		kinds = append(kinds, "istep_below")
	}
	k := rapid.SampledFrom(kinds).Draw(t, "leafKind")
	maxTok := o.MaxLeafTok
	if maxTok < 1 {
		maxTok = 1
	}
	switch k {
	case "once":
		return Node{Kind: "once", N: int64(rapid.IntRange(0, maxTok).Draw(t, "times"))}
	case "zero":
		// zero-token parts of different shapes
		zk := 2
		if o.Flat {
			zk = 1
		}
		switch rapid.IntRange(0, zk).Draw(t, "zeroKind") {
		case 0:
			return Node{Kind: "once", N: 0}
		case 1:
			return Node{Kind: "const", From: 0, DurNs: genDur(t, o, "dur")}
		default:
			return Node{Kind: "composite"}
		}
	case "const":
		d := genDur(t, o, "dur")
		n := rapid.IntRange(0, maxTok).Draw(t, "tok")
		return Node{Kind: "const", From: rateFor(n, d), DurNs: d}
	case "line":
		d := genDur(t, o, "dur")
		n := rapid.IntRange(0, maxTok).Draw(t, "tok")
		// average rate n/d; split around it
		avg := rateFor(n, d)
		skew := rapid.Float64Range(0, 1).Draw(t, "skew")
		from, to := avg*2*skew, avg*2*(1-skew)
		return Node{Kind: "line", From: from, To: to, DurNs: d}
	case "step":
		d := genDur(t, o, "dur")
		levels := rapid.IntRange(1, 3).Draw(t, "levels")
		step := int64(rapid.IntRange(1, 3).Draw(t, "step"))
		// integer rates in tokens per duration: scale so level tokens stay small
		per := float64(time.Second) / float64(d) // rate giving 1 token per duration
		_ = per
		from := float64(rapid.IntRange(0, 3).Draw(t, "from"))
		to := from + float64(int64(levels-1)*step)
		return Node{Kind: "step", From: from, To: to, Step: step, DurNs: stepDur(t, from, to, maxTok, o)}
	case "istep":
		from := int64(rapid.IntRange(0, 3).Draw(t, "from"))
		step := int64(rapid.IntRange(1, 3).Draw(t, "step"))
		cnt := rapid.IntRange(0, 3).Draw(t, "cnt")
		to := from + int64(cnt)*step + int64(rapid.IntRange(0, int(step)-1).Draw(t, "slack"))
		return Node{Kind: "istep", From: float64(from), To: float64(to), Step: step, DurNs: genDur(t, o, "dur")}
	case "unlimited":
		return Node{Kind: "unlimited", DurNs: genDur(t, o, "dur")}
	case "istep_below":
		return GenIStepToBelowFrom(t, o)
	}
	panic("unreachable")
}

// GenIStepToBelowFrom draws an instance_step leaf with 0 <= to < from: `to`
// omitted (0), anywhere below `from`, or less than one step below it.
func GenIStepToBelowFrom(t *rapid.T, o Opts) Node {
	maxTok := o.MaxLeafTok
	if maxTok < 1 {
		maxTok = 1
	}
	from := int64(rapid.IntRange(1, maxTok).Draw(t, "from"))
	step := int64(rapid.IntRange(1, 4).Draw(t, "step"))
	n := Node{Kind: "istep", From: float64(from), Step: step, DurNs: genDur(t, o, "dur")}
	switch rapid.IntRange(0, 3).Draw(t, "toKind") {
	case 0:
		n.OmitTo = true // to == 0
	case 1: // to == 0 spelled out
	case 2:
		n.To = float64(rapid.Int64Range(0, from-1).Draw(t, "to"))
	default: // less than one step below (when from allows)
		lo := from - step + 1
		if lo < 0 || lo > from-1 { // step == 1: nothing is "less than a step below"
			lo = 0
		}
		n.To = float64(rapid.Int64Range(lo, from-1).Draw(t, "to"))
	}
	return n
}

// IStepToBelowFrom reports whether n is an instance_step node with to < from.
func IStepToBelowFrom(n Node) bool {
	return n.Kind == "istep" && int64(n.To) < int64(n.From)
}

// stepDur picks a duration so that the top level yields at most maxTok tokens.
func stepDur(t *rapid.T, from, to float64, maxTok int, o Opts) int64 {
	d := genDur(t, o, "dur")
	top := to
	if top < 1 {
		top = 1
	}
	// tokens at top level = top * d seconds
	maxD := int64(float64(maxTok) / top * float64(time.Second))
	if maxD < int64(time.Millisecond) {
		maxD = int64(time.Millisecond)
	}
	if d > maxD {
		d = maxD / int64(time.Millisecond) * int64(time.Millisecond)
		if d < int64(time.Millisecond) {
			d = int64(time.Millisecond)
		}
	}
	return d
}

func rateFor(n int, durNs int64) float64 {
	if n == 0 {
		return 0
	}
	// slightly above n/d so that floor(rate*d) == n despite float noise
	return (float64(n) + 0.25) / (float64(durNs) / 1e9)
}

// GenTree draws a tree.
func GenTree(t *rapid.T, o Opts, depth int) Node {
	if depth >= o.MaxDepth || rapid.IntRange(0, 3).Draw(t, "isLeaf") == 0 {
		return GenLeaf(t, o)
	}
	n := rapid.IntRange(0, o.MaxChildren).Draw(t, "children")
	node := Node{Kind: "composite"}
	for i := 0; i < n; i++ {
		node.Children = append(node.Children, GenTree(t, o, depth+1))
	}
	return node
}

// Depth returns the nesting depth (a leaf is 0).
func Depth(n Node) int {
	d := 0
	for _, c := range n.Children {
		if x := Depth(c) + 1; x > d {
			d = x
		}
	}
	return d
}
