// Package provrun builds real ammo providers through pandora's config path and
// drains them under a watchdog.
package provrun

import (
	"context"
	"fmt"
	"sync"
	"time"

	"verif/harness/internal/pand"

	"github.com/yandex/pandora/core"
)

// Build decodes a provider config map (type + options) into a real provider.
func Build(conf map[string]any) (core.Provider, error) {
	var holder struct {
		P core.Provider `config:"p"`
	}
	if err := pand.Decode(map[string]any{"p": conf}, &holder); err != nil {
		return nil, err
	}
	if holder.P == nil {
		return nil, fmt.Errorf("decode produced no provider")
	}
	return holder.P, nil
}

// Result of draining a provider.
type Result struct {
	Items     []core.Ammo
	RunErr    error
	RunDone   bool // Run returned within the deadline
	EndSeen   bool // a consumer saw end of ammo (Acquire ok=false)
	Hung      string
	Cancelled bool
}

// Drain runs p and acquires up to max items with `consumers` goroutines (items
// are appended in acquisition order under a lock; with one consumer that is the
// delivery order). observe is called on every item before it is released. When
// max items were taken, or stopAfter > 0 elapsed, the context is cancelled.
func Drain(p core.Provider, max int, consumers int, deadline time.Duration, observe func(core.Ammo) error) (res Result, err error) {
	return DrainSettle(p, max, consumers, deadline, 0, observe)
}

// DrainSettle is Drain with a pause between the moment the consumers stopped acquiring and the cancellation,
// which lets the provider fill its queue and park on the blocked hand-over (the state an engine run leaves it in
// when the instances end by schedule with ammo remaining).
func DrainSettle(p core.Provider, max int, consumers int, deadline, settle time.Duration, observe func(core.Ammo) error) (res Result, err error) {
	ctx, cancel := context.WithCancel(context.Background())
	defer cancel()
	runDone := make(chan error, 1)
	go func() {
		defer func() {
			if r := recover(); r != nil {
				runDone <- fmt.Errorf("panic in provider.Run: %v", r)
			}
		}()
		runDone <- p.Run(ctx, core.ProviderDeps{Log: pand.NopLog(), PoolID: "verif"})
	}()
	if consumers < 1 {
		consumers = 1
	}
	var mu sync.Mutex
	var obsErr error
	var wg sync.WaitGroup
	taken, reserved := 0, 0
	for c := 0; c < consumers; c++ {
		wg.Add(1)
		go func() {
			defer wg.Done()
			defer func() {
				if r := recover(); r != nil {
					mu.Lock()
					if obsErr == nil {
						obsErr = fmt.Errorf("panic in Acquire/Release: %v", r)
					}
					mu.Unlock()
				}
			}()
			for {
				mu.Lock()
				if reserved >= max || obsErr != nil {
					mu.Unlock()
					return
				}
				reserved++ // never more than max Acquire calls in total, also with several consumers
				mu.Unlock()
				a, ok := p.Acquire()
				if !ok {
					mu.Lock()
					reserved--
					res.EndSeen = true
					mu.Unlock()
					return
				}
				mu.Lock()
				taken++
				res.Items = append(res.Items, a)
				var e error
				if observe != nil {
					// a panicking observer must not leave mu locked (the recover above takes it again)
					e = func() (e error) {
						defer func() {
							if r := recover(); r != nil {
								e = fmt.Errorf("panic in observe: %v", r)
							}
						}()
						return observe(a)
					}()
				}
				if e != nil && obsErr == nil {
					obsErr = e
				}
				full := taken >= max
				mu.Unlock()
				p.Release(a)
				if full {
					return
				}
			}
		}()
	}
	consDone := make(chan struct{})
	go func() { wg.Wait(); close(consDone) }()
	timer := time.NewTimer(deadline)
	defer timer.Stop()
	select {
	case <-consDone:
	case <-timer.C:
		res.Hung = "consumers still blocked in Acquire"
		cancel()
		select {
		case <-consDone:
		case <-time.After(deadline):
			return res, fmt.Errorf("consumers blocked in Acquire for %v, also after the context was cancelled", 2*deadline)
		}
	}
	mu.Lock()
	full := taken >= max
	mu.Unlock()
	if full {
		if settle > 0 {
			time.Sleep(settle)
		}
		res.Cancelled = true
		cancel()
	}
	select {
	case res.RunErr = <-runDone:
		res.RunDone = true
	case <-time.After(deadline):
		cancel()
		select {
		case res.RunErr = <-runDone:
			res.Hung = "provider.Run returned only after cancel"
		case <-time.After(deadline):
			return res, fmt.Errorf("provider.Run did not return within %v (also after cancel)", 2*deadline)
		}
	}
	return res, obsErr
}

// DrainHeld is a single consumer that, like `hold` instances in lock-step, acquires `hold` ammo before it looks at any
// of them: observe is called on each of the held items in acquisition order, then all are released. With hold = 1 it
// equals Drain with one consumer. A provider that hands out one object twice (preloaded ammo on a later pass) is thus
// seen while two deliveries of it are alive.
func DrainHeld(p core.Provider, max, hold int, deadline time.Duration, observe func(core.Ammo) error) (res Result, err error) {
	if hold < 1 {
		hold = 1
	}
	ctx, cancel := context.WithCancel(context.Background())
	defer cancel()
	runDone := make(chan error, 1)
	go func() {
		defer func() {
			if r := recover(); r != nil {
				runDone <- fmt.Errorf("panic in provider.Run: %v", r)
			}
		}()
		runDone <- p.Run(ctx, core.ProviderDeps{Log: pand.NopLog(), PoolID: "verif"})
	}()
	var obsErr error
	consDone := make(chan struct{})
	var mu sync.Mutex
	go func() {
		defer close(consDone)
		defer func() {
			if r := recover(); r != nil {
				mu.Lock()
				obsErr = fmt.Errorf("panic in Acquire/Release/observe: %v", r)
				mu.Unlock()
			}
		}()
		taken := 0
		for taken < max {
			var held []core.Ammo
			for len(held) < hold && taken+len(held) < max {
				a, ok := p.Acquire()
				if !ok {
					mu.Lock()
					res.EndSeen = true
					mu.Unlock()
					break
				}
				held = append(held, a)
			}
			for _, a := range held {
				mu.Lock()
				res.Items = append(res.Items, a)
				mu.Unlock()
				if observe != nil {
					if e := observe(a); e != nil {
						mu.Lock()
						if obsErr == nil {
							obsErr = e
						}
						mu.Unlock()
					}
				}
			}
			for _, a := range held {
				p.Release(a)
			}
			taken += len(held)
			mu.Lock()
			stop := res.EndSeen || obsErr != nil
			mu.Unlock()
			if stop {
				return
			}
		}
	}()
	select {
	case <-consDone:
	case <-time.After(deadline):
		res.Hung = "consumer still blocked in Acquire"
		cancel()
		select {
		case <-consDone:
		case <-time.After(deadline):
			return res, fmt.Errorf("consumer blocked in Acquire for %v, also after the context was cancelled", 2*deadline)
		}
	}
	mu.Lock()
	full := len(res.Items) >= max
	mu.Unlock()
	if full {
		res.Cancelled = true
		cancel()
	}
	select {
	case res.RunErr = <-runDone:
		res.RunDone = true
	case <-time.After(deadline):
		cancel()
		select {
		case res.RunErr = <-runDone:
			res.Hung = "provider.Run returned only after cancel"
		case <-time.After(deadline):
			return res, fmt.Errorf("provider.Run did not return within %v (also after cancel)", 2*deadline)
		}
	}
	mu.Lock()
	defer mu.Unlock()
	return res, obsErr
}

// LiveResult is what DrainLive saw.
type LiveResult struct {
	Taken       int   // ammo acquired by the live consumers (before and after the stop)
	LateTaken   int   // ammo acquired by the late consumers (residue of a buffered queue)
	RunErr      error // what Run returned
	SelfStopped bool  // Run returned before the context was cancelled (own failure or own bounds)
	// Hung is non-empty when somebody stayed blocked: Run after the cancel, live consumers after Run returned, or
	// late consumers that entered Acquire only after Run had returned.
	Hung string
}

// DrainLive is the drain in which nobody stops acquiring by itself: `consumers` goroutines loop Acquire/Release until
// Acquire answers ok=false. When cancelAfter ammo have been taken in total (and `settle` has passed) the context is
// cancelled while those consumers are still in, or about to enter, Acquire - unless Run has returned by itself before
// that (decode failure, own bounds). After Run returned, all live consumers must come to ok=false; then `late` more
// consumers are started, which call Acquire only after Run has returned, and must come to ok=false as well (whatever a
// buffered queue still held is counted in LateTaken). Nothing is asserted here about how many ammo are delivered.
// A consumer that stays blocked cannot be released by the harness: its goroutine is left behind and reported in Hung.
func DrainLive(p core.Provider, cancelAfter, consumers, late int, deadline, settle time.Duration) (LiveResult, error) {
	ctx, cancel := context.WithCancel(context.Background())
	defer cancel()
	runDone := make(chan error, 1)
	go func() {
		defer func() {
			if r := recover(); r != nil {
				runDone <- fmt.Errorf("panic in provider.Run: %v", r)
			}
		}()
		runDone <- p.Run(ctx, core.ProviderDeps{Log: pand.NopLog(), PoolID: "verif"})
	}()
	if consumers < 1 {
		consumers = 1
	}
	var mu sync.Mutex
	var panicErr error
	var res LiveResult // Taken / LateTaken are written under mu by consumers that may outlive this call: copy under mu
	snap := func() LiveResult {
		mu.Lock()
		defer mu.Unlock()
		return res
	}
	set := func(f func(r *LiveResult)) {
		mu.Lock()
		defer mu.Unlock()
		f(&res)
	}
	reached := make(chan struct{})
	var reachedOnce sync.Once
	loop := func(isLate bool, wg *sync.WaitGroup) {
		defer wg.Done()
		defer func() {
			if r := recover(); r != nil {
				mu.Lock()
				if panicErr == nil {
					panicErr = fmt.Errorf("panic in Acquire/Release: %v", r)
				}
				mu.Unlock()
			}
		}()
		for {
			a, ok := p.Acquire()
			if !ok {
				return
			}
			hit := false
			mu.Lock()
			if isLate {
				res.LateTaken++
			} else {
				res.Taken++
				hit = res.Taken >= cancelAfter
			}
			mu.Unlock()
			p.Release(a)
			if hit {
				reachedOnce.Do(func() { close(reached) })
			}
		}
	}
	var live sync.WaitGroup
	for c := 0; c < consumers; c++ {
		live.Add(1)
		go loop(false, &live)
	}
	liveDone := make(chan struct{})
	go func() { live.Wait(); close(liveDone) }()

	// phase 1: until cancelAfter ammo were taken, or Run returned by itself
	runReturned, starved := false, false
	select {
	case <-reached:
		if settle > 0 {
			time.Sleep(settle)
		}
	case e := <-runDone:
		runReturned = true
		set(func(r *LiveResult) { r.RunErr, r.SelfStopped = e, true })
	case <-time.After(deadline):
		starved = true
		set(func(r *LiveResult) {
			r.Hung = fmt.Sprintf("only %d ammo delivered to %d consumers within %v while the provider was running", r.Taken, consumers, deadline)
		})
	}
	cancel()
	// phase 2: Run returns
	if !runReturned {
		select {
		case e := <-runDone:
			set(func(r *LiveResult) { r.RunErr = e })
		case <-time.After(deadline):
			return snap(), fmt.Errorf("provider.Run did not return within %v after cancel", deadline)
		}
	}
	if starved {
		return snap(), nil
	}
	// phase 3: consumers that were acquiring all along come to end of ammo
	select {
	case <-liveDone:
	case <-time.After(deadline):
		set(func(r *LiveResult) {
			r.Hung = fmt.Sprintf("provider.Run has returned (%v), but consumers that were acquiring when it stopped are still blocked in Acquire %v later (%d ammo taken)", r.RunErr, deadline, r.Taken)
		})
		return snap(), nil
	}
	// phase 4: consumers that enter Acquire only now
	if late > 0 {
		var lw sync.WaitGroup
		for c := 0; c < late; c++ {
			lw.Add(1)
			go loop(true, &lw)
		}
		lateDone := make(chan struct{})
		go func() { lw.Wait(); close(lateDone) }()
		select {
		case <-lateDone:
		case <-time.After(deadline):
			set(func(r *LiveResult) {
				r.Hung = fmt.Sprintf("provider.Run has returned (%v), but %d consumer(s) calling Acquire afterwards are still blocked %v later instead of seeing end of ammo", r.RunErr, late, deadline)
			})
			return snap(), nil
		}
	}
	mu.Lock()
	defer mu.Unlock()
	return res, panicErr
}
