package provrun

import (
	"fmt"

	"verif/harness/internal/pand"

	"github.com/spf13/afero"
	httpconfig "github.com/yandex/pandora/components/providers/http/config"
	httpprovider "github.com/yandex/pandora/components/providers/http"
	"github.com/yandex/pandora/core"
)

// BuildHTTPOnOsFs builds an http ammo provider (type uri / uripost / raw / http/json) the way the plugin factories
// registered by pandora's Import functions do - options decoded into the provider's config struct by the real config
// decoding, the constructor called with that struct - but with afero.NewOsFs() as the file system: the registry of this
// process is bound to the shared in-memory fs (the Import functions can be called once), the pandora binary binds it to
// the OS. What differs is the file object the provider holds: an *os.File (reading, seeking or closing it after it was
// closed is an error) instead of afero's mem.File, whose Close is idempotent. conf["file"] must be the path of a real
// file.
func BuildHTTPOnOsFs(conf map[string]any) (core.Provider, error) {
	opts := map[string]any{}
	for k, v := range conf {
		if k != "type" {
			opts[k] = v
		}
	}
	var cfg httpconfig.Config
	if err := pand.Decode(opts, &cfg); err != nil {
		return nil, err
	}
	switch conf["type"] {
	case "uri":
		cfg.Decoder = httpconfig.DecoderURI
	case "uripost":
		cfg.Decoder = httpconfig.DecoderURIPost
	case "raw":
		cfg.Decoder = httpconfig.DecoderRaw
	case "http/json":
		cfg.Decoder = httpconfig.DecoderJSONLine
	default:
		return nil, fmt.Errorf("harness: no OS-fs construction for provider type %v", conf["type"])
	}
	return httpprovider.NewProvider(afero.NewOsFs(), cfg)
}
