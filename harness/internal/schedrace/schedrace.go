// Package schedrace judges the implicit start of a schedule under concurrency: the engine never calls Start on
// an RPS schedule, the first Next does (time.Now()), and several instances race for that first call.
//
// Oracle: there must be ONE start instant s, between the instant before the callers were released and the
// instant after they all finished, such that the multiset of handed-out tokens is exactly the reference
// chain computed from s (no token before the start, none lost or duplicated, one finish time for everybody).
package schedrace

import (
	"fmt"
	"sort"
	"sync"
	"time"

	sg "verif/harness/internal/schedgen"
	"verif/harness/internal/vf"

	"github.com/yandex/pandora/core"
)

func flatTokens(parts []sg.Part) []time.Time {
	var out []time.Time
	for _, p := range parts {
		out = append(out, p.Tokens...)
	}
	return out
}

// Round builds the schedule, releases `callers` goroutines at once on the unstarted schedule and judges the
// tokens they drained against the reference chain recomputed from the inferred start instant.
func Round(build func() (core.Schedule, error), leaves []sg.Leaf, callers int) (tokens int, err error) {
	s, err := build()
	if err != nil {
		return 0, err
	}
	type res struct {
		toks   []time.Time
		finish time.Time
	}
	out := make([]res, callers)
	gate := make(chan struct{})
	var wg sync.WaitGroup
	var sink vf.ErrSink
	for i := 0; i < callers; i++ {
		i := i
		vf.GoErr(&wg, &sink, func() {
			<-gate
			drain(s, &out[i].toks, &out[i].finish)
		})
	}
	before := time.Now()
	close(gate)
	wg.Wait()
	after := time.Now()
	if e := sink.Get(); e != nil {
		return 0, e
	}
	var all []time.Time
	for _, r := range out {
		all = append(all, r.toks...)
	}
	if len(all) == 0 {
		return 0, nil
	}
	sort.Slice(all, func(a, b int) bool { return all[a].Before(all[b]) })
	// reference offsets from an arbitrary origin give the offset of the earliest token from the start
	origin := time.Unix(1_000_000, 0)
	refParts, _, _, err := sg.Chain(leaves, origin)
	if err != nil {
		return 0, err
	}
	ref := flatTokens(refParts)
	if len(ref) == 0 {
		return 0, fmt.Errorf("%d tokens handed out by a schedule whose parts hold none: %v", len(all), all[0])
	}
	first := ref[0]
	for _, x := range ref {
		if x.Before(first) {
			first = x
		}
	}
	start := all[0].Add(-first.Sub(origin))
	if start.Before(before) {
		return 0, fmt.Errorf("earliest token %v implies the profile started at %v, %v BEFORE any caller asked for a token (callers released at %v): an operation is scheduled before the profile's start",
			all[0].Format(time.RFC3339Nano), start.Format(time.RFC3339Nano), before.Sub(start), before.Format(time.RFC3339Nano))
	}
	if start.After(after) {
		return 0, fmt.Errorf("earliest token implies a start at %v, after all callers had finished (%v)", start, after)
	}
	parts, finish, total, err := sg.Chain(leaves, start)
	if err != nil {
		return 0, err
	}
	want := flatTokens(parts)
	sort.Slice(want, func(a, b int) bool { return want[a].Before(want[b]) })
	if len(all) != total {
		return 0, fmt.Errorf("%d tokens handed out to %d racing callers of an unstarted schedule, the profile holds %d", len(all), callers, total)
	}
	for i := range want {
		if !all[i].Equal(want[i]) {
			return 0, fmt.Errorf("token %d (sorted) is %v, the profile started at %v schedules it at %v (diff %v): callers did not see one common start",
				i, all[i].Format(time.RFC3339Nano), start.Format(time.RFC3339Nano), want[i].Format(time.RFC3339Nano), all[i].Sub(want[i]))
		}
	}
	for i, r := range out {
		if !r.finish.Equal(finish) {
			return 0, fmt.Errorf("caller %d saw finish time %v after exhaustion, the profile started at %v finishes at %v", i, r.finish, start, finish)
		}
		for k := 1; k < len(r.toks); k++ {
			if r.toks[k].Before(r.toks[k-1]) {
				return 0, fmt.Errorf("caller %d received decreasing token times %v then %v", i, r.toks[k-1], r.toks[k])
			}
		}
	}
	return total, nil
}

func drain(s core.Schedule, toks *[]time.Time, finish *time.Time) {
	for {
		tx, ok := s.Next()
		if !ok {
			*finish = tx
			return
		}
		*toks = append(*toks, tx)
	}
}
