package confgen

import (
	"fmt"
	"strings"

	"pgregory.net/rapid"
)

// Opts steer the generator of valid configurations.
type Opts struct {
	OptP     float64 // probability that an optional key is given
	NullP    float64 // probability that a given optional key is null-valued (`key:` in YAML)
	MaxPools int
	ListP    float64 // probability that a schedule section is written in list form
	NoRoot   bool    // only `pools`, no log / monitoring sections
}

// DefaultOpts are the options used by the C17 tests.
var DefaultOpts = Opts{OptP: 0.35, NullP: 0.06, MaxPools: 3, ListP: 0.3}

type gen struct {
	t *rapid.T
	o Opts
}

func (g *gen) chance(p float64, label string) bool {
	if p <= 0 {
		return false
	}
	// "no" is the simple answer: rapid shrinks the draw towards 0
	return rapid.Float64Range(0, 1).Draw(g.t, label) > 1-p
}

// GenRoot draws a valid CLI-level configuration.
func GenRoot(t *rapid.T, o Opts) map[string]any {
	g := &gen{t: t, o: o}
	root := map[string]any{}
	if !o.NoRoot {
		root = g.structMap(CLI, CLI.fields, "", 0)
	}
	n := 1
	if o.MaxPools > 1 && g.chance(0.45, "multi") {
		n = rapid.IntRange(2, o.MaxPools).Draw(t, "pools")
	}
	pools := make([]any, 0, n)
	for i := 0; i < n; i++ {
		pools = append(pools, g.structMap(Pool, Pool.fields, "", 0))
	}
	root["pools"] = pools
	return root
}

// GenSection draws a valid section (with its `type` key) for a component kind.
func GenSection(t *rapid.T, o Opts, kind string) map[string]any {
	g := &gen{t: t, o: o}
	return g.section(kind, 1)
}

// structMap draws the keys of one struct level: required keys always, others with probability OptP.
func (g *gen) structMap(c *Comp, fs []*Field, prefix string, depth int) map[string]any {
	out := map[string]any{}
	for _, f := range fs {
		dotted := prefix + f.Key
		if has(c.Skip, dotted) {
			continue
		}
		if c == CLI && dotted == "pools" {
			continue
		}
		required := has(c.Required, dotted) || has(c.Always, dotted)
		if !required && !g.chance(g.o.OptP, "opt") {
			continue
		}
		if !required && f.Class != CPlugin && f.Class != CPluginList && g.chance(g.o.NullP, "null") {
			out[f.Key] = nil
			continue
		}
		out[f.Key] = g.value(c, f, dotted, depth)
	}
	return out
}

// Value draws one valid value for the key `dotted` of component c.
func Value(t *rapid.T, o Opts, c *Comp, f *Field, dotted string, depth int) any {
	g := &gen{t: t, o: o}
	return g.value(c, f, dotted, depth)
}

func (g *gen) value(c *Comp, f *Field, dotted string, depth int) any {
	if gf := c.Gen[dotted]; gf != nil {
		return gf(g.t)
	}
	t := g.t
	switch f.Class {
	case CBool:
		return rapid.Bool().Draw(t, "b")
	case CInt, CUint:
		lo := 0
		if m, ok := minOf(f.Validate); ok && int(m) > lo {
			lo = int(m)
		}
		if strings.Contains(f.Validate, "required") && lo < 1 {
			lo = 1
		}
		return rapid.IntRange(lo, lo+200).Draw(t, "i")
	case CFloat:
		lo := 0.0
		if m, ok := minOf(f.Validate); ok {
			lo = m
		}
		return lo + rapid.SampledFrom([]float64{0, 1, 2.5, 10, 33.25, 100}).Draw(t, "f")
	case CString:
		if strings.Contains(f.Validate, "endpoint") {
			return endpoint(t)
		}
		return rapid.SampledFrom([]string{"a", "x-1", "some text", "/p/q.log", "Z"}).Draw(t, "s")
	case CDuration:
		vs := []string{"1ms", "250ms", "1s", "1.5s", "2m", "1m30s", "1h", "90s"}
		if !strings.Contains(f.Validate, "min-time") {
			vs = append(vs, "0s")
		}
		return rapid.SampledFrom(vs).Draw(t, "d")
	case CDataSize:
		return rapid.SampledFrom(dataSizeTexts).Draw(t, "sz")
	case CLevel:
		return rapid.SampledFrom(levelTexts).Draw(t, "lvl")
	case CStrList:
		return strList("a", "b c", "d")(t)
	case CStrMap:
		n := rapid.IntRange(0, 2).Draw(t, "nm")
		m := map[string]any{}
		for i := 0; i < n; i++ {
			m[rapid.SampledFrom([]string{"k1", "k2", "auth"}).Draw(t, "mk")] = rapid.SampledFrom([]string{"v", "w x"}).Draw(t, "mv")
		}
		return m
	case CStruct:
		return g.structMap(c, f.Sub, dotted+".", depth+1)
	case CPlugin:
		if f.Kind == KSched {
			return g.schedule(depth + 1)
		}
		return g.section(f.Kind, depth+1)
	case CPluginList:
		lo := 0
		if f.Kind == KSched {
			lo = 1
		}
		n := rapid.IntRange(lo, 3).Draw(t, "nl")
		if f.Kind != KSched && n > 2 {
			n = 2
		}
		out := make([]any, 0, n)
		for i := 0; i < n; i++ {
			out = append(out, g.section(f.Kind, depth+1))
		}
		return out
	}
	panic(fmt.Sprintf("confgen: no generator for %s key %s (class %s)", c.Label(), dotted, f.Class))
}

// schedule draws a schedule section, possibly in the list form that
// scheduleSliceToCompositeConfigHook turns into a composite.
func (g *gen) schedule(depth int) any {
	if depth <= 2 && g.chance(g.o.ListP, "listform") {
		n := rapid.IntRange(1, 3).Draw(g.t, "nlist")
		out := make([]any, 0, n)
		for i := 0; i < n; i++ {
			out = append(out, g.section(KSched, depth+1))
		}
		return out
	}
	return g.section(KSched, depth)
}

func (g *gen) section(kind string, depth int) map[string]any {
	cands := OfKind(kind)
	if kind == KSched && depth >= 3 {
		var leaf []*Comp
		for _, c := range cands {
			if c.Name != "composite" {
				leaf = append(leaf, c)
			}
		}
		cands = leaf
	}
	c := cands[rapid.IntRange(0, len(cands)-1).Draw(g.t, kind)]
	return g.sectionOf(c, depth)
}

func (g *gen) sectionOf(c *Comp, depth int) map[string]any {
	m := g.structMap(c, c.fields, "", depth)
	if c.Kind == KAmmo && c.Name == "uri" && g.chance(0.25, "inline") {
		delete(m, "file")
		m["uris"] = uriInline["uris"](g.t)
	}
	m["type"] = c.Name
	return m
}

// SectionOf draws a valid section for one given component.
func SectionOf(t *rapid.T, o Opts, c *Comp) map[string]any {
	g := &gen{t: t, o: o}
	return g.sectionOf(c, 1)
}

var dataSizeTexts = []string{"512B", "4KB", "64kb", "1MB", "100", "2mb"}
var levelTexts = []string{"debug", "info", "warn", "error"}

// minOf extracts N from a `min=N` validate tag.
func minOf(tag string) (float64, bool) {
	for _, p := range strings.Split(tag, ",") {
		if strings.HasPrefix(p, "min=") {
			var v float64
			if _, err := fmt.Sscanf(p[4:], "%g", &v); err == nil {
				return v, true
			}
		}
	}
	return 0, false
}
