package confgen

import (
	"fmt"
	"reflect"
	"sync"

	"verif/harness/internal/pand"

	"github.com/spf13/afero"
	"github.com/yandex/pandora/cli"
	grpcgun "github.com/yandex/pandora/components/guns/grpc"
	grpcscen "github.com/yandex/pandora/components/guns/grpc/scenario"
	phttp "github.com/yandex/pandora/components/guns/http"
	"github.com/yandex/pandora/components/providers/grpc/grpcjson"
	httpconf "github.com/yandex/pandora/components/providers/http/config"
	"github.com/yandex/pandora/components/providers/http/middleware/headerdate"
	"github.com/yandex/pandora/core/aggregator"
	"github.com/yandex/pandora/core/aggregator/netsample"
	"github.com/yandex/pandora/core/datasink"
	"github.com/yandex/pandora/core/datasource"
	"github.com/yandex/pandora/core/engine"
	"github.com/yandex/pandora/core/provider"
	"github.com/yandex/pandora/core/schedule"
	"pgregory.net/rapid"
)

// G generates one valid value for a config key.
type G func(t *rapid.T) any

// Comp is one registered component: (kind, name) as in the Import functions of
// /repo, the Go config struct the registry decodes its section into, and the
// reference default (the exported default-config function, nil = zero value).
type Comp struct {
	Kind, Name string
	Conf       reflect.Type // nil: constructor takes no config
	Default    func() any
	Required   []string     // dotted keys that every generated config contains and whose absence must be rejected
	Always     []string     // dotted keys that every generated config contains, but whose absence is legal
	Skip       []string     // dotted keys that are never generated (mutually exclusive options)
	Gen        map[string]G // dotted key -> valid value generator (overrides the class default)
	Doc        map[string]any
	fields     []*Field
}

// Label is "<kind>/<name>".
func (c *Comp) Label() string { return c.Kind + "/" + c.Name }

// Fields are the keys of the component's config struct.
func (c *Comp) Fields() []*Field { return c.fields }

// Fixed files on pand.FS() that generated configs refer to.
const (
	FileURI     = "/c17/ammo.uri"
	FileURIPost = "/c17/ammo.uripost"
	FileRaw     = "/c17/ammo.raw"
	FileJSONL   = "/c17/ammo.jsonl"
	FileGRPC    = "/c17/ammo.grpc.jsonl"
	FileData    = "/c17/data.json"
)

var files = map[string]string{
	FileURI:     "[Host: example.org]\n/a\n/b?x=1 tag\n",
	FileURIPost: "[Host: example.org]\n5 /a tag\nhello\n",
	FileRaw:     "38 tag\nGET /a HTTP/1.1\r\nHost: example.org\r\n\r\n\n",
	FileJSONL:   `{"tag": "t", "uri": "/a", "method": "GET", "headers": {"A": "b"}, "host": "example.org"}` + "\n",
	FileGRPC:    `{"tag": "t", "call": "target.TargetService.Hello", "payload": {"name": "x"}}` + "\n",
	FileData:    `{"a": 1}` + "\n",
}

func sampled[T any](vs ...T) G {
	return func(t *rapid.T) any { return rapid.SampledFrom(vs).Draw(t, "v") }
}

func constant(v any) G { return func(*rapid.T) any { return v } }

func intRange(lo, hi int) G {
	return func(t *rapid.T) any { return rapid.IntRange(lo, hi).Draw(t, "i") }
}

func endpoint(t *rapid.T) any {
	host := rapid.SampledFrom([]string{"127.0.0.1", "127.0.0.1", "10.1.2.3", "[::1]"}).Draw(t, "host")
	return fmt.Sprintf("%s:%d", host, rapid.IntRange(1, 65535).Draw(t, "port"))
}

func headers(t *rapid.T) any {
	n := rapid.IntRange(0, 3).Draw(t, "nh")
	out := make([]any, 0, n)
	for i := 0; i < n; i++ {
		k := rapid.SampledFrom([]string{"Host", "User-Agent", "X-Load", "Accept"}).Draw(t, "hk")
		v := rapid.SampledFrom([]string{"example.org", "pandora/verif", "a b c", "1"}).Draw(t, "hv")
		out = append(out, fmt.Sprintf("[%s: %s]", k, v))
	}
	return out
}

func strList(vs ...string) G {
	return func(t *rapid.T) any {
		n := rapid.IntRange(0, 3).Draw(t, "n")
		out := make([]any, 0, n)
		for i := 0; i < n; i++ {
			out = append(out, rapid.SampledFrom(vs).Draw(t, "e"))
		}
		return out
	}
}

func httpGun(name string, def func() phttp.GunConfig, ssl G) *Comp {
	c := &Comp{Kind: KGun, Name: name, Conf: reflect.TypeOf(phttp.GunConfig{}),
		Default:  func() any { return def() },
		Required: []string{"target"},
		Gen: map[string]G{
			"target": endpoint,
			// answlog.Init creates the file on the real OS fs when enabled: keep it off
			"answlog.enabled": constant(false),
			"answlog.path":    sampled("answ.log", "./a.log"),
			"answlog.filter":  sampled("all", "warning", "error"),
		},
		// docs/eng/http-generator.md "Default: ..." comments whose literal value is the config value
		// (max-idle-conns-per-host, fallback-delay and client-number document the *effective* default of a zero value)
		Doc: map[string]any{
			"connect-ssl": false, "tls-handshake-timeout": "1s", "disable-keep-alives": false, "disable-compression": true,
			"max-idle-conns": 0, "idle-conn-timeout": "90s", "response-header-timeout": "0s", "expect-continue-timeout": "1s",
			"dial.timeout": "3s", "dial.dns-cache": true, "dial.dual-stack": true, "dial.keep-alive": "120s",
			"answlog.filter": "error", "auto-tag.uri-elements": 2, "auto-tag.no-tag-only": true,
		},
	}
	if ssl != nil {
		c.Gen["ssl"] = ssl
	}
	return c
}

func httpProvider(name, file string) *Comp {
	c := &Comp{Kind: KAmmo, Name: name, Conf: reflect.TypeOf(httpconf.Config{}),
		Required: []string{"file"},
		Skip:     []string{"uris"}, // 'uris' excludes 'file'; see the uri-inline variant
		Gen: map[string]G{
			"file":        constant(file),
			"headers":     headers,
			"decoder":     sampled("uri", "uripost", "raw", "jsonline"), // overwritten by the typed constructors
			"maxammosize": sampled(0, 4096, 65536),
			"chosencases": strList("tag", "t", "other"),
		},
	}
	if name == "http" {
		// the generic provider takes the decoder from the config
		c.Required = append(c.Required, "decoder")
		c.Gen["decoder"] = constant("uri")
	}
	return c
}

func grpcGun(name string, conf any, def func() any) *Comp {
	return &Comp{Kind: KGun, Name: name, Conf: reflect.TypeOf(conf), Default: def,
		Gen: map[string]G{
			"target":          endpoint,
			"answlog.enabled": constant(false),
			"answlog.path":    sampled("answ.log", "./a.log"),
			"answlog.filter":  sampled("all", "warning", "error"),
			"reflect_port":    intRange(0, 65535),
			"reflect_metadata": func(t *rapid.T) any {
				return map[string]any{"auth": rapid.SampledFrom([]string{"Token", "x y"}).Draw(t, "md")}
			},
		},
	}
}

func sched(name string, conf any, req []string, gen map[string]G) *Comp {
	return &Comp{Kind: KSched, Name: name, Conf: reflect.TypeOf(conf), Required: req, Gen: gen}
}

var (
	tableOnce sync.Once
	table     []*Comp
	tableErr  error
	byLabel   map[string]*Comp

	// CLI and Pool are pseudo components: the root config struct and one pool.
	CLI = &Comp{Kind: "cli", Name: "root", Conf: reflect.TypeOf(cli.CliConfig{}), Default: func() any { return *cli.DefaultConfig() },
		Gen: map[string]G{
			"log.file":                   sampled("stdout", "stderr", "pandora.log"),
			"monitoring.expvar.port":     intRange(1, 65535),
			"monitoring.cpuprofile.file": sampled("cpuprofile.log", "cpu.prof"),
			"monitoring.memprofile.file": sampled("memprofile.log", "mem.prof"),
		}}
	Pool = &Comp{Kind: "pool", Name: "pool", Conf: reflect.TypeOf(engine.InstancePoolConfig{}),
		Required: []string{"ammo", "result", "gun", "rps", "startup"},
		Gen:      map[string]G{"id": sampled("p", "pool-1", "Main Pool")}}
)

func buildTable() []*Comp {
	small := intRange(1, 4096)
	rate := func(t *rapid.T) any {
		return rapid.SampledFrom([]any{0, 1, 2.5, 10, 33.25, 100}).Draw(t, "rate")
	}
	count := intRange(0, 60)
	t := []*Comp{
		// core/import/import.go — schedules (register.Limiter)
		sched("const", schedule.ConstConfig{}, []string{"duration"}, map[string]G{"ops": rate}),
		sched("line", schedule.LineConfig{}, []string{"duration"}, map[string]G{"from": rate, "to": rate}),
		sched("step", schedule.StepConfig{}, []string{"duration", "step"}, map[string]G{"from": rate, "to": rate, "step": intRange(1, 20)}),
		sched("once", schedule.OnceConfig{}, []string{"times"}, map[string]G{"times": intRange(1, 50)}),
		sched("unlimited", schedule.UnlimitedConfig{}, []string{"duration"}, nil),
		sched("instance_step", schedule.InstanceStepConfig{}, []string{"stepduration", "step"},
			map[string]G{"from": count, "to": count, "step": intRange(1, 20)}),
		{Kind: KSched, Name: "composite", Conf: reflect.TypeOf(schedule.CompositeConf{}), Always: []string{"nested"}},

		// aggregators
		{Kind: KResult, Name: "phout", Conf: reflect.TypeOf(netsample.PhoutConfig{}), Default: func() any { return netsample.DefaultPhoutConfig() },
			Gen: map[string]G{"destination": sampled("/c17/phout.log", "/c17/phout-2.log"), "sample-queue-size": small}},
		{Kind: KResult, Name: "jsonlines", Conf: reflect.TypeOf(aggregator.JSONLineAggregatorConfig{}),
			Default: func() any { return aggregator.DefaultJSONLinesAggregatorConfig() }, Required: []string{"sink"},
			Gen: map[string]G{"sample-queue-size": small, "buffer-size": sampled(0, 4096, 65536)}},
		{Kind: KResult, Name: "json", Conf: reflect.TypeOf(aggregator.JSONLineAggregatorConfig{}),
			Default: func() any { return aggregator.DefaultJSONLinesAggregatorConfig() }, Required: []string{"sink"},
			Gen: map[string]G{"sample-queue-size": small, "buffer-size": sampled(0, 4096, 65536)}},
		{Kind: KResult, Name: "log"},
		{Kind: KResult, Name: "discard"},

		// providers
		{Kind: KAmmo, Name: "dummy"},
		{Kind: KAmmo, Name: "json", Conf: reflect.TypeOf(provider.JSONProviderConfig{}),
			Default: func() any { return provider.DefaultJSONProviderConfig() }, Required: []string{"source"},
			Gen: map[string]G{"ammo-queue-size": intRange(1, 256)}},

		// data sinks / sources
		{Kind: KSink, Name: "file", Conf: reflect.TypeOf(datasink.FileConfig{}), Required: []string{"path"},
			Gen: map[string]G{"path": sampled("/c17/out.jsonl", "/c17/out-2.jsonl")}},
		{Kind: KSink, Name: "stdout"},
		{Kind: KSink, Name: "stderr"},
		{Kind: KSource, Name: "file", Conf: reflect.TypeOf(datasource.FileConfig{}), Required: []string{"path"},
			Gen: map[string]G{"path": constant(FileData)}},
		{Kind: KSource, Name: "stdin"},
		{Kind: KSource, Name: "inline", Conf: reflect.TypeOf(datasource.InlineConfig{}), Required: []string{"data"},
			Gen: map[string]G{"data": sampled(`{"a": 1}`, `{"b": "x"} {"b": "y"}`)}},

		// components/phttp/import/import.go (+ providers/http/import.go, guns/http_scenario/import.go)
		httpProvider("http", FileURI),
		httpProvider("http/json", FileJSONL),
		httpProvider("uri", FileURI),
		httpProvider("uripost", FileURIPost),
		httpProvider("raw", FileRaw),
		{Kind: KMW, Name: "header/date", Conf: reflect.TypeOf(headerdate.Config{}),
			Gen: map[string]G{"location": sampled("", "UTC"), "headername": sampled("Date", "X-Date")}},
		httpGun("http", phttp.DefaultHTTPGunConfig, nil),
		httpGun("http2", phttp.DefaultHTTP2GunConfig, constant(true)), // http2 refuses ssl: false
		httpGun("connect", phttp.DefaultConnectGunConfig, nil),
		httpGun("http/scenario", phttp.DefaultHTTPGunConfig, nil),
		httpGun("http2/scenario", phttp.DefaultHTTP2GunConfig, constant(true)),

		// components/grpc/import/import.go
		{Kind: KAmmo, Name: "grpc/json", Conf: reflect.TypeOf(grpcjson.Config{}),
			Gen: map[string]G{"file": constant(FileGRPC), "source.path": constant(FileGRPC), "source.type": constant("file"),
				"maxammosize": sampled(0, 4096, 65536), "chosencases": strList("tag", "t")}},
		grpcGun("grpc", grpcgun.GunConfig{}, func() any { return grpcgun.DefaultGunConfig() }),
		grpcGun("grpc/scenario", grpcscen.GunConfig{}, func() any { return grpcscen.DefaultGunConfig() }),
	}
	return t
}

// uriInline is the `uris:` variant of the uri provider (no file).
var uriInline = map[string]G{
	"uris": func(t *rapid.T) any {
		n := rapid.IntRange(1, 3).Draw(t, "nu")
		out := make([]any, 0, n)
		for i := 0; i < n; i++ {
			out = append(out, rapid.SampledFrom([]string{"/a", "/b?x=1", "/c/d tag"}).Draw(t, "u"))
		}
		return out
	},
}

// Init registers pandora's components (once), creates the fixed files and builds the table.
func Init() error {
	tableOnce.Do(func() {
		fs := pand.Init()
		for name, data := range files {
			if err := afero.WriteFile(fs, name, []byte(data), 0o644); err != nil {
				tableErr = err
				return
			}
		}
		table = buildTable()
		byLabel = map[string]*Comp{}
		for _, c := range append([]*Comp{CLI, Pool}, table...) {
			if c.Conf != nil {
				fs, err := FieldsOf(c.Conf)
				if err != nil {
					tableErr = fmt.Errorf("%s: %w", c.Label(), err)
					return
				}
				c.fields = fs
			}
			for _, k := range append(append(append([]string{}, c.Required...), c.Skip...), c.Always...) {
				if lookupKey(c.fields, k) == nil {
					tableErr = fmt.Errorf("confgen table out of date: %s has no key %q", c.Label(), k)
					return
				}
			}
			for k := range c.Gen {
				if lookupKey(c.fields, k) == nil {
					tableErr = fmt.Errorf("confgen table out of date: %s has no key %q", c.Label(), k)
					return
				}
			}
			for k := range c.Doc {
				if lookupKey(c.fields, k) == nil {
					tableErr = fmt.Errorf("confgen table out of date: %s has no key %q", c.Label(), k)
					return
				}
			}
			if _, dup := byLabel[c.Label()]; dup {
				tableErr = fmt.Errorf("confgen: duplicate component %s", c.Label())
				return
			}
			byLabel[c.Label()] = c
		}
	})
	return tableErr
}

// Table lists the registered components (without the CLI / pool pseudo components).
func Table() []*Comp { return table }

// Lookup finds a component by kind and name.
func Lookup(kind, name string) *Comp { return byLabel[kind+"/"+name] }

// OfKind lists the components of one kind.
func OfKind(kind string) []*Comp {
	var out []*Comp
	for _, c := range table {
		if c.Kind == kind {
			out = append(out, c)
		}
	}
	return out
}

func lookupKey(fs []*Field, dotted string) *Field {
	cur := fs
	var f *Field
	for _, part := range splitDots(dotted) {
		f = findField(cur, part)
		if f == nil {
			return nil
		}
		cur = f.Sub
	}
	return f
}

func splitDots(s string) []string {
	var out []string
	start := 0
	for i := 0; i < len(s); i++ {
		if s[i] == '.' {
			out = append(out, s[start:i])
			start = i + 1
		}
	}
	return append(out, s[start:])
}

func has(list []string, s string) bool {
	for _, x := range list {
		if x == s {
			return true
		}
	}
	return false
}
