package confgen

import (
	"bytes"
	"encoding/json"
	"fmt"
	"sort"
	"strconv"
	"strings"
)

// Site is one struct-typed map of a configuration: a place where keys are
// matched against the fields of a Go config struct.
type Site struct {
	Path   []string       // keys / list indices from the root to this map
	Comp   *Comp          // owning component (CLI, Pool or a table entry)
	Prefix string         // dotted prefix of this level inside Comp ("" or "dial." ...)
	Fields []*Field       // the keys accepted here
	Map    map[string]any // the live map
	Depth  int            // root and pools 0, component sections 1, nested levels 2+
	Plugin bool           // a plugin section (has a `type` key)
}

// PathString is the site's path joined with "/" ("" for the root).
func (s *Site) PathString() string { return strings.Join(s.Path, "/") }

// Field finds the field a key of this site feeds.
func (s *Site) Field(key string) *Field { return findField(s.Fields, key) }

// Dotted is the dotted name of a key of this site inside its component.
func (s *Site) Dotted(key string) string { return s.Prefix + strings.ToLower(key) }

func sub(path []string, more ...string) []string {
	return append(append([]string{}, path...), more...)
}

// Walk lists all sites of a valid root configuration, parents before children.
func Walk(root map[string]any) ([]*Site, error) {
	w := &walker{}
	w.structSite(&Site{Comp: CLI, Fields: CLI.fields, Map: root, Depth: 0})
	return w.sites, w.err
}

// WalkSection lists the sites of one plugin section.
func WalkSection(kind string, section map[string]any) ([]*Site, error) {
	w := &walker{}
	w.pluginSite(nil, kind, section, 1)
	return w.sites, w.err
}

type walker struct {
	sites []*Site
	err   error
}

func (w *walker) fail(format string, args ...any) {
	if w.err == nil {
		w.err = fmt.Errorf("confgen.Walk: "+format, args...)
	}
}

func (w *walker) structSite(s *Site) {
	w.sites = append(w.sites, s)
	for _, key := range SortedKeys(s.Map) {
		val := s.Map[key]
		if s.Plugin && strings.EqualFold(key, "type") {
			continue
		}
		f := s.Field(key)
		if f == nil {
			w.fail("%s: key %q is not a key of %s", s.PathString(), key, s.Comp.Label())
			continue
		}
		if val == nil {
			continue
		}
		p := sub(s.Path, key)
		switch f.Class {
		case CStruct:
			m, ok := val.(map[string]any)
			if !ok {
				w.fail("%s: struct key %q holds %T", s.PathString(), key, val)
				continue
			}
			w.structSite(&Site{Path: p, Comp: s.Comp, Prefix: s.Dotted(key) + ".", Fields: f.Sub, Map: m, Depth: s.Depth + 1})
		case CStructList:
			l, ok := val.([]any)
			if !ok {
				w.fail("%s: list key %q holds %T", s.PathString(), key, val)
				continue
			}
			for i, e := range l {
				m, ok := e.(map[string]any)
				if !ok {
					w.fail("%s: list key %q element %d holds %T", s.PathString(), key, i, e)
					continue
				}
				ep := sub(p, strconv.Itoa(i))
				if s.Comp == CLI && s.Prefix == "" && f.Key == "pools" {
					w.structSite(&Site{Path: ep, Comp: Pool, Fields: Pool.fields, Map: m, Depth: 0})
				} else {
					w.structSite(&Site{Path: ep, Comp: s.Comp, Prefix: s.Dotted(key) + ".", Fields: f.Sub, Map: m, Depth: s.Depth + 1})
				}
			}
		case CPlugin:
			switch v := val.(type) {
			case map[string]any:
				w.pluginSite(p, f.Kind, v, s.Depth+1)
			case []any:
				if f.Kind != KSched {
					w.fail("%s: plugin key %q holds a list", s.PathString(), key)
					continue
				}
				for i, e := range v {
					m, ok := e.(map[string]any)
					if !ok {
						w.fail("%s: schedule list %q element %d holds %T", s.PathString(), key, i, e)
						continue
					}
					w.pluginSite(sub(p, strconv.Itoa(i)), KSched, m, s.Depth+2)
				}
			default:
				w.fail("%s: plugin key %q holds %T", s.PathString(), key, val)
			}
		case CPluginList:
			l, ok := val.([]any)
			if !ok {
				w.fail("%s: plugin list key %q holds %T", s.PathString(), key, val)
				continue
			}
			for i, e := range l {
				m, ok := e.(map[string]any)
				if !ok {
					w.fail("%s: plugin list %q element %d holds %T", s.PathString(), key, i, e)
					continue
				}
				w.pluginSite(sub(p, strconv.Itoa(i)), f.Kind, m, s.Depth+1)
			}
		}
	}
}

func (w *walker) pluginSite(path []string, kind string, m map[string]any, depth int) {
	name, _ := m["type"].(string)
	c := Lookup(kind, name)
	if c == nil {
		w.fail("%s: no component %s/%s in the table", strings.Join(path, "/"), kind, name)
		return
	}
	w.structSite(&Site{Path: path, Comp: c, Fields: c.fields, Map: m, Depth: depth, Plugin: true})
}

// SortedKeys lists the keys of a map in sorted order (all iteration over
// configurations is deterministic).
func SortedKeys(m map[string]any) []string {
	out := make([]string, 0, len(m))
	for k := range m {
		out = append(out, k)
	}
	sort.Strings(out)
	return out
}

// FindSite returns the site with the given path string.
func FindSite(sites []*Site, path string) *Site {
	for _, s := range sites {
		if s.PathString() == path {
			return s
		}
	}
	return nil
}

// ---- JSON form of configurations (what a Case stores) ----

// Encode renders a configuration as JSON text (keys sorted).
func Encode(v any) string {
	var buf bytes.Buffer
	enc := json.NewEncoder(&buf)
	enc.SetEscapeHTML(false)
	if err := enc.Encode(v); err != nil {
		panic(err)
	}
	return strings.TrimSpace(buf.String())
}

// Parse reads JSON text into the value shapes a YAML reader produces:
// map[string]any, []any, string, bool, nil, int for integral numbers and
// float64 for the others.
func Parse(text string) (any, error) {
	dec := json.NewDecoder(strings.NewReader(text))
	dec.UseNumber()
	var v any
	if err := dec.Decode(&v); err != nil {
		return nil, err
	}
	return normalise(v), nil
}

// ParseMap is Parse for a JSON object.
func ParseMap(text string) (map[string]any, error) {
	v, err := Parse(text)
	if err != nil {
		return nil, err
	}
	m, ok := v.(map[string]any)
	if !ok {
		return nil, fmt.Errorf("confgen: configuration is %T, not an object", v)
	}
	return m, nil
}

func normalise(v any) any {
	switch x := v.(type) {
	case json.Number:
		s := x.String()
		if !strings.ContainsAny(s, ".eE") {
			if i, err := strconv.Atoi(s); err == nil {
				return i
			}
		}
		f, _ := x.Float64()
		return f
	case map[string]any:
		for k, e := range x {
			x[k] = normalise(e)
		}
		return x
	case []any:
		for i, e := range x {
			x[i] = normalise(e)
		}
		return x
	}
	return v
}

// Clone deep-copies a configuration value (the decoder's plugin hook deletes the
// `type` key from the maps it is given, so every decode gets its own copy).
func Clone(v any) any {
	switch x := v.(type) {
	case map[string]any:
		out := make(map[string]any, len(x))
		for k, e := range x {
			out[k] = Clone(e)
		}
		return out
	case []any:
		out := make([]any, len(x))
		for i, e := range x {
			out[i] = Clone(e)
		}
		return out
	}
	return v
}

// CloneMap is Clone for a map.
func CloneMap(m map[string]any) map[string]any { return Clone(m).(map[string]any) }

// IsRequired reports whether removing key from the site must make the
// configuration invalid (the table's Required list).
func IsRequired(s *Site, key string) bool { return has(s.Comp.Required, s.Dotted(key)) }

// IsSkipped reports whether a key of the site must not be (re)generated: keys the
// table never generates, and `file` next to a given `uris` (the two exclude each other).
func IsSkipped(s *Site, key string) bool {
	if has(s.Comp.Skip, s.Dotted(key)) {
		return true
	}
	if s.Comp.Kind == KAmmo && s.Prefix == "" && strings.EqualFold(key, "file") {
		for k := range s.Map {
			if strings.EqualFold(k, "uris") {
				return true
			}
		}
	}
	return false
}
