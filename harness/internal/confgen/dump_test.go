package confgen

import (
	"fmt"
	"testing"
)

func dump(fs []*Field, ind string) {
	for _, f := range fs {
		fmt.Printf("%s%s  class=%s kind=%s validate=%q types=%v\n", ind, f.Key, f.Class, f.Kind, f.Validate, f.Types)
		dump(f.Sub, ind+"    ")
	}
}

func TestDump(t *testing.T) {
	if err := Init(); err != nil {
		t.Fatal(err)
	}
	for _, c := range append([]*Comp{CLI, Pool}, Table()...) {
		fmt.Println("==", c.Label())
		dump(c.Fields(), "   ")
	}
}
