package confgen

import (
	"errors"
	"fmt"
	"reflect"
	"strconv"
	"strings"
	"time"

	"github.com/yandex/pandora/core/config"
	"github.com/yandex/pandora/core/plugin"
	"go.uber.org/zap/zapcore"
)

// ---- reference: "registered default overlaid with exactly the given keys" ----
//
// This is the harness' own reading of a config map: it shares no code with
// mapstructure, pandora's hooks or the validator. Durations are parsed with
// time.ParseDuration, sizes and log levels by the small tables below.

// NewDefault returns an addressable copy of the component's reference default config.
func NewDefault(c *Comp) reflect.Value {
	t := structOf(c.Conf)
	v := reflect.New(t).Elem()
	if c.Default != nil {
		d := reflect.ValueOf(c.Default())
		for d.Kind() == reflect.Ptr {
			d = d.Elem()
		}
		v.Set(d)
	}
	return v
}

var refLevels = map[string]zapcore.Level{
	"debug": zapcore.DebugLevel, "info": zapcore.InfoLevel, "warn": zapcore.WarnLevel, "error": zapcore.ErrorLevel,
	"dpanic": zapcore.DPanicLevel, "panic": zapcore.PanicLevel, "fatal": zapcore.FatalLevel,
}

// ParseSize is the reference reading of a size text ("4KB", "8kb", "100").
func ParseSize(s string) (uint64, error) {
	i := 0
	for i < len(s) && s[i] >= '0' && s[i] <= '9' {
		i++
	}
	if i == 0 {
		return 0, fmt.Errorf("size %q has no digits", s)
	}
	n, err := strconv.ParseUint(s[:i], 10, 64)
	if err != nil {
		return 0, err
	}
	switch strings.ToLower(strings.TrimSpace(s[i:])) {
	case "", "b":
		return n, nil
	case "kb":
		return n << 10, nil
	case "mb":
		return n << 20, nil
	case "gb":
		return n << 30, nil
	}
	return 0, fmt.Errorf("size %q has an unknown unit", s)
}

func asFloat(v any) (float64, bool) {
	switch x := v.(type) {
	case int:
		return float64(x), true
	case int64:
		return float64(x), true
	case float64:
		return x, true
	}
	return 0, false
}

func asInt(v any) (int64, bool) {
	switch x := v.(type) {
	case int:
		return int64(x), true
	case int64:
		return x, true
	case float64:
		if x == float64(int64(x)) {
			return int64(x), true
		}
	}
	return 0, false
}

// setScalar stores the reference reading of v in dst (a field of Go type dst.Type()).
func setScalar(f *Field, dst reflect.Value, v any) error {
	bad := func() error {
		return fmt.Errorf("reference: key %q (%s, Go type %s) cannot hold %T %v", f.Key, f.Class, dst.Type(), v, v)
	}
	switch dst.Type() {
	case tDuration:
		s, ok := v.(string)
		if !ok {
			return bad()
		}
		d, err := time.ParseDuration(s)
		if err != nil {
			return err
		}
		dst.SetInt(int64(d))
		return nil
	case tDataSize:
		switch x := v.(type) {
		case string:
			n, err := ParseSize(x)
			if err != nil {
				return err
			}
			dst.SetUint(n)
			return nil
		default:
			n, ok := asInt(v)
			if !ok || n < 0 {
				return bad()
			}
			dst.SetUint(uint64(n))
			return nil
		}
	case tLevel:
		s, ok := v.(string)
		if !ok {
			return bad()
		}
		l, ok := refLevels[strings.ToLower(s)]
		if !ok {
			return bad()
		}
		dst.SetInt(int64(l))
		return nil
	}
	switch dst.Kind() {
	case reflect.Bool:
		b, ok := v.(bool)
		if !ok {
			return bad()
		}
		dst.SetBool(b)
	case reflect.Int, reflect.Int8, reflect.Int16, reflect.Int32, reflect.Int64:
		n, ok := asInt(v)
		if !ok {
			return bad()
		}
		dst.SetInt(n)
	case reflect.Uint, reflect.Uint8, reflect.Uint16, reflect.Uint32, reflect.Uint64:
		n, ok := asInt(v)
		if !ok || n < 0 {
			return bad()
		}
		dst.SetUint(uint64(n))
	case reflect.Float32, reflect.Float64:
		x, ok := asFloat(v)
		if !ok {
			return bad()
		}
		dst.SetFloat(x)
	case reflect.String:
		s, ok := v.(string)
		if !ok {
			return bad()
		}
		dst.SetString(s)
	case reflect.Slice: // []string
		l, ok := v.([]any)
		if !ok {
			return bad()
		}
		out := reflect.MakeSlice(dst.Type(), 0, len(l))
		for _, e := range l {
			s, ok := e.(string)
			if !ok {
				return bad()
			}
			out = reflect.Append(out, reflect.ValueOf(s).Convert(dst.Type().Elem()))
		}
		dst.Set(out)
	case reflect.Map: // map[string]string
		m, ok := v.(map[string]any)
		if !ok {
			return bad()
		}
		out := reflect.MakeMapWithSize(dst.Type(), len(m))
		for k, e := range m {
			s, ok := e.(string)
			if !ok {
				return bad()
			}
			out.SetMapIndex(reflect.ValueOf(k), reflect.ValueOf(s))
		}
		dst.Set(out)
	default:
		return bad()
	}
	return nil
}

func deref(v reflect.Value, alloc bool) (reflect.Value, bool) {
	for v.Kind() == reflect.Ptr {
		if v.IsNil() {
			if !alloc {
				return v, false
			}
			v.Set(reflect.New(v.Type().Elem()))
		}
		v = v.Elem()
	}
	return v, true
}

// Overlay writes the keys of m (except `type` when typed) over dst, the struct
// described by fs. Plugin-valued keys are not interpreted (each nested section
// is judged on its own).
func Overlay(fs []*Field, dst reflect.Value, m map[string]any, typed bool) error {
	for _, key := range SortedKeys(m) {
		v := m[key]
		if typed && strings.EqualFold(key, "type") {
			continue
		}
		f := findField(fs, key)
		if f == nil {
			return fmt.Errorf("reference: %q is not a key of %s", key, dst.Type())
		}
		if v == nil {
			continue // a null value gives nothing: the default stays
		}
		switch f.Class {
		case CPlugin, CPluginList:
			continue
		case CStruct:
			sm, ok := v.(map[string]any)
			if !ok {
				return fmt.Errorf("reference: struct key %q holds %T", key, v)
			}
			for _, idx := range f.Index {
				d, _ := deref(dst.FieldByIndex(idx), true)
				if err := Overlay(f.Sub, d, sm, false); err != nil {
					return err
				}
			}
		case CStructList:
			l, ok := v.([]any)
			if !ok {
				return fmt.Errorf("reference: list key %q holds %T", key, v)
			}
			for _, idx := range f.Index {
				fv := dst.FieldByIndex(idx)
				out := reflect.MakeSlice(fv.Type(), len(l), len(l))
				for i, e := range l {
					sm, ok := e.(map[string]any)
					if !ok {
						return fmt.Errorf("reference: list key %q element %d holds %T", key, i, e)
					}
					if err := Overlay(f.Sub, out.Index(i), sm, false); err != nil {
						return err
					}
				}
				fv.Set(out)
			}
		default:
			for _, idx := range f.Index {
				if err := setScalar(f, dst.FieldByIndex(idx), v); err != nil {
					return err
				}
			}
		}
	}
	return nil
}

func emptyish(v reflect.Value) bool {
	switch v.Kind() {
	case reflect.Slice, reflect.Map:
		return v.Len() == 0
	}
	return false
}

// Compare reports the config keys whose Go fields differ between got and want
// (two structs described by fs). Plugin-valued fields are skipped; nil and empty
// slices / maps are the same.
func Compare(fs []*Field, got, want reflect.Value, path string) []string {
	var diffs []string
	for _, f := range fs {
		for _, idx := range f.Index {
			g, w := got.FieldByIndex(idx), want.FieldByIndex(idx)
			name := path + f.Key
			switch f.Class {
			case CPlugin, CPluginList:
			case CStruct:
				gd, gok := deref(g, false)
				wd, wok := deref(w, false)
				if gok != wok {
					diffs = append(diffs, fmt.Sprintf("%s: nil-ness differs (got set=%v, want set=%v)", name, gok, wok))
				} else if gok {
					diffs = append(diffs, Compare(f.Sub, gd, wd, name+".")...)
				}
			case CStructList:
				if g.Len() != w.Len() {
					diffs = append(diffs, fmt.Sprintf("%s: %d elements, want %d", name, g.Len(), w.Len()))
					continue
				}
				for i := 0; i < g.Len(); i++ {
					diffs = append(diffs, Compare(f.Sub, g.Index(i), w.Index(i), fmt.Sprintf("%s[%d].", name, i))...)
				}
			default:
				if emptyish(g) && emptyish(w) {
					continue
				}
				if !reflect.DeepEqual(g.Interface(), w.Interface()) {
					diffs = append(diffs, fmt.Sprintf("%s: got %v, want %v", name, g.Interface(), w.Interface()))
				}
			}
		}
	}
	return diffs
}

// FieldValues returns the Go field value(s) a dotted key of a struct feeds.
func FieldValues(fs []*Field, v reflect.Value, dotted string) (*Field, []reflect.Value) {
	parts := splitDots(dotted)
	cur := []reflect.Value{v}
	var f *Field
	for i, p := range parts {
		f = findField(fs, p)
		if f == nil {
			return nil, nil
		}
		var next []reflect.Value
		for _, c := range cur {
			for _, idx := range f.Index {
				fv := c.FieldByIndex(idx)
				if i < len(parts)-1 {
					d, ok := deref(fv, false)
					if !ok {
						continue
					}
					fv = d
				}
				next = append(next, fv)
			}
		}
		cur = next
		fs = f.Sub
	}
	return f, cur
}

// CheckDoc compares the documented defaults of the keys that a section does not
// give with the observed config.
func CheckDoc(c *Comp, section map[string]any, got reflect.Value) []string {
	var diffs []string
	for dotted, docv := range c.Doc {
		if givenDotted(section, dotted) {
			continue
		}
		f, vals := FieldValues(c.fields, got, dotted)
		for _, fv := range vals {
			want := reflect.New(fv.Type()).Elem()
			if err := setScalar(f, want, docv); err != nil {
				diffs = append(diffs, err.Error())
				continue
			}
			if !reflect.DeepEqual(fv.Interface(), want.Interface()) {
				diffs = append(diffs, fmt.Sprintf("%s: key absent, decoded %v, documented default %v", dotted, fv.Interface(), docv))
			}
		}
	}
	return diffs
}

// givenDotted reports whether a dotted key has a non-null value in the section.
func givenDotted(m map[string]any, dotted string) bool {
	parts := splitDots(dotted)
	var cur any = m
	for _, p := range parts {
		cm, ok := cur.(map[string]any)
		if !ok {
			return false
		}
		found := false
		for k, v := range cm {
			if strings.EqualFold(k, p) {
				cur, found = v, true
				break
			}
		}
		if !found || cur == nil {
			return false
		}
	}
	return true
}

// ---- observation of what the registry hands to a constructor ----

var errObserved = errors.New("confgen: observed (construction aborted on purpose)")

// ObserveSection asks pandora's plugin registry for the component of a section
// exactly like pluginconfig's hooks do (plugin.New(type, name, fillConf) with a
// fillConf that runs config.DecodeAndValidate on the section without its `type`
// key), copies the filled config — the REGISTERED default overlaid by the real
// decoder — and aborts the construction.
// ok=false: the component takes no config (only the absence of other keys is checked).
func ObserveSection(s *Site) (conf reflect.Value, ok bool, err error) {
	section := CloneMap(s.Map)
	for k := range section {
		if strings.EqualFold(k, "type") {
			delete(section, k)
		}
	}
	fill := func(c interface{}) error {
		if err := config.DecodeAndValidate(section, c); err != nil {
			return err
		}
		v := reflect.ValueOf(c).Elem()
		if s.Comp.Conf != nil {
			if v.Type() != structOf(s.Comp.Conf) {
				return fmt.Errorf("confgen table out of date: %s is registered with config type %s, table says %s",
					s.Comp.Label(), v.Type(), structOf(s.Comp.Conf))
			}
			conf = reflect.New(v.Type()).Elem()
			conf.Set(v)
			ok = true
		} else if v.NumField() != 0 {
			return fmt.Errorf("confgen table out of date: %s is registered with config type %s, table says none", s.Comp.Label(), v.Type())
		}
		return errObserved
	}
	_, err = plugin.New(PluginType(s.Comp.Kind), s.Comp.Name, fill)
	if errors.Is(err, errObserved) {
		return conf, ok, nil
	}
	if err == nil {
		err = fmt.Errorf("plugin.New(%s) built a component although fillConf failed", s.Comp.Label())
	}
	return reflect.Value{}, false, err
}
