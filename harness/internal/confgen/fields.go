// Package confgen is the reflection-driven generator / mutator support for
// pandora component configurations (property C17).
//
// It holds a table of the registered components (mirroring the Import functions
// of /repo), derives the accepted config keys of every component by reflecting
// over its Go config struct, generates valid config maps, enumerates the
// "sites" (struct-typed maps where an unknown key can be inserted) and "leaves"
// (values that can be mistyped / violate a constraint / hold a placeholder) of a
// config, and contains an independent reference implementation of "registered
// default overlaid with exactly the given keys".
package confgen

import (
	"fmt"
	"reflect"
	"strings"
	"time"

	"github.com/c2h5oh/datasize"
	"github.com/yandex/pandora/components/providers/http/middleware"
	"github.com/yandex/pandora/core"
	"github.com/yandex/pandora/core/plugin"
	"go.uber.org/zap/zapcore"
)

// Value classes of config fields.
const (
	CBool       = "bool"
	CInt        = "int"
	CUint       = "uint"
	CFloat      = "float"
	CString     = "string"
	CDuration   = "duration"
	CDataSize   = "datasize"
	CLevel      = "level"
	CStrList    = "strlist"
	CStrMap     = "strmap"
	CStruct     = "struct"
	CStructList = "structlist"
	CPlugin     = "plugin"
	CPluginList = "pluginlist"
)

// Component kinds (the plugin interface a config section is decoded into).
const (
	KGun    = "gun"
	KAmmo   = "ammo"
	KResult = "result"
	KSched  = "schedule"
	KSink   = "sink"
	KSource = "source"
	KMW     = "middleware"
)

var (
	tDuration = reflect.TypeOf(time.Duration(0))
	tDataSize = reflect.TypeOf(datasize.ByteSize(0))
	tLevel    = reflect.TypeOf(zapcore.Level(0))

	pluginTypes = map[string]reflect.Type{
		KGun:    plugin.PtrType((*core.Gun)(nil)),
		KAmmo:   plugin.PtrType((*core.Provider)(nil)),
		KResult: plugin.PtrType((*core.Aggregator)(nil)),
		KSched:  plugin.PtrType((*core.Schedule)(nil)),
		KSink:   plugin.PtrType((*core.DataSink)(nil)),
		KSource: plugin.PtrType((*core.DataSource)(nil)),
		KMW:     plugin.PtrType((*middleware.Middleware)(nil)),
	}
)

// PluginType returns the plugin interface type of a component kind.
func PluginType(kind string) reflect.Type { return pluginTypes[kind] }

// Field describes one config key of a struct (after flattening squashed structs).
type Field struct {
	Key      string         // config key, lower case
	Index    [][]int        // reflect index paths (relative to the owning struct) of all Go fields fed by this key
	Types    []reflect.Type // Go types of those fields
	Class    string
	Validate string   // validate tag of the (first) field
	Sub      []*Field // CStruct / CStructList: keys of the nested struct
	SubType  reflect.Type
	Kind     string // CPlugin / CPluginList: component kind
}

// pluginKind maps a Go field type to the component kind decoded into it.
func pluginKind(t reflect.Type) (kind string, list, ok bool) {
	if t.Kind() == reflect.Slice {
		k, l, ok := pluginKind(t.Elem())
		if !ok || l {
			return "", false, false
		}
		return k, true, true
	}
	if t.Kind() == reflect.Func {
		pt, isFactory := plugin.FactoryPluginType(t)
		if !isFactory {
			return "", false, false
		}
		t = pt
	}
	if t.Kind() != reflect.Interface {
		return "", false, false
	}
	for k, pt := range pluginTypes {
		if pt == t {
			return k, false, true
		}
	}
	return "", false, false
}

func classOf(t reflect.Type) (string, error) {
	switch t {
	case tDuration:
		return CDuration, nil
	case tDataSize:
		return CDataSize, nil
	case tLevel:
		return CLevel, nil
	}
	if _, list, ok := pluginKind(t); ok {
		if list {
			return CPluginList, nil
		}
		return CPlugin, nil
	}
	switch t.Kind() {
	case reflect.Bool:
		return CBool, nil
	case reflect.Int, reflect.Int8, reflect.Int16, reflect.Int32, reflect.Int64:
		return CInt, nil
	case reflect.Uint, reflect.Uint8, reflect.Uint16, reflect.Uint32, reflect.Uint64:
		return CUint, nil
	case reflect.Float32, reflect.Float64:
		return CFloat, nil
	case reflect.String:
		return CString, nil
	case reflect.Struct:
		return CStruct, nil
	case reflect.Ptr:
		if t.Elem().Kind() == reflect.Struct {
			return CStruct, nil
		}
	case reflect.Slice:
		if t.Elem().Kind() == reflect.String {
			return CStrList, nil
		}
		if t.Elem().Kind() == reflect.Struct {
			return CStructList, nil
		}
	case reflect.Map:
		if t.Key().Kind() == reflect.String && t.Elem().Kind() == reflect.String {
			return CStrMap, nil
		}
	}
	return "", fmt.Errorf("confgen: unhandled config field type %s", t)
}

func structOf(t reflect.Type) reflect.Type {
	for t.Kind() == reflect.Ptr || t.Kind() == reflect.Slice {
		t = t.Elem()
	}
	return t
}

// FieldsOf lists the config keys a struct type accepts, the way pandora's
// mapstructure configuration (TagName "config", ",squash") sees them.
func FieldsOf(t reflect.Type) ([]*Field, error) {
	t = structOf(t)
	if t.Kind() != reflect.Struct {
		return nil, fmt.Errorf("confgen: %s is not a struct", t)
	}
	var out []*Field
	byKey := map[string]*Field{}
	var walk func(st reflect.Type, prefix []int) error
	walk = func(st reflect.Type, prefix []int) error {
		for i := 0; i < st.NumField(); i++ {
			sf := st.Field(i)
			if sf.PkgPath != "" && !sf.Anonymous {
				continue // unexported: the decoder cannot set it
			}
			tag := sf.Tag.Get("config")
			parts := strings.Split(tag, ",")
			squash := false
			for _, p := range parts[1:] {
				if p == "squash" {
					squash = true
				}
			}
			idx := append(append([]int{}, prefix...), i)
			if squash {
				if sf.Type.Kind() != reflect.Struct {
					return fmt.Errorf("confgen: squash on non-struct %s.%s", st, sf.Name)
				}
				if err := walk(sf.Type, idx); err != nil {
					return err
				}
				continue
			}
			if sf.PkgPath != "" {
				continue
			}
			name := parts[0]
			if name == "-" {
				continue // never fed from a documented key
			}
			if name == "" {
				name = sf.Name
			}
			key := strings.ToLower(name)
			class, err := classOf(sf.Type)
			if err != nil {
				return fmt.Errorf("%w (field %s.%s)", err, st, sf.Name)
			}
			if f, dup := byKey[key]; dup {
				// one key feeding two Go fields (jsonlines buffer-size): valid values are
				// those both accept; the narrower class wins.
				f.Index = append(f.Index, idx)
				f.Types = append(f.Types, sf.Type)
				if f.Class == CDataSize && class == CInt {
					f.Class = CInt
				}
				continue
			}
			f := &Field{Key: key, Index: [][]int{idx}, Types: []reflect.Type{sf.Type}, Class: class, Validate: sf.Tag.Get("validate")}
			switch class {
			case CStruct, CStructList:
				f.SubType = structOf(sf.Type)
				sub, err := FieldsOf(f.SubType)
				if err != nil {
					return err
				}
				f.Sub = sub
			case CPlugin, CPluginList:
				f.Kind, _, _ = pluginKind(sf.Type)
			}
			byKey[key] = f
			out = append(out, f)
		}
		return nil
	}
	if err := walk(t, nil); err != nil {
		return nil, err
	}
	return out, nil
}

func findField(fs []*Field, key string) *Field {
	for _, f := range fs {
		if strings.EqualFold(f.Key, key) {
			return f
		}
	}
	return nil
}

// Keys returns the keys of a field list.
func Keys(fs []*Field) []string {
	out := make([]string, 0, len(fs))
	for _, f := range fs {
		out = append(out, f.Key)
	}
	return out
}
