// Package vf is the per-process runtime of the verification harness: it counts
// evaluations, classifies cases, collects distinct non-trivial case hashes and
// samples, writes shrunk failing cases as JSON replay files and emits a JSON
// report that the ./check driver merges into /verif/evidence/<ID>.json.
//
// Every random choice of a property is drawn through rapid, so a run is a pure
// function of the code under test and the -rapid.seed the driver derives from
// VERIF_SEED.
package vf

import (
	"encoding/json"
	"flag"
	"fmt"
	"hash/fnv"
	"os"
	"path/filepath"
	"regexp"
	"runtime"
	"runtime/debug"
	"sort"
	"strconv"
	"strings"
	"sync"
	"testing"
	"time"

	"pgregory.net/rapid"
)

// Obs is filled in by a property while it judges one case.
type Obs struct {
	classes    []string
	nontrivial bool
	key        any
	note       map[string]any
	skipSample bool
}

// Class tags the case with a class name (histogram in the evidence).
func (o *Obs) Class(names ...string) { o.classes = append(o.classes, names...) }

// ClassIf tags the case when cond holds.
func (o *Obs) ClassIf(cond bool, name string) {
	if cond {
		o.classes = append(o.classes, name)
	}
}

// NonTrivial marks the case as non-trivial by the property's stated rule.
func (o *Obs) NonTrivial() { o.nontrivial = true }

// Key overrides what is hashed for distinctness (default: the whole case).
func (o *Obs) Key(k any) { o.key = k }

// Note attaches an observation that is stored with the sample / replay file.
func (o *Obs) Note(k string, v any) {
	if o.note == nil {
		o.note = map[string]any{}
	}
	o.note[k] = v
}

// Failure is one failing case as reported to the driver.
type Failure struct {
	Test   string `json:"test"`
	Replay string `json:"replay"`
	Msg    string `json:"msg"`
}

// KnownFinding mirrors one entry of /verif/known_findings.json.
type KnownFinding struct {
	Property  string         `json:"property"`
	ID        string         `json:"id"`
	Status    string         `json:"status"`
	What      string         `json:"what"`
	Commit    string         `json:"commit,omitempty"`
	Signature map[string]any `json:"signature,omitempty"`
}

// Run is the state of one test function in one process.
type Run struct {
	Prop string
	Test string
	Tier string
	Seed int64

	t         *testing.T
	mu        sync.Mutex
	start     time.Time
	evals     int64
	nontriv   int64
	classes   map[string]int64
	hashes    map[uint64]struct{}
	samples   []any
	failures  []Failure
	knownHits map[string]int64
	excluded  map[string]int64
	extra     map[string]any
	known     []KnownFinding
	replay    []byte
	requested int
	finished  bool
}

const maxHashes = 400000
const maxSamples = 4

func envInt(k string, def int64) int64 {
	if v := os.Getenv(k); v != "" {
		if n, err := strconv.ParseInt(v, 10, 64); err == nil {
			return n
		}
	}
	return def
}

// Start begins a run for the calling test function.
func Start(t *testing.T, prop string) *Run {
	r := &Run{
		Prop: prop, Test: t.Name(), t: t,
		Tier:      os.Getenv("VERIF_TIER"),
		Seed:      envInt("VERIF_SEED", 1),
		start:     time.Now(),
		classes:   map[string]int64{},
		hashes:    map[uint64]struct{}{},
		knownHits: map[string]int64{},
		excluded:  map[string]int64{},
		extra:     map[string]any{},
	}
	if r.Tier == "" {
		r.Tier = "quick"
	}
	if f := flag.Lookup("rapid.checks"); f != nil {
		r.requested, _ = strconv.Atoi(f.Value.String())
	}
	if p := os.Getenv("VERIF_KNOWN"); p != "" {
		if b, err := os.ReadFile(p); err == nil {
			var all []KnownFinding
			if json.Unmarshal(b, &all) == nil {
				for _, k := range all {
					if k.Property == prop {
						r.known = append(r.known, k)
					}
				}
			}
		}
	}
	if p := os.Getenv("VERIF_REPLAY"); p != "" {
		b, err := os.ReadFile(p)
		if err != nil {
			t.Fatalf("replay file: %v", err)
		}
		var rf struct {
			Property string          `json:"property"`
			Test     string          `json:"test"`
			Case     json.RawMessage `json:"case"`
		}
		if err := json.Unmarshal(b, &rf); err != nil {
			t.Fatalf("replay file: %v", err)
		}
		if rf.Test != "" && rf.Test != t.Name() {
			t.Skipf("replay file is for %s", rf.Test)
		}
		r.replay = rf.Case
	}
	t.Cleanup(r.Finish)
	return r
}

// Detached returns a Run that only knows the list of known findings (IsKnown / Excluded / KnownHit work, nothing is
// reported): for native fuzz targets, whose body has no *testing.T of a top-level test.
func Detached(prop string) *Run {
	r := &Run{Prop: prop, Test: "detached", Tier: os.Getenv("VERIF_TIER"), Seed: envInt("VERIF_SEED", 1), start: time.Now(),
		classes: map[string]int64{}, hashes: map[uint64]struct{}{}, knownHits: map[string]int64{}, excluded: map[string]int64{},
		extra: map[string]any{}, finished: true}
	if p := os.Getenv("VERIF_KNOWN"); p != "" {
		if b, err := os.ReadFile(p); err == nil {
			var all []KnownFinding
			if json.Unmarshal(b, &all) == nil {
				for _, k := range all {
					if k.Property == prop {
						r.known = append(r.known, k)
					}
				}
			}
		}
	}
	return r
}

// Thorough reports whether the thorough tier is running.
func (r *Run) Thorough() bool { return r.Tier == "thorough" }

// Pick returns q in the quick tier and th in the thorough tier.
func (r *Run) Pick(q, th int) int {
	if r.Thorough() {
		return th
	}
	return q
}

// IsKnown reports whether a finding id is listed with status "known".
func (r *Run) IsKnown(id string) bool {
	for _, k := range r.known {
		if k.ID == id && k.Status == "known" {
			return true
		}
	}
	return false
}

// Excluded counts a case that the generator steered away from a known finding.
func (r *Run) Excluded(id string) {
	r.mu.Lock()
	r.excluded[id]++
	r.mu.Unlock()
}

// KnownHit records that a listed known finding was reproduced by its witness.
func (r *Run) KnownHit(id string) {
	r.mu.Lock()
	r.knownHits[id]++
	r.mu.Unlock()
}

// Extra stores a free-form value in the report (summed by the driver if numeric).
func (r *Run) Extra(k string, v any) {
	r.mu.Lock()
	r.extra[k] = v
	r.mu.Unlock()
}

// AddExtra adds n to a numeric extra counter.
func (r *Run) AddExtra(k string, n int64) {
	r.mu.Lock()
	cur, _ := r.extra[k].(int64)
	r.extra[k] = cur + n
	r.mu.Unlock()
}

func hashOf(v any) uint64 {
	b, err := json.Marshal(v)
	if err != nil {
		b = []byte(fmt.Sprintf("%#v", v))
	}
	h := fnv.New64a()
	h.Write(b)
	return h.Sum64()
}

// Record accounts for one evaluated case. err != nil makes it a failure: the
// case is written to the replay file (overwriting earlier, larger ones — rapid
// re-executes the minimal case last).
func (r *Run) Record(c any, o *Obs, err error) {
	r.mu.Lock()
	defer r.mu.Unlock()
	r.evals++
	if o != nil {
		for _, cl := range o.classes {
			r.classes[cl]++
		}
		if o.nontrivial {
			r.nontriv++
			k := o.key
			if k == nil {
				k = c
			}
			if len(r.hashes) < maxHashes {
				r.hashes[hashOf(k)] = struct{}{}
			}
			if len(r.samples) < maxSamples && !o.skipSample {
				r.samples = append(r.samples, sampleOf(c, o))
			}
		}
	}
	if err != nil {
		r.writeFailure(c, o, err)
	}
}

func sampleOf(c any, o *Obs) any {
	if o == nil || len(o.note) == 0 {
		return map[string]any{"case": c}
	}
	return map[string]any{"case": c, "observed": o.note}
}

func (r *Run) writeFailure(c any, o *Obs, err error) {
	dir := os.Getenv("VERIF_REPLAY_DIR")
	if dir == "" {
		dir = os.TempDir()
	}
	_ = os.MkdirAll(dir, 0o755)
	shard := os.Getenv("VERIF_SHARD")
	name := fmt.Sprintf("%s-seed%d-s%s.json", strings.ReplaceAll(r.Test, "/", "_"), r.Seed, shard)
	path := filepath.Join(dir, name)
	doc := map[string]any{
		"property": r.Prop,
		"test":     r.Test,
		"case":     c,
		"error":    err.Error(),
	}
	if o != nil && len(o.note) > 0 {
		doc["observed"] = o.note
	}
	b, _ := json.MarshalIndent(doc, "", " ")
	_ = os.WriteFile(path, b, 0o644)
	msg := err.Error()
	if len(msg) > 2000 {
		msg = msg[:2000] + "..."
	}
	// Keep one failure entry per replay path (shrinking rewrites it).
	for i := range r.failures {
		if r.failures[i].Replay == path {
			r.failures[i].Msg = msg
			return
		}
	}
	r.failures = append(r.failures, Failure{Test: r.Test, Replay: path, Msg: msg})
}

// Finish writes the report. Called automatically via t.Cleanup.
func (r *Run) Finish() {
	r.mu.Lock()
	defer r.mu.Unlock()
	if r.finished {
		return
	}
	r.finished = true
	p := os.Getenv("VERIF_REPORT")
	if p == "" {
		return
	}
	hs := make([]string, 0, len(r.hashes))
	for h := range r.hashes {
		hs = append(hs, strconv.FormatUint(h, 36))
	}
	sort.Strings(hs)
	rep := map[string]any{
		"property":   r.Prop,
		"test":       r.Test,
		"tier":       r.Tier,
		"seed":       r.Seed,
		"requested":  r.requested,
		"evals":      r.evals,
		"nontrivial": r.nontriv,
		"classes":    r.classes,
		"hashes":     hs,
		"samples":    r.samples,
		"failures":   r.failures,
		"known_hits": r.knownHits,
		"excluded":   r.excluded,
		"extra":      r.extra,
		"wall_s":     time.Since(r.start).Seconds(),
		"replay":     r.replay != nil,
		"go_failed":  r.t.Failed(),
	}
	b, _ := json.Marshal(rep)
	f, err := os.OpenFile(p, os.O_APPEND|os.O_CREATE|os.O_WRONLY, 0o644)
	if err != nil {
		return
	}
	defer f.Close()
	f.Write(append(b, '\n'))
}

// markCurrent stores the case about to be executed, so that the driver can turn a
// process crash (a panic in a goroutine pandora spawned, a runtime fatal error, a
// race-detector abort) into a replayable failing case.
func (r *Run) markCurrent(c any) {
	p := os.Getenv("VERIF_CURRENT")
	if p == "" {
		return
	}
	b, err := json.Marshal(map[string]any{"property": r.Prop, "test": r.Test, "case": c,
		"error": "process died while executing this case"})
	if err != nil {
		return
	}
	_ = os.WriteFile(p, b, 0o644)
}

// markBatch is markCurrent for Batch: all cases being executed at the moment.
func (r *Run) markBatch(cs []any) {
	p := os.Getenv("VERIF_CURRENT")
	if p == "" {
		return
	}
	b, err := json.Marshal(map[string]any{"property": r.Prop, "test": r.Test, "batch": cs,
		"error": "process died while executing these cases"})
	if err != nil {
		return
	}
	_ = os.WriteFile(p, b, 0o644)
}

// GoErr runs f in a new goroutine, turning a panic into an error delivered to sink.
func GoErr(wg *sync.WaitGroup, sink *ErrSink, f func()) {
	if wg != nil {
		wg.Add(1)
	}
	go func() {
		if wg != nil {
			defer wg.Done()
		}
		defer func() {
			if p := recover(); p != nil {
				sink.Set(fmt.Errorf("panic in harness-started goroutine: %v\n%s", p, debug.Stack()))
			}
		}()
		f()
	}()
}

// ErrSink keeps the first error reported by concurrent goroutines.
type ErrSink struct {
	mu  sync.Mutex
	err error
}

func (e *ErrSink) Set(err error) {
	if err == nil {
		return
	}
	e.mu.Lock()
	if e.err == nil {
		e.err = err
	}
	e.mu.Unlock()
}

func (e *ErrSink) Get() error {
	e.mu.Lock()
	defer e.mu.Unlock()
	return e.err
}

// Guard runs f converting a panic into an error with the stack attached.
func Guard(f func() error) (err error) {
	defer func() {
		if p := recover(); p != nil {
			err = fmt.Errorf("panic: %v\n%s", p, debug.Stack())
		}
	}()
	return f()
}

// Check drives prop over generated cases with rapid (or over the replay case).
// prop must be a pure function of the case and the code under test.
func Check[C any](r *Run, gen func(*rapid.T) C, prop func(C, *Obs) error) {
	t := r.t
	t.Helper()
	if r.replay != nil {
		var c C
		if err := json.Unmarshal(r.replay, &c); err != nil {
			t.Fatalf("replay case does not decode: %v", err)
		}
		n := 1
		if v := envInt("VERIF_REPLAY_REPEAT", 0); v > 0 {
			n = int(v)
		}
		for i := 0; i < n; i++ {
			o := &Obs{}
			r.markCurrent(c)
			err := Guard(func() error { return prop(c, o) })
			r.Record(c, o, err)
			if err != nil {
				t.Fatalf("replay failed: %v", err)
			}
		}
		return
	}
	// Shrinking budget: rapid checks its own -rapid.shrinktime only between passes, and one pass can evaluate the
	// property dozens of times; when a failing evaluation costs seconds (hang deadlines) that is tens of minutes.
	// Once the budget since the first failure is spent, candidates are no longer executed: a case already known
	// to fail answers with its recorded error (so rapid's final re-run of the minimal case agrees), any other
	// candidate is answered "passes" (rapid keeps the smallest failing case found so far).
	budget := time.Duration(envInt("VERIF_SHRINK_BUDGET_S", 60)) * time.Second
	var firstFail time.Time
	failed := map[uint64]string{}
	rapid.Check(t, func(rt *rapid.T) {
		c := gen(rt)
		if !firstFail.IsZero() && time.Since(firstFail) > budget {
			if msg, ok := failed[hashOf(c)]; ok {
				rt.Fatalf("%s", msg)
			}
			return
		}
		o := &Obs{}
		r.markCurrent(c)
		err := Guard(func() error { return prop(c, o) })
		r.Record(c, o, err)
		if err != nil {
			if firstFail.IsZero() {
				firstFail = time.Now()
			}
			failed[hashOf(c)] = err.Error()
			rt.Fatalf("%v", err)
		}
	})
}

// Example draws one case deterministically from gen for the given index, using
// the run's seed (for batch-parallel, sleep-bound properties).
func Example[C any](r *Run, gen func(*rapid.T) C, idx int) C {
	shard := envInt("VERIF_SHARD", 0)
	seed := int(1 + r.Seed*1000003 + shard*100003 + int64(idx))
	return rapid.Custom(gen).Example(seed)
}

// Batch evaluates n generated cases with at most par running concurrently.
// Used for sleep-bound properties where wall-clock, not CPU, is the cost.
// In replay mode only the replay case is evaluated.
func Batch[C any](r *Run, n, par int, gen func(*rapid.T) C, prop func(C, *Obs) error) {
	t := r.t
	t.Helper()
	if r.replay != nil {
		Check(r, gen, prop)
		return
	}
	type res struct {
		c   C
		o   *Obs
		err error
	}
	sem := make(chan struct{}, par)
	out := make([]res, n)
	var wg sync.WaitGroup
	// the cases in flight are written down, so that the driver can find the one that killed the process
	// (a panic in a goroutine pandora spawned) by running them one by one
	var flightMu sync.Mutex
	flight := map[int]any{}
	mark := func(i int, c any, on bool) {
		flightMu.Lock()
		defer flightMu.Unlock()
		if on {
			flight[i] = c
		} else {
			delete(flight, i)
		}
		idx := make([]int, 0, len(flight))
		for k := range flight {
			idx = append(idx, k)
		}
		sort.Ints(idx)
		cs := make([]any, 0, len(idx))
		for _, k := range idx {
			cs = append(cs, flight[k])
		}
		r.markBatch(cs)
	}
	for i := 0; i < n; i++ {
		c := Example(r, gen, i)
		wg.Add(1)
		sem <- struct{}{}
		mark(i, c, true)
		go func(i int, c C) {
			defer wg.Done()
			defer func() { <-sem }()
			o := &Obs{}
			err := Guard(func() error { return prop(c, o) })
			out[i] = res{c, o, err}
			mark(i, c, false)
		}(i, c)
	}
	wg.Wait()
	failed := false
	for _, x := range out {
		if x.err != nil && failed {
			// only the first failure becomes the replay file
			r.Record(x.c, x.o, nil)
			continue
		}
		r.Record(x.c, x.o, x.err)
		if x.err != nil {
			failed = true
			t.Errorf("case failed: %v", x.err)
		}
	}
	r.mu.Lock()
	r.requested = n
	r.mu.Unlock()
}

// Deadline runs f and returns false with all goroutine stacks if it does not
// return within d. f keeps running in its goroutine (callers must tolerate it).
func Deadline(d time.Duration, f func()) (ok bool, stacks string) {
	done := make(chan struct{})
	go func() {
		defer close(done)
		f()
	}()
	tm := time.NewTimer(d)
	defer tm.Stop()
	select {
	case <-done:
		return true, ""
	case <-tm.C:
		buf := make([]byte, 1<<20)
		n := runtime.Stack(buf, true)
		return false, string(buf[:n])
	}
}

// GoID returns the current goroutine id (parsed from runtime.Stack).
func GoID() int64 {
	var buf [64]byte
	n := runtime.Stack(buf[:], false)
	s := strings.TrimPrefix(string(buf[:n]), "goroutine ")
	if i := strings.IndexByte(s, ' '); i > 0 {
		id, _ := strconv.ParseInt(s[:i], 10, 64)
		return id
	}
	return -1
}

// LoadProbe measures how late a sleeping goroutine of this process is woken up while a case runs: the
// overshoot of a 2 ms sleep. It is the harness's evidence that a configured client-side timeout (100-200 ms)
// may have expired because the machine was busy, not because of the code under test.
type LoadProbe struct {
	stop chan struct{}
	done chan struct{}
	max  time.Duration
}

func StartLoadProbe() *LoadProbe {
	p := &LoadProbe{stop: make(chan struct{}), done: make(chan struct{})}
	go func() {
		defer close(p.done)
		for {
			select {
			case <-p.stop:
				return
			default:
			}
			t0 := time.Now()
			time.Sleep(2 * time.Millisecond)
			if d := time.Since(t0) - 2*time.Millisecond; d > p.max {
				p.max = d
			}
		}
	}()
	return p
}

// Stop ends the probe and returns the largest overshoot seen.
func (p *LoadProbe) Stop() time.Duration {
	close(p.stop)
	<-p.done
	return p.max
}

// LoadTolerant wraps a property whose oracle contains a client-side timeout that a well-behaved peer must
// not trip. A failure is reported only if it is reproducible without measured scheduling delays: a failing
// evaluation during which the probe saw a wake-up later than maxLate is repeated (up to 3 times); if every
// failing attempt was disturbed the case is counted as inconclusive (class inconclusive_machine_load, not a
// pass of the oracle; the driver turns a high share of such cases into exit 2). An undisturbed failing
// attempt is a failure. Passing attempts are never questioned.
func LoadTolerant[C any](maxLate time.Duration, prop func(C, *Obs) error) func(C, *Obs) error {
	return func(c C, o *Obs) error {
		var err error
		for attempt := 0; attempt < 3; attempt++ {
			o2 := &Obs{}
			p := StartLoadProbe()
			err = Guard(func() error { return prop(c, o2) })
			late := p.Stop()
			if err == nil {
				*o = *o2
				if attempt > 0 {
					o.Class("passed_on_retry_after_machine_load")
				}
				return nil
			}
			// A failure whose text shows a client-side timeout (errno 110, gRPC 504, "timeout") must repeat on every
			// attempt: code that really loses a well-behaved answer loses it every time, a starved client does not.
			// Any other failure is final as soon as one attempt ran undisturbed.
			// a machine that is oversubscribed several times over (1-minute load average above 4 runnable tasks per
			// core) starves goroutines for hundreds of milliseconds although timers still fire on time: such an
			// attempt counts as disturbed as well
			// - but only for failures that look like a starved exchange (a transport-level failure code or a timeout in the
			// message); a wrong header, body, count or tag is final whatever the load
			if late <= maxLate && starvedSymptom.MatchString(err.Error()) && overloaded() {
				late = maxLate + 1
			}
			if late <= maxLate && !timeoutSymptom.MatchString(err.Error()) {
				*o = *o2
				return err
			}
			if attempt == 2 && timeoutSymptom.MatchString(err.Error()) && late <= maxLate {
				*o = *o2
				return err // three timeouts in a row, the last one on an undisturbed machine
			}
			time.Sleep(time.Duration(50*(attempt+1)) * time.Millisecond)
		}
		o.Class("inconclusive_machine_load")
		o.Note("inconclusive", err.Error())
		return nil
	}
}

// overloaded reports whether the 1-minute load average exceeds 4 per core (Linux; false where it cannot be read).
func overloaded() bool {
	b, err := os.ReadFile("/proc/loadavg")
	if err != nil {
		return false
	}
	f := strings.Fields(string(b))
	if len(f) == 0 {
		return false
	}
	v, err := strconv.ParseFloat(f[0], 64)
	return err == nil && v > 4*float64(runtime.NumCPU())
}

// starvedSymptom: what an exchange that was starved of CPU looks like in a failure message: a non-zero net code, a
// sample without a protocol code, a timeout.
var starvedSymptom = regexp.MustCompile(`\bnet[= ][1-9]\d*\b|\bproto[= ]0\b|(?i)time[d ]?out|deadline exceeded`)

var timeoutSymptom = regexp.MustCompile(`net=110\b|\b504\b|(?i)time[d ]?out|deadline exceeded`)
