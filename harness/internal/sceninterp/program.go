// Package sceninterp is the reference semantics of pandora's HTTP scenario
// descriptions, written from the documentation (docs/eng/scenario-http-generator.md,
// docs/eng/scenario/*.md) and independent of pandora's code:
//
//   - Program is a *structured* scenario program: every templated string is a list
//     of parts (literal text or a reference to a data-source value, a preprocessor
//     variable or a value captured by a postprocessor), so that the interpreter never
//     has to parse a Go template. Program.Model() lowers it to a scengen.Model whose
//     YAML rendering is what pandora reads.
//   - Interp executes scenario invocations step by step (list expansion with
//     multiplicities and pauses, [next]/[last]/[i] indexing, variable flow inside one
//     invocation, stop at the first failing step).
//   - MakeReply synthesises the target's responses (fresh values, injected faults);
//     target and interpreter share it, it is part of the world, not of pandora.
package sceninterp

import (
	"bytes"
	"encoding/csv"
	"encoding/json"
	"fmt"
	"regexp"
	"strconv"
	"strings"

	"verif/harness/internal/scengen"
)

// Reference kinds of a template part.
const (
	RefSrcVar  = "src_var"    // {{.source.S.K}}                       (variables source)
	RefSrcRow  = "src_row"    // {{(index .source.S[.W] I).F}}         (csv / json array source)
	RefPre     = "pre"        // {{.request.R.preprocessor.V}}
	RefPost    = "post"       // {{.request.R.postprocessor.V}}
	RefPostFld = "post_field" // {{.request.R.postprocessor.V.F}}      (captured JSON object)
	RefPostIdx = "post_index" // {{index .request.R.postprocessor.V I}} (captured array)
)

// Ref is a reference inside a template.
type Ref struct {
	Kind   string `json:"kind"`
	Source string `json:"source,omitempty"`
	Wrap   string `json:"wrap,omitempty"` // json source: key that holds the array ("" = top-level array)
	Index  int    `json:"index,omitempty"`
	Field  string `json:"field,omitempty"` // source key / row field / object field
	Req    string `json:"req,omitempty"`
	Var    string `json:"var,omitempty"`
}

// Part is literal text or a reference.
type Part struct {
	Lit string `json:"lit,omitempty"`
	Ref *Ref   `json:"ref,omitempty"`
}

// Tmpl is a templated string.
type Tmpl []Part

// Text is the Go-template text of the string (standard text/template syntax only).
func (t Tmpl) Text() string {
	var sb strings.Builder
	for _, p := range t {
		if p.Ref == nil {
			sb.WriteString(p.Lit)
			continue
		}
		r := p.Ref
		switch r.Kind {
		case RefSrcVar:
			fmt.Fprintf(&sb, "{{.source.%s.%s}}", r.Source, r.Field)
		case RefSrcRow:
			arr := ".source." + r.Source
			if r.Wrap != "" {
				arr += "." + r.Wrap
			}
			fmt.Fprintf(&sb, "{{(index %s %d).%s}}", arr, r.Index, r.Field)
		case RefPre:
			fmt.Fprintf(&sb, "{{.request.%s.preprocessor.%s}}", r.Req, r.Var)
		case RefPost:
			fmt.Fprintf(&sb, "{{.request.%s.postprocessor.%s}}", r.Req, r.Var)
		case RefPostFld:
			fmt.Fprintf(&sb, "{{.request.%s.postprocessor.%s.%s}}", r.Req, r.Var, r.Field)
		case RefPostIdx:
			fmt.Fprintf(&sb, "{{index .request.%s.postprocessor.%s %d}}", r.Req, r.Var, r.Index)
		default:
			panic("sceninterp: unknown ref kind " + r.Kind)
		}
	}
	return sb.String()
}

// Refs lists the references of the template.
func (t Tmpl) Refs() []*Ref {
	var out []*Ref
	for _, p := range t {
		if p.Ref != nil {
			out = append(out, p.Ref)
		}
	}
	return out
}

// Source kinds.
const (
	SrcCSV  = "csv"
	SrcJSON = "json"
	SrcVars = "variables"
)

// Source is one data source. csv/json sources are arrays of rows (Fields x Rows),
// a variables source is a flat key/value map.
type Source struct {
	Name       string      `json:"name"`
	Kind       string      `json:"kind"`
	Fields     []string    `json:"fields,omitempty"`
	Rows       [][]string  `json:"rows,omitempty"`
	HeaderLine bool        `json:"header_line,omitempty"` // csv: file starts with a header line, ignore_first_line: true
	Delimiter  string      `json:"delimiter,omitempty"`   // csv: "" (default ","), "," or ";"
	Wrap       string      `json:"wrap,omitempty"`        // json: the array sits under this key
	Vars       scengen.KVs `json:"vars,omitempty"`
}

var numRe = regexp.MustCompile(`^(0|[1-9][0-9]{0,4})$`)

// JSONNumber reports whether a json-source cell is written as a JSON number.
func JSONNumber(s string) bool { return numRe.MatchString(s) }

// cell is the value of a row cell as the scenario sees it.
func (s Source) cell(row int, field string) (any, bool) {
	for i, f := range s.Fields {
		if f == field {
			v := s.Rows[row][i]
			if s.Kind == SrcJSON && JSONNumber(v) {
				n, _ := strconv.Atoi(v)
				return float64(n), true // encoding/json decodes numbers into float64
			}
			return v, true
		}
	}
	return nil, false
}

// FileContent renders the file of a csv / json source.
func (s Source) FileContent() string {
	switch s.Kind {
	case SrcCSV:
		var buf bytes.Buffer
		w := csv.NewWriter(&buf)
		if s.Delimiter != "" {
			w.Comma = rune(s.Delimiter[0])
		}
		if s.HeaderLine {
			_ = w.Write(s.Fields)
		}
		for _, r := range s.Rows {
			_ = w.Write(r)
		}
		w.Flush()
		return buf.String()
	case SrcJSON:
		var sb strings.Builder
		if s.Wrap != "" {
			fmt.Fprintf(&sb, "{%q: ", s.Wrap)
		}
		sb.WriteString("[")
		for i, r := range s.Rows {
			if i > 0 {
				sb.WriteString(", ")
			}
			sb.WriteString("{")
			for j, f := range s.Fields {
				if j > 0 {
					sb.WriteString(", ")
				}
				k, _ := json.Marshal(f)
				sb.Write(k)
				sb.WriteString(": ")
				if JSONNumber(r[j]) {
					sb.WriteString(r[j])
				} else {
					v, _ := json.Marshal(r[j])
					sb.Write(v)
				}
			}
			sb.WriteString("}")
		}
		sb.WriteString("]")
		if s.Wrap != "" {
			sb.WriteString("}")
		}
		sb.WriteString("\n")
		return sb.String()
	}
	return ""
}

// Header is one templated request header.
type Header struct {
	Name  string `json:"name"`
	Value Tmpl   `json:"value"`
}

// Preprocessor mapping kinds.
const (
	PreSrcVar = "src_var" // source.S.K
	PreSrcRow = "src_row" // source.S[.W][IDX].F     IDX = next | last | <int>
	PrePost   = "post"    // request.R.postprocessor.V
	PrePre    = "pre"     // request.R.preprocessor.V
)

// PreMap is one entry of a request's preprocessor mapping.
type PreMap struct {
	Var    string `json:"var"`
	Kind   string `json:"kind"`
	Source string `json:"source,omitempty"`
	Wrap   string `json:"wrap,omitempty"`
	Index  string `json:"index,omitempty"`
	Field  string `json:"field,omitempty"`
	Req    string `json:"req,omitempty"`
	RVar   string `json:"rvar,omitempty"`
	Dot    bool   `json:"dot,omitempty"` // written with a leading dot
}

// Path is the mapping value in the documented path syntax.
func (m PreMap) Path() string {
	var p string
	switch m.Kind {
	case PreSrcVar:
		p = "source." + m.Source + "." + m.Field
	case PreSrcRow:
		p = m.ArrayPath() + "." + m.Field
	case PrePost:
		p = "request." + m.Req + ".postprocessor." + m.RVar
	case PrePre:
		p = "request." + m.Req + ".preprocessor." + m.RVar
	default:
		panic("sceninterp: unknown preprocessor mapping kind " + m.Kind)
	}
	if m.Dot {
		p = "." + p
	}
	return p
}

// ArrayPath is the indexed array part of a src_row mapping ("source.users[next]").
func (m PreMap) ArrayPath() string {
	p := "source." + m.Source
	if m.Wrap != "" {
		p += "." + m.Wrap
	}
	return p + "[" + m.Index + "]"
}

// Postprocessor kinds are scengen's (var/jsonpath, var/header, var/xpath, assert/response).

// PostMap is one variable captured by a var/* postprocessor.
type PostMap struct {
	Var  string `json:"var"`
	Expr string `json:"expr"`
}

// SizeAssert is the `size` block of assert/response: the size of the response body (the bytes the target sent as the
// body, however they were transferred) compared with Val. Op is one of the documented operators: ">" (the body is larger
// than Val), "<" (smaller), "=" (exactly Val bytes); the documentation does not settle a body of exactly Val bytes for
// "<" and ">" (see SizeHolds).
type SizeAssert struct {
	Op  string `json:"op"`
	Val int    `json:"val"`
}

// SizeHolds judges a size assertion against a body of size bytes. settled is false where the documentation leaves the
// outcome open: a body of exactly Val bytes under "<" or ">".
func SizeHolds(a SizeAssert, size int) (holds, settled bool) {
	switch a.Op {
	case "=", "eq":
		return size == a.Val, true
	case "<", "lt":
		return size < a.Val, size != a.Val
	case ">", "gt":
		return size > a.Val, size != a.Val
	}
	return false, false
}

// Post is one postprocessor.
type Post struct {
	Kind string    `json:"kind"`
	Map  []PostMap `json:"map,omitempty"`
	// assert/response
	Status    int         `json:"status,omitempty"`
	BodyHas   []string    `json:"body_has,omitempty"`
	HeaderHas scengen.KVs `json:"header_has,omitempty"`
	Size      *SizeAssert `json:"size,omitempty"`
}

// Request is one request definition.
type Request struct {
	Name      string   `json:"name"`
	Method    string   `json:"method"`
	URI       Tmpl     `json:"uri"`
	Headers   []Header `json:"headers,omitempty"`
	Body      *Tmpl    `json:"body,omitempty"`
	Tag       string   `json:"tag,omitempty"`
	Pre       []PreMap `json:"pre,omitempty"`
	Posts     []Post   `json:"posts,omitempty"`
	Templater string   `json:"templater,omitempty"` // "" | "text" | "html" (TemplaterHTML)
	// RespKind is what the target serves to this request: "json" | "html" (world, not pandora).
	RespKind string `json:"resp_kind"`
	// RespPad makes the target's answers to this request that many bytes longer (a JSON member / an HTML comment that no
	// capture expression of the menus looks at; world, not pandora).
	RespPad int `json:"resp_pad,omitempty"`
}

// Captures reports whether the request captures var by a var/* postprocessor and with which expression.
func (r Request) Capture(v string) (kind, expr string, ok bool) {
	for _, p := range r.Posts {
		for _, m := range p.Map {
			if m.Var == v {
				return p.Kind, m.Expr, true
			}
		}
	}
	return "", "", false
}

// HasCaptureExpr reports whether some var/<kind> postprocessor of the request uses
// expr (for var/header: captures that header, whatever the modifiers and letter case).
func (r Request) HasCaptureExpr(kind, expr string) bool {
	for _, p := range r.Posts {
		if p.Kind != kind {
			continue
		}
		for _, m := range p.Map {
			if m.Expr == expr {
				return true
			}
			if kind == scengen.PostHeader && strings.EqualFold(strings.TrimSpace(strings.SplitN(m.Expr, "|", 2)[0]), expr) {
				return true
			}
		}
	}
	return false
}

// Scenario is one scenario (steps in scengen's grammar model).
type Scenario struct {
	Name    string         `json:"name"`
	Weight  *int64         `json:"weight,omitempty"`
	MinWait *int64         `json:"min_waiting_time,omitempty"`
	Steps   []scengen.Step `json:"steps"`
}

// Program is a whole scenario description.
type Program struct {
	Sources   []Source   `json:"sources,omitempty"`
	Requests  []Request  `json:"requests"`
	Scenarios []Scenario `json:"scenarios"`
}

func (p *Program) Request(name string) *Request {
	for i := range p.Requests {
		if p.Requests[i].Name == name {
			return &p.Requests[i]
		}
	}
	return nil
}

func (p *Program) Scenario(name string) *Scenario {
	for i := range p.Scenarios {
		if p.Scenarios[i].Name == name {
			return &p.Scenarios[i]
		}
	}
	return nil
}

func (p *Program) Source(name string) *Source {
	for i := range p.Sources {
		if p.Sources[i].Name == name {
			return &p.Sources[i]
		}
	}
	return nil
}

// Model lowers the program to the description model whose YAML pandora reads.
// Source files are named /<source>.csv|json; use Model.Rebase to move them.
func (p *Program) Model() scengen.Model {
	m := scengen.Model{Kind: "http"}
	for _, s := range p.Sources {
		ms := scengen.Source{Name: s.Name}
		switch s.Kind {
		case SrcCSV:
			ms.Type = scengen.SourceCSV
			f := "/" + s.Name + ".csv"
			ms.File = &f
			fields := append([]string(nil), s.Fields...)
			ms.Fields = &fields
			ign := s.HeaderLine
			ms.IgnoreFirstLine = &ign
			if s.Delimiter != "" {
				d := s.Delimiter
				ms.Delimiter = &d
			}
			ms.Content = s.FileContent()
		case SrcJSON:
			ms.Type = scengen.SourceJSON
			f := "/" + s.Name + ".json"
			ms.File = &f
			ms.Content = s.FileContent()
		case SrcVars:
			ms.Type = scengen.SourceVariables
			v := append(scengen.KVs(nil), s.Vars...)
			ms.Variables = &v
		}
		m.Sources = append(m.Sources, ms)
	}
	for _, r := range p.Requests {
		mr := scengen.Request{Name: r.Name, Method: r.Method, URI: r.URI.Text()}
		if len(r.Headers) > 0 {
			h := scengen.KVs{}
			for _, x := range r.Headers {
				h = append(h, scengen.KV{K: x.Name, V: x.Value.Text()})
			}
			mr.Headers = &h
		}
		if r.Tag != "" {
			t := r.Tag
			mr.Tag = &t
		}
		if r.Body != nil {
			b := r.Body.Text()
			mr.Body = &b
		}
		if len(r.Pre) > 0 {
			pp := scengen.Preprocessor{}
			for _, x := range r.Pre {
				pp.Mapping = append(pp.Mapping, scengen.KV{K: x.Var, V: x.Path()})
			}
			mr.Preprocessor = &pp
		}
		for _, x := range r.Posts {
			mp := scengen.Postprocessor{Type: x.Kind}
			if x.Kind == scengen.PostAssert {
				if x.Status != 0 {
					st := x.Status
					mp.StatusCode = &st
				}
				if len(x.BodyHas) > 0 {
					b := append([]string(nil), x.BodyHas...)
					mp.Body = &b
				}
				if len(x.HeaderHas) > 0 {
					h := append(scengen.KVs(nil), x.HeaderHas...)
					mp.Headers = &h
				}
				if x.Size != nil {
					v := x.Size.Val
					mp.Size = &scengen.AssertSize{Op: x.Size.Op, Val: &v}
				}
			} else {
				kv := scengen.KVs{}
				for _, e := range x.Map {
					kv = append(kv, scengen.KV{K: e.Var, V: e.Expr})
				}
				mp.Mapping = &kv
			}
			mr.Postprocessors = append(mr.Postprocessors, mp)
		}
		if r.Templater != "" {
			t := r.Templater
			mr.Templater = &t
		}
		m.Requests = append(m.Requests, mr)
	}
	for _, s := range p.Scenarios {
		m.Scenarios = append(m.Scenarios, scengen.Scenario{Name: s.Name, Weight: s.Weight, MinWaitingTime: s.MinWait,
			Steps: append([]scengen.Step(nil), s.Steps...)})
	}
	return m
}

// ExpStep is one executed step of a scenario: the request name and the pause
// after it (milliseconds).
type ExpStep struct {
	Name    string
	SleepMs int
}

// Expand applies the documented list grammar: `name` once, `name(n)` n times,
// `name(n, ms)` n times each followed by a pause of ms, `sleep(ms)` a pause at
// that position of the sequence (i.e. after the step executed last before it).
func (s Scenario) Expand() []ExpStep {
	var out []ExpStep
	for _, st := range s.Steps {
		if st.Sleep {
			if st.Ms != nil && len(out) > 0 {
				out[len(out)-1].SleepMs += *st.Ms
			}
			continue
		}
		n, ms := 1, 0
		if st.Count != nil {
			n = *st.Count
		}
		if st.Ms != nil {
			ms = *st.Ms
		}
		for i := 0; i < n; i++ {
			out = append(out, ExpStep{Name: st.Name, SleepMs: ms})
		}
	}
	return out
}

// Cycle is the documented distribution over one full cycle: scenario i occurs
// weight_i / gcd(weights) times (a missing weight counts as 1).
func (p *Program) Cycle() (perScenario map[string]int, total int) {
	perScenario = map[string]int{}
	if len(p.Scenarios) == 1 {
		return map[string]int{p.Scenarios[0].Name: 1}, 1
	}
	var g int64
	ws := make([]int64, len(p.Scenarios))
	for i, s := range p.Scenarios {
		w := int64(1)
		if s.Weight != nil && *s.Weight > 0 {
			w = *s.Weight
		}
		ws[i] = w
		a, b := g, w
		for b != 0 {
			a, b = b, a%b
		}
		g = a
	}
	for i, s := range p.Scenarios {
		perScenario[s.Name] = int(ws[i] / g)
		total += int(ws[i] / g)
	}
	return perScenario, total
}
