package sceninterp

import (
	"fmt"
	"strings"

	"verif/harness/internal/scengen"
)

// Fault kinds a reply can carry.
const (
	FaultNone      = ""
	FaultStatus    = "status"     // non-200 status, body and headers as usual
	FaultClose     = "close"      // connection closed without a response (transport error)
	FaultNoMarker  = "no_marker"  // the body lacks Marker
	FaultNoHeader  = "no_header"  // the X-Tok response header is missing
	FaultObjString = "obj_string" // json body: "obj" is a string instead of an object
	// FaultBodyCut: status line and headers arrive as usual (Content-Length of the whole body), the connection is
	// dropped before the body is complete - a transport error after the response headers.
	FaultBodyCut = "body_cut"
	// FaultBloat: the body is BloatBytes longer than usual (same padding as Request.RespPad).
	FaultBloat = "bloat"
)

// BloatBytes is what FaultBloat adds to a body.
const BloatBytes = 4000

// Marker is contained in every unfaulted body.
const Marker = "ok-marker"

// Reply is one response of the target.
type Reply struct {
	Closed bool              `json:"closed,omitempty"`
	Status int               `json:"status"`
	Header map[string]string `json:"header,omitempty"` // canonical names
	Body   string            `json:"body,omitempty"`
	// Cut: the transfer of Body fails part-way (the peer announces len(Body) bytes and drops the connection before
	// they are all sent). The exchange is a transport failure whatever the status and the headers say.
	Cut bool `json:"cut,omitempty"`
	// Announced > 0: the answer to a HEAD request. No body is sent (Body is empty); Announced is the size of the body the
	// same request would be answered with under GET - what a server states as Content-Length in its answer to HEAD, if
	// it states one.
	Announced int `json:"announced,omitempty"`
}

// Capture expressions the generated programs may use (they match MakeReply's bodies).
var (
	JSONPathMenu = []string{"$.tok", "$.num", "$.obj", "$.obj.x", "$.arr", "$.arr[0]", "$.arr[1]"}
	XPathMenu    = []string{"//div[@class='data']", "//span[@id='s']", "//li"}
	HeaderMenu   = []string{"X-Tok", "X-Mix"}
)

// FaultApplies tells whether a fault changes the reply to a request of this
// definition. Faults whose consequence the documentation does not settle are
// not applied: a missing response header where var/header captures it, and a
// string "obj" where var/jsonpath descends into it.
func FaultApplies(def *Request, fault string) bool {
	switch fault {
	case FaultNone:
		return false
	case FaultNoHeader:
		return !def.HasCaptureExpr(scengen.PostHeader, "X-Tok")
	case FaultObjString:
		return def.RespKind == "json" && !def.HasCaptureExpr(scengen.PostJsonpath, "$.obj.x")
	case FaultBodyCut:
		return def.Method != "HEAD" // the answer to HEAD has no body the transfer of which could fail
	}
	return true
}

// MakeReply builds the response to a request of definition def. fresh makes the
// values unique to the response (URL-safe characters only).
func MakeReply(def *Request, fresh string, num int, fault string, status int) Reply {
	r := makeReply(def, fresh, num, fault, status)
	if def.Method == "HEAD" && !r.Closed {
		// status line and headers as for any other method; the body is announced, not sent
		r.Announced, r.Body, r.Cut = len(r.Body), "", false
	}
	return r
}

func makeReply(def *Request, fresh string, num int, fault string, status int) Reply {
	if !FaultApplies(def, fault) {
		fault = FaultNone
	}
	if fault == FaultClose {
		return Reply{Closed: true}
	}
	r := Reply{Status: 200, Header: map[string]string{"X-Mix": "Ab" + fresh + "Cd"}, Cut: fault == FaultBodyCut}
	if fault == FaultStatus && status != 0 {
		r.Status = status
	}
	if fault != FaultNoHeader {
		r.Header["X-Tok"] = "H" + fresh + "Zz"
	}
	mark := Marker
	if fault == FaultNoMarker {
		mark = "nothing"
	}
	pad := def.RespPad
	if fault == FaultBloat {
		pad += BloatBytes
	}
	if def.RespKind == "html" {
		r.Header["Content-Type"] = "text/html"
		padding := ""
		if pad > 0 {
			padding = "<!--" + strings.Repeat("p", pad) + "-->"
		}
		r.Body = fmt.Sprintf(`<html><body><div class="data">D%s</div><ul><li>L%sa</li><li>L%sb</li></ul><span id="s">S%s</span><p>%s</p>%s</body></html>`,
			fresh, fresh, fresh, fresh, mark, padding)
		return r
	}
	r.Header["Content-Type"] = "application/json"
	obj := fmt.Sprintf(`{"x": "O%s"}`, fresh)
	if fault == FaultObjString {
		obj = fmt.Sprintf(`"P%s"`, fresh)
	}
	padding := ""
	if pad > 0 {
		padding = `, "pad": "` + strings.Repeat("p", pad) + `"`
	}
	r.Body = fmt.Sprintf(`{"tok": "J%s", "num": %d, "obj": %s, "arr": ["A%sa", "A%sb"], "mark": "%s"%s}`, fresh, num, obj, fresh, fresh, mark, padding)
	return r
}

// canonical MIME header key (ASCII only; enough for the generated names).
func canonHeader(k string) string {
	b := []byte(strings.ToLower(k))
	up := true
	for i, c := range b {
		if up && c >= 'a' && c <= 'z' {
			b[i] = c - 32
		}
		up = c == '-'
	}
	return string(b)
}

// CanonHeader is the canonical form of an HTTP header name (as net/http sends it).
func CanonHeader(k string) string { return canonHeader(k) }
