package sceninterp

import (
	"fmt"
	ht "html/template"
	"strings"
	"testing"
)

// TestHTMLModel compares the interpreter's statement of what `templater: html` renders (HTMLEscape for values,
// literal text untouched while LitKeepsHTMLText holds, nothing for a missing key) with Go's html/template itself,
// over the literal fragments the C15 generator builds templates from and values of every printed kind.
func TestHTMLModel(t *testing.T) {
	lits := []string{`{"id": "`, `"}`, `", "n": "`, "name=", "&x=", "<a>", "</a>", " ", "-", "v:", "/r1/", "?q=", "1", "; ", "=", "o=", "ab_:=.,-", "body of x", ""}
	vals := map[string]any{
		"s1": `a<b>&"'+é %/?=:#`, "s2": "say \"hi\"", "s3": "it's", "s4": "a&b=c", "s5": "<tag>", "s6": "100%", "s7": "a\\b", "s8": "x\x00y", "s9": "1+1",
		"i": 42, "n": -7, "f": 1.5, "big": 1e21, "small": 1e-9, "b": true, "i64": int64(1) << 40,
		"m": map[string]any{"x": "q<", "y": 1.0}, "arr": []any{"a+", 1.0, "<"}, "ss": []string{"a'", "b"}, "nilv": nil,
	}
	keys := []string{"s1", "s2", "s3", "s4", "s5", "s6", "s7", "s8", "s9", "i", "n", "f", "big", "small", "b", "i64", "m", "arr", "ss", "missing"}
	n := 0
	check := func(parts []string, refs []string) {
		// parts[0] {{ref0}} parts[1] {{ref1}} parts[2]
		var src, want strings.Builder
		tm := Tmpl{}
		for i, l := range parts {
			src.WriteString(l)
			want.WriteString(l)
			tm = append(tm, Part{Lit: l})
			if i < len(refs) {
				src.WriteString("{{." + refs[i] + "}}")
				if v, ok := vals[refs[i]]; ok {
					want.WriteString(HTMLEscape(Show(v)))
				}
			}
		}
		if !LitKeepsHTMLText(tm) {
			return
		}
		tp, err := ht.New("x").Parse(src.String())
		if err != nil {
			t.Fatalf("parse %q: %v", src.String(), err)
		}
		var sb strings.Builder
		if err := tp.Execute(&sb, vals); err != nil {
			t.Fatalf("execute %q: %v", src.String(), err)
		}
		n++
		if sb.String() != want.String() {
			t.Fatalf("template %q: html/template renders %q, the model says %q", src.String(), sb.String(), want.String())
		}
	}
	for _, a := range lits {
		for _, k := range keys {
			check([]string{a, ""}, []string{k})
			for _, b := range lits {
				check([]string{a, b}, []string{k})
				for _, k2 := range []string{"s1", "i", "missing", "m"} {
					for _, c := range []string{"", `"}`, "</a>", "<a>"} {
						check([]string{a, b, c}, []string{k, k2})
					}
				}
			}
		}
	}
	// literal-only templates built from the fragments
	for _, a := range lits {
		for _, b := range lits {
			for _, c := range lits {
				check([]string{a + b + c}, nil)
			}
		}
	}
	if n < 10000 {
		t.Fatalf("only %d templates compared", n)
	}
	fmt.Println("templates compared:", n)
	for _, bad := range []string{"<a", "a < b", "<script>", "<a href=", ">", "<A>", "<!--"} {
		if LitKeepsHTMLText(Tmpl{{Lit: bad}}) {
			t.Fatalf("LitKeepsHTMLText accepts %q", bad)
		}
	}
}
