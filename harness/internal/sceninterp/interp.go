package sceninterp

import (
	"encoding/json"
	"fmt"
	"regexp"
	"strconv"
	"strings"

	"verif/harness/internal/scengen"
)

// NoValue is what the standard Go template engine prints for a missing map key.
const NoValue = "<no value>"

// Interp holds the state that outlives one invocation: the [next] counters,
// one per scenario and indexed array path - and, for a request that several
// scenarios list, one per indexed array path for all of them: the rows such a
// request takes are consecutive over all its executions, whichever scenario runs it
// (the documented purpose of [next], e.g. a common login step taking the next user).
type Interp struct {
	P      *Program
	next   map[string]int
	listed map[string]int // request -> number of scenarios that list it
}

func New(p *Program) *Interp {
	it := &Interp{P: p, next: map[string]int{}, listed: map[string]int{}}
	for _, sc := range p.Scenarios {
		seen := map[string]bool{}
		for _, st := range sc.Steps {
			if !st.Sleep && !seen[st.Name] {
				seen[st.Name] = true
				it.listed[st.Name]++
			}
		}
	}
	return it
}

// SharedByScenarios reports whether several scenarios list the request.
func (it *Interp) SharedByScenarios(request string) bool { return it.listed[request] >= 2 }

type stepVars struct {
	pre  map[string]any
	post map[string]any
}

// Invocation is one execution of a scenario.
type Invocation struct {
	it      *Interp
	sc      *Scenario
	steps   []ExpStep
	pos     int
	vars    map[string]*stepVars // by request name; variables live for one invocation only
	stopped bool
	cur     *Request
	curStep int
}

// Begin starts an invocation of the named scenario.
func (it *Interp) Begin(scenario string) *Invocation {
	sc := it.P.Scenario(scenario)
	if sc == nil {
		panic("sceninterp: no scenario " + scenario)
	}
	return &Invocation{it: it, sc: sc, steps: sc.Expand(), vars: map[string]*stepVars{}}
}

// NextUse records a row handed out by [next].
type NextUse struct {
	Path string // scenario-independent array path, e.g. "source.users[next]"
	Seq  int    // how many times the path was used before in this scenario (Shared: in all scenarios)
	Row  int    // Seq mod number of rows
	// Shared: the request is listed by several scenarios, the counter is common to all of them.
	Shared bool
}

// Rendered is a request as it must appear on the wire.
type Rendered struct {
	Def         *Request
	Method      string
	URI         string
	Headers     map[string]string // canonical name -> value
	Body        *string
	NoValue     bool     // some reference had no value and rendered as "<no value>" (as nothing with the html templater)
	HTMLEscaped bool     // html templater: some value holds a character the HTML escaper rewrites
	LiveRefs    []string // kinds of the references that resolved to a value
}

// StepOut is what the interpreter expects from the next step before any reply.
type StepOut struct {
	Index   int // position in the expanded step list
	Step    ExpStep
	Def     *Request
	PreFail string // "" | "preprocessor" | "template": the step fails before a request is sent
	Msg     string
	Req     *Rendered
	Next    []NextUse
}

// Outcome of a step after the reply.
type Outcome struct {
	Failed bool
	Kind   string // transport | assert | extract
	Msg    string
	Status int
}

// Steps is the expanded step list of the invocation's scenario.
func (inv *Invocation) Steps() []ExpStep { return inv.steps }

// Completed reports whether all steps were executed without a failure.
func (inv *Invocation) Completed() bool {
	return !inv.stopped && inv.cur == nil && inv.pos == len(inv.steps)
}

// Stopped reports whether a step failed.
func (inv *Invocation) Stopped() bool { return inv.stopped }

// Step advances to the next step: nil when the invocation is over (all steps
// done, or a step failed). When the returned step has a request, Deliver must be
// called with the reply before the next Step.
func (inv *Invocation) Step() *StepOut {
	if inv.cur != nil {
		panic("sceninterp: Step before Deliver")
	}
	if inv.stopped || inv.pos >= len(inv.steps) {
		return nil
	}
	st := inv.steps[inv.pos]
	def := inv.it.P.Request(st.Name)
	if def == nil {
		panic("sceninterp: no request " + st.Name)
	}
	out := &StepOut{Index: inv.pos, Step: st, Def: def}
	inv.pos++
	sv := &stepVars{}
	inv.vars[def.Name] = sv
	// preprocessor: runs before templating
	if len(def.Pre) > 0 {
		pre := map[string]any{}
		for _, m := range def.Pre {
			v, use, err := inv.evalPre(def, m)
			if use != nil {
				out.Next = append(out.Next, *use)
			}
			if err != nil {
				out.PreFail, out.Msg = "preprocessor", err.Error()
				inv.stopped = true
				return out
			}
			pre[m.Var] = v
		}
		sv.pre = pre
	}
	r := &Rendered{Def: def, Method: def.Method, Headers: map[string]string{}}
	var err error
	if r.URI, err = inv.render(def.URI, r); err == nil {
		for _, h := range def.Headers {
			var v string
			if v, err = inv.render(h.Value, r); err != nil {
				break
			}
			// HTTP carries a field value without the blanks around it (with the html templater a missing variable at
			// the end of a value leaves the separator in front of it last)
			r.Headers[canonHeader(h.Name)] = strings.Trim(v, " \t")
		}
	}
	if err == nil && def.Body != nil {
		var b string
		if b, err = inv.render(*def.Body, r); err == nil {
			r.Body = &b
		}
	}
	if err != nil {
		out.PreFail, out.Msg = "template", err.Error()
		inv.stopped = true
		return out
	}
	out.Req = r
	inv.cur = def
	return out
}

// Deliver applies the reply to the step returned last by Step.
func (inv *Invocation) Deliver(rep Reply) Outcome {
	def := inv.cur
	if def == nil {
		panic("sceninterp: Deliver without a pending request")
	}
	inv.cur = nil
	if rep.Closed {
		inv.stopped = true
		return Outcome{Failed: true, Kind: "transport", Msg: "connection closed without a response"}
	}
	if rep.Cut {
		inv.stopped = true
		return Outcome{Failed: true, Kind: "transport", Msg: "connection dropped in the middle of the response body"}
	}
	post := map[string]any{}
	for _, p := range def.Posts {
		if p.Kind == scengen.PostAssert {
			if msg := assertReply(p, rep); msg != "" {
				inv.stopped = true
				return Outcome{Failed: true, Kind: "assert", Msg: msg, Status: rep.Status}
			}
			continue
		}
		for _, m := range p.Map {
			v, ok, err := capture(p.Kind, m.Expr, rep)
			if err != nil {
				inv.stopped = true
				return Outcome{Failed: true, Kind: "extract", Msg: err.Error(), Status: rep.Status}
			}
			if ok {
				post[m.Var] = v
			}
		}
	}
	inv.vars[def.Name].post = post
	return Outcome{Status: rep.Status}
}

func assertReply(p Post, rep Reply) string {
	for _, b := range p.BodyHas {
		if !strings.Contains(rep.Body, b) {
			return "body does not contain " + b
		}
	}
	for _, h := range p.HeaderHas {
		if !strings.Contains(rep.Header[canonHeader(h.K)], h.V) {
			return "header " + h.K + " does not contain " + h.V
		}
	}
	if p.Status != 0 && p.Status != rep.Status {
		return fmt.Sprintf("status %d, expected %d", rep.Status, p.Status)
	}
	if p.Size != nil {
		if holds, settled := SizeHolds(*p.Size, len(rep.Body)); settled && !holds {
			return fmt.Sprintf("size of the body is %d, expected %s %d", len(rep.Body), p.Size.Op, p.Size.Val)
		}
	}
	return ""
}

// ---- preprocessor ----

func (inv *Invocation) evalPre(def *Request, m PreMap) (any, *NextUse, error) {
	switch m.Kind {
	case PreSrcVar:
		s := inv.it.P.Source(m.Source)
		if s == nil || s.Kind != SrcVars {
			return nil, nil, fmt.Errorf("no variables source %s", m.Source)
		}
		v, ok := s.Vars.Get(m.Field)
		if !ok {
			return nil, nil, fmt.Errorf("source %s has no variable %s", m.Source, m.Field)
		}
		return v, nil, nil
	case PreSrcRow:
		s := inv.it.P.Source(m.Source)
		if s == nil || s.Kind == SrcVars {
			return nil, nil, fmt.Errorf("no array source %s", m.Source)
		}
		if len(s.Rows) == 0 {
			return nil, nil, fmt.Errorf("source %s is empty", m.Source)
		}
		var row int
		var use *NextUse
		switch m.Index {
		case "next":
			key := inv.sc.Name + "\x00" + m.ArrayPath()
			shared := inv.it.SharedByScenarios(def.Name)
			if shared {
				key = "\x00\x00" + m.ArrayPath()
			}
			seq := inv.it.next[key]
			inv.it.next[key] = seq + 1
			row = seq % len(s.Rows)
			use = &NextUse{Path: m.ArrayPath(), Seq: seq, Row: row, Shared: shared}
		case "last":
			row = len(s.Rows) - 1
		default:
			i, err := strconv.Atoi(m.Index)
			if err != nil || i < 0 || i >= len(s.Rows) {
				return nil, nil, fmt.Errorf("index %s out of the documented range", m.Index)
			}
			row = i
		}
		v, ok := s.cell(row, m.Field)
		if !ok {
			return nil, use, fmt.Errorf("source %s has no field %s", m.Source, m.Field)
		}
		return v, use, nil
	case PrePost, PrePre:
		sv := inv.vars[m.Req]
		var vars map[string]any
		if sv != nil {
			if m.Kind == PrePost {
				vars = sv.post
			} else {
				vars = sv.pre
			}
		}
		v, ok := vars[m.RVar]
		if !ok {
			return nil, nil, fmt.Errorf("variable %s is not set", m.Path())
		}
		return v, nil, nil
	}
	return nil, nil, fmt.Errorf("unknown mapping kind %s", m.Kind)
}

// ---- templates ----

const (
	stOK = iota
	stMissing
	stError
)

func (inv *Invocation) evalRef(r *Ref) (any, int, string) {
	switch r.Kind {
	case RefSrcVar:
		s := inv.it.P.Source(r.Source)
		if s == nil {
			return nil, stMissing, ""
		}
		v, ok := s.Vars.Get(r.Field)
		if !ok {
			return nil, stMissing, ""
		}
		return v, stOK, ""
	case RefSrcRow:
		s := inv.it.P.Source(r.Source)
		if s == nil {
			return nil, stError, "index of a missing value"
		}
		if r.Index < 0 || r.Index >= len(s.Rows) {
			return nil, stError, "index out of range"
		}
		v, ok := s.cell(r.Index, r.Field)
		if !ok {
			return nil, stMissing, ""
		}
		return v, stOK, ""
	case RefPre, RefPost, RefPostFld, RefPostIdx:
		sv := inv.vars[r.Req]
		var vars map[string]any
		if sv != nil {
			if r.Kind == RefPre {
				vars = sv.pre
			} else {
				vars = sv.post
			}
		}
		v, ok := vars[r.Var]
		switch r.Kind {
		case RefPre, RefPost:
			if !ok {
				return nil, stMissing, ""
			}
			return v, stOK, ""
		case RefPostFld:
			if !ok {
				return nil, stMissing, "" // a field of a missing value is a missing value
			}
			m, isMap := v.(map[string]any)
			if !isMap {
				return nil, stError, fmt.Sprintf("can't evaluate field %s in a value of type %T", r.Field, v)
			}
			f, has := m[r.Field]
			if !has {
				return nil, stMissing, ""
			}
			return f, stOK, ""
		case RefPostIdx:
			if !ok {
				return nil, stError, "index of a missing value"
			}
			switch a := v.(type) {
			case []any:
				if r.Index < 0 || r.Index >= len(a) {
					return nil, stError, "index out of range"
				}
				return a[r.Index], stOK, ""
			case []string:
				if r.Index < 0 || r.Index >= len(a) {
					return nil, stError, "index out of range"
				}
				return a[r.Index], stOK, ""
			}
			return nil, stError, fmt.Sprintf("can't index a value of type %T", v)
		}
	}
	return nil, stError, "unknown reference kind " + r.Kind
}

// Show is how the template engine prints a value.
func Show(v any) string {
	if s, ok := v.(string); ok {
		return s
	}
	return fmt.Sprint(v)
}

func (inv *Invocation) render(t Tmpl, r *Rendered) (string, error) {
	html := r.Def != nil && r.Def.Templater == TemplaterHTML
	var sb strings.Builder
	for _, p := range t {
		if p.Ref == nil {
			sb.WriteString(p.Lit)
			continue
		}
		v, st, msg := inv.evalRef(p.Ref)
		switch st {
		case stError:
			return "", fmt.Errorf("template execution error at %s: %s", Tmpl{p}.Text(), msg)
		case stMissing:
			r.NoValue = true
			if html {
				// html/template skips an untyped nil argument of its escaper (golang issue 25875):
				// a missing key renders as nothing, not as an escaped "<no value>"
				break
			}
			sb.WriteString(NoValue)
		default:
			if html {
				shown := Show(v)
				esc := HTMLEscape(shown)
				r.HTMLEscaped = r.HTMLEscaped || esc != shown
				sb.WriteString(esc)
			} else {
				sb.WriteString(Show(v))
			}
			r.LiveRefs = append(r.LiveRefs, p.Ref.Kind)
		}
	}
	return sb.String(), nil
}

// TemplaterHTML is the `templater: {type: html}` of a request: Go's html/template. Every template pandora renders
// (uri, each header value, body) is a template of its own and so begins in HTML text context; as long as the
// literal text in front of an action holds no unfinished tag, no <script>, <style> or comment (LitKeepsHTMLText),
// the action's value is written through html/template's HTML escaper and literal text is left as it is.
const TemplaterHTML = "html"

// HTMLEscape is html/template's escaper for text context (htmlReplacementTable of html/template/html.go, written
// down here from its documentation; TestHTMLModel compares it with the library).
func HTMLEscape(s string) string {
	var sb strings.Builder
	for _, c := range s {
		switch c {
		case 0:
			sb.WriteString("\uFFFD")
		case '"':
			sb.WriteString("&#34;")
		case '&':
			sb.WriteString("&amp;")
		case '\'':
			sb.WriteString("&#39;")
		case '+':
			sb.WriteString("&#43;")
		case '<':
			sb.WriteString("&lt;")
		case '>':
			sb.WriteString("&gt;")
		default:
			sb.WriteRune(c)
		}
	}
	return sb.String()
}

// LitKeepsHTMLText says whether a template whose literal parts are these keeps every action in HTML text context
// and its literal text unchanged under html/template: every '<' opens a complete plain tag (<name> or </name>, name
// not script / style / textarea / title, no attributes) inside one literal.
func LitKeepsHTMLText(t Tmpl) bool {
	for _, p := range t {
		if p.Ref != nil {
			continue
		}
		l := p.Lit
		for i := 0; i < len(l); i++ {
			switch l[i] {
			case '>', 0:
				return false
			case '<':
				j := i + 1
				if j < len(l) && l[j] == '/' {
					j++
				}
				k := j
				for k < len(l) && (l[k] >= 'a' && l[k] <= 'z') {
					k++
				}
				if k == j || k >= len(l) || l[k] != '>' {
					return false
				}
				switch l[j:k] {
				case "script", "style", "textarea", "title":
					return false
				}
				i = k
			}
		}
	}
	return true
}

// ---- postprocessors ----

var (
	reDiv  = regexp.MustCompile(`<div class="data">([^<]*)</div>`)
	reSpan = regexp.MustCompile(`<span id="s">([^<]*)</span>`)
	reLi   = regexp.MustCompile(`<li>([^<]*)</li>`)
)

func capture(kind, expr string, rep Reply) (any, bool, error) {
	switch kind {
	case scengen.PostJsonpath:
		var data any
		if err := json.Unmarshal([]byte(rep.Body), &data); err != nil {
			return nil, false, fmt.Errorf("body is not json: %v", err)
		}
		v, err := jsonPath(data, expr)
		if err != nil {
			return nil, false, err
		}
		return v, true, nil
	case scengen.PostHeader:
		parts := strings.Split(expr, "|")
		v, ok := rep.Header[canonHeader(parts[0])]
		if !ok || v == "" {
			return nil, false, nil
		}
		for _, mod := range parts[1:] {
			var err error
			if v, err = applyModifier(v, mod); err != nil {
				return nil, false, err
			}
		}
		return v, true, nil
	case scengen.PostXpath:
		var re *regexp.Regexp
		switch expr {
		case "//div[@class='data']":
			re = reDiv
		case "//span[@id='s']":
			re = reSpan
		case "//li":
			re = reLi
		default:
			return nil, false, fmt.Errorf("xpath %s is outside the interpreter's menu", expr)
		}
		var vals []string
		for _, m := range re.FindAllStringSubmatch(rep.Body, -1) {
			vals = append(vals, m[1])
		}
		if len(vals) == 1 {
			return vals[0], true, nil
		}
		return vals, true, nil
	}
	return nil, false, fmt.Errorf("unknown postprocessor %s", kind)
}

var reJSONTok = regexp.MustCompile(`^(\.[A-Za-z_][A-Za-z0-9_]*|\[[0-9]+\])`)

func jsonPath(data any, expr string) (any, error) {
	if !strings.HasPrefix(expr, "$") {
		return nil, fmt.Errorf("jsonpath %s does not start with $", expr)
	}
	rest := expr[1:]
	cur := data
	for rest != "" {
		tok := reJSONTok.FindString(rest)
		if tok == "" {
			return nil, fmt.Errorf("jsonpath %s is outside the interpreter's subset", expr)
		}
		rest = rest[len(tok):]
		if tok[0] == '.' {
			m, ok := cur.(map[string]any)
			if !ok {
				return nil, fmt.Errorf("jsonpath %s: not an object at %s", expr, tok)
			}
			if cur, ok = m[tok[1:]]; !ok {
				return nil, fmt.Errorf("jsonpath %s: no key %s", expr, tok[1:])
			}
			continue
		}
		i, _ := strconv.Atoi(tok[1 : len(tok)-1])
		a, ok := cur.([]any)
		if !ok || i >= len(a) {
			return nil, fmt.Errorf("jsonpath %s: no element %d", expr, i)
		}
		cur = a[i]
	}
	return cur, nil
}

var reMod = regexp.MustCompile(`^([a-z]+)(?:\(([^)]*)\))?$`)

// applyModifier implements the documented var/header modifiers: lower, upper,
// substr(from[, length]), replace(search, replace).
func applyModifier(v, mod string) (string, error) {
	m := reMod.FindStringSubmatch(strings.TrimSpace(mod))
	if m == nil {
		return "", fmt.Errorf("bad modifier %q", mod)
	}
	var args []string
	if m[2] != "" || strings.Contains(mod, "(") {
		for _, a := range strings.Split(m[2], ",") {
			args = append(args, strings.TrimSpace(a))
		}
	}
	switch m[1] {
	case "lower":
		return strings.ToLower(v), nil
	case "upper":
		return strings.ToUpper(v), nil
	case "replace":
		if len(args) != 2 {
			return "", fmt.Errorf("replace needs 2 arguments")
		}
		return strings.ReplaceAll(v, args[0], args[1]), nil
	case "substr":
		if len(args) < 1 || len(args) > 2 {
			return "", fmt.Errorf("substr needs 1 or 2 arguments")
		}
		from, err := strconv.Atoi(args[0])
		if err != nil || from < 0 {
			return "", fmt.Errorf("substr: bad from %q", args[0])
		}
		if from > len(v) {
			from = len(v)
		}
		to := len(v)
		if len(args) == 2 {
			n, err := strconv.Atoi(args[1])
			if err != nil || n < 0 {
				return "", fmt.Errorf("substr: bad length %q", args[1])
			}
			if from+n < to {
				to = from + n
			}
		}
		return v[from:to], nil
	}
	return "", fmt.Errorf("unknown modifier %s", m[1])
}
