package scengen

import (
	"fmt"
	"strings"
	"unicode"

	"github.com/hashicorp/hcl/v2"
	"github.com/hashicorp/hcl/v2/hclsyntax"
	"github.com/hashicorp/hcl/v2/hclwrite"
	"github.com/zclconf/go-cty/cty"
)

const heredocMarker = "EOT"

// HeredocOK reports whether s can be written as an HCL heredoc (`<<EOT`):
// it must end with a newline, consist of printable characters, tabs and
// newlines only, and contain no line that would close the heredoc.
func HeredocOK(s string) bool {
	if !strings.HasSuffix(s, "\n") {
		return false
	}
	for _, r := range s {
		if r == '\n' || r == '\t' {
			continue
		}
		if !unicode.IsPrint(r) {
			return false
		}
	}
	for _, line := range strings.Split(s, "\n") {
		if strings.TrimSpace(line) == heredocMarker {
			return false
		}
	}
	return true
}

// escapeTemplateIntro doubles the `$` / `%` of every `${` / `%{`.
func escapeTemplateIntro(s string) []byte {
	out := make([]byte, 0, len(s)+4)
	for i := 0; i < len(s); i++ {
		c := s[i]
		out = append(out, c)
		if (c == '$' || c == '%') && i+1 < len(s) && s[i+1] == '{' {
			out = append(out, c)
		}
	}
	return out
}

func heredocTokens(s string) hclwrite.Tokens {
	return hclwrite.Tokens{
		{Type: hclsyntax.TokenOHeredoc, Bytes: []byte("<<" + heredocMarker + "\n")},
		{Type: hclsyntax.TokenStringLit, Bytes: escapeTemplateIntro(s)},
		{Type: hclsyntax.TokenCHeredoc, Bytes: []byte(heredocMarker)},
	}
}

func strTokens(s string) hclwrite.Tokens { return hclwrite.TokensForValue(cty.StringVal(s)) }

var hclKeywords = map[string]bool{"null": true, "true": true, "false": true, "for": true, "if": true, "in": true, "else": true, "endif": true, "endfor": true}

// keyTokens writes an object-constructor key: a bare identifier where HCL
// allows one (as the documentation's examples do), a quoted string otherwise.
func keyTokens(k string) hclwrite.Tokens {
	if !hclsyntax.ValidIdentifier(k) || hclKeywords[k] {
		return strTokens(k)
	}
	// ValidIdentifier follows Unicode ID_Continue, which includes format and
	// combining characters the scanner does not take everywhere (U+FEFF at the
	// start of an identifier is "Invalid character"): bare keys are limited to
	// letters, digits, `_` and `-`.
	for _, r := range k {
		if !(unicode.IsLetter(r) || unicode.IsDigit(r) || r == '_' || r == '-') {
			return strTokens(k)
		}
	}
	return hclwrite.TokensForIdentifier(k)
}

func kvsTokens(k KVs) hclwrite.Tokens {
	attrs := make([]hclwrite.ObjectAttrTokens, 0, len(k))
	for _, e := range k {
		attrs = append(attrs, hclwrite.ObjectAttrTokens{Name: keyTokens(e.K), Value: strTokens(e.V)})
	}
	return hclwrite.TokensForObject(attrs)
}

func strsTokens(l []string) hclwrite.Tokens {
	el := make([]hclwrite.Tokens, 0, len(l))
	for _, s := range l {
		el = append(el, strTokens(s))
	}
	return hclwrite.TokensForTuple(el)
}

// ExprTokens renders an expression.
func ExprTokens(e Expr) hclwrite.Tokens {
	switch e.K {
	case "s":
		return strTokens(e.S)
	case "n":
		return hclwrite.TokensForValue(cty.NumberIntVal(int64(e.N)))
	case "null":
		return hclwrite.TokensForIdentifier("null")
	case "l":
		el := make([]hclwrite.Tokens, 0, len(e.L))
		for _, c := range e.L {
			el = append(el, ExprTokens(c))
		}
		return hclwrite.TokensForTuple(el)
	case "m":
		attrs := make([]hclwrite.ObjectAttrTokens, 0, len(e.M))
		for _, c := range e.M {
			attrs = append(attrs, hclwrite.ObjectAttrTokens{Name: keyTokens(c.K), Value: ExprTokens(c.V)})
		}
		return hclwrite.TokensForObject(attrs)
	case "ref":
		return hclwrite.TokensForTraversal(hcl.Traversal{hcl.TraverseRoot{Name: "local"}, hcl.TraverseAttr{Name: e.S}})
	case "f":
		args := make([]hclwrite.Tokens, 0, len(e.A))
		for _, c := range e.A {
			args = append(args, ExprTokens(c))
		}
		return hclwrite.TokensForFunctionCall(e.S, args...)
	case "t":
		toks := hclwrite.Tokens{{Type: hclsyntax.TokenOQuote, Bytes: []byte{'"'}}}
		var pending strings.Builder
		flush := func(beforeInterp bool) {
			s := pending.String()
			pending.Reset()
			if s == "" {
				return
			}
			if beforeInterp && (strings.HasSuffix(s, "$") || strings.HasSuffix(s, "%")) {
				panic("scengen: template literal ending in $ or % before an interpolation cannot be written")
			}
			lt := strTokens(s)
			if len(lt) == 3 {
				toks = append(toks, lt[1])
			}
		}
		for _, c := range e.A {
			if c.K == "s" {
				pending.WriteString(c.S)
				continue
			}
			flush(true)
			toks = append(toks, &hclwrite.Token{Type: hclsyntax.TokenTemplateInterp, Bytes: []byte("${")})
			toks = append(toks, ExprTokens(c)...)
			toks = append(toks, &hclwrite.Token{Type: hclsyntax.TokenTemplateSeqEnd, Bytes: []byte("}")})
		}
		flush(false)
		toks = append(toks, &hclwrite.Token{Type: hclsyntax.TokenCQuote, Bytes: []byte{'"'}})
		return toks
	}
	panic("scengen: bad expression kind " + e.K)
}

type hclRenderer struct {
	m Model
}

func (r hclRenderer) attr(b *hclwrite.Body, path, name string, literal hclwrite.Tokens) {
	if e, ok := r.m.Exprs[path]; ok {
		b.SetAttributeRaw(name, ExprTokens(e))
		return
	}
	b.SetAttributeRaw(name, literal)
}

func (r hclRenderer) source(b *hclwrite.Body, i int, s Source) {
	p := fmt.Sprintf("sources[%d].", i)
	blk := b.AppendNewBlock("variable_source", []string{s.Name, s.Type}).Body()
	if s.File != nil {
		r.attr(blk, p+"file", "file", strTokens(*s.File))
	}
	if s.Fields != nil {
		r.attr(blk, p+"fields", "fields", strsTokens(*s.Fields))
	}
	if s.IgnoreFirstLine != nil {
		blk.SetAttributeValue("ignore_first_line", cty.BoolVal(*s.IgnoreFirstLine))
	}
	if s.Delimiter != nil {
		r.attr(blk, p+"delimiter", "delimiter", strTokens(*s.Delimiter))
	}
	if s.Variables != nil {
		attrs := make([]hclwrite.ObjectAttrTokens, 0, len(*s.Variables))
		for _, e := range *s.Variables {
			val := strTokens(e.V)
			switch v := s.TypedValue(e).(type) {
			case int64:
				val = hclwrite.TokensForValue(cty.NumberIntVal(v))
			case bool:
				val = hclwrite.TokensForValue(cty.BoolVal(v))
			}
			attrs = append(attrs, hclwrite.ObjectAttrTokens{Name: keyTokens(e.K), Value: val})
		}
		r.attr(blk, p+"variables", "variables", hclwrite.TokensForObject(attrs))
	}
}

func (r hclRenderer) request(b *hclwrite.Body, i int, q Request) {
	p := fmt.Sprintf("requests[%d].", i)
	blk := b.AppendNewBlock("request", []string{q.Name}).Body()
	r.attr(blk, p+"method", "method", strTokens(q.Method))
	r.attr(blk, p+"uri", "uri", strTokens(q.URI))
	// `headers` is a required argument of the HCL request block: a request
	// without headers is written with an empty object.
	h := KVs{}
	if q.Headers != nil {
		h = *q.Headers
	}
	r.attr(blk, p+"headers", "headers", kvsTokens(h))
	if q.Tag != nil {
		r.attr(blk, p+"tag", "tag", strTokens(*q.Tag))
	}
	if q.Body != nil {
		lt := strTokens(*q.Body)
		if q.BodyHeredoc && HeredocOK(*q.Body) {
			lt = heredocTokens(*q.Body)
		}
		r.attr(blk, p+"body", "body", lt)
	}
	if q.Templater != nil {
		blk.AppendNewBlock("templater", nil).Body().SetAttributeValue("type", cty.StringVal(*q.Templater))
	}
	if q.Preprocessor != nil {
		r.attr(blk.AppendNewBlock("preprocessor", nil).Body(), p+"preprocessor.mapping", "mapping", kvsTokens(q.Preprocessor.Mapping))
	}
	for j, pp := range q.Postprocessors {
		pj := fmt.Sprintf("%spostprocessors[%d].", p, j)
		pb := blk.AppendNewBlock("postprocessor", []string{pp.Type}).Body()
		if pp.Mapping != nil {
			r.attr(pb, pj+"mapping", "mapping", kvsTokens(*pp.Mapping))
		}
		if pp.Headers != nil {
			r.attr(pb, pj+"headers", "headers", kvsTokens(*pp.Headers))
		}
		if pp.Body != nil {
			r.attr(pb, pj+"body", "body", strsTokens(*pp.Body))
		}
		if pp.StatusCode != nil {
			pb.SetAttributeValue("status_code", cty.NumberIntVal(int64(*pp.StatusCode)))
		}
		if pp.Size != nil {
			sb := pb.AppendNewBlock("size", nil).Body()
			if pp.Size.Val != nil {
				sb.SetAttributeValue("val", cty.NumberIntVal(int64(*pp.Size.Val)))
			}
			sb.SetAttributeValue("op", cty.StringVal(pp.Size.Op))
		}
	}
}

func (r hclRenderer) call(b *hclwrite.Body, i int, c Call) {
	p := fmt.Sprintf("calls[%d].", i)
	blk := b.AppendNewBlock("call", []string{c.Name}).Body()
	r.attr(blk, p+"call", "call", strTokens(c.Call))
	if c.Tag != nil {
		r.attr(blk, p+"tag", "tag", strTokens(*c.Tag))
	}
	if c.Metadata != nil {
		r.attr(blk, p+"metadata", "metadata", kvsTokens(*c.Metadata))
	}
	for j, pp := range c.Preprocessors {
		pb := blk.AppendNewBlock("preprocessor", []string{pp.Type}).Body()
		r.attr(pb, fmt.Sprintf("%spreprocessors[%d].mapping", p, j), "mapping", kvsTokens(pp.Mapping))
	}
	lt := strTokens(c.Payload)
	if c.PayloadHeredoc && HeredocOK(c.Payload) {
		lt = heredocTokens(c.Payload)
	}
	r.attr(blk, p+"payload", "payload", lt)
	for j, pp := range c.Postprocessors {
		pb := blk.AppendNewBlock("postprocessor", []string{pp.Type}).Body()
		if pp.Payload != nil {
			r.attr(pb, fmt.Sprintf("%spostprocessors[%d].payload", p, j), "payload", strsTokens(*pp.Payload))
		}
		if pp.StatusCode != nil {
			pb.SetAttributeValue("status_code", cty.NumberIntVal(int64(*pp.StatusCode)))
		}
	}
}

func (r hclRenderer) scenario(b *hclwrite.Body, i int, s Scenario) {
	blk := b.AppendNewBlock("scenario", []string{s.Name}).Body()
	if s.Weight != nil {
		blk.SetAttributeValue("weight", cty.NumberIntVal(*s.Weight))
	}
	if s.MinWaitingTime != nil {
		blk.SetAttributeValue("min_waiting_time", cty.NumberIntVal(*s.MinWaitingTime))
	}
	r.attr(blk, fmt.Sprintf("scenarios[%d].requests", i), "requests", strsTokens(s.StepStrings()))
}

// DefaultHCLOrder is the order of the top-level block types when Layout.HCLOrder is empty.
var DefaultHCLOrder = []string{"locals", "variable_source", "step", "scenario"}

// RenderHCL writes the description in the HCL syntax config.AmmoHCL decodes:
// `variable_source "<name>" "<type>"`, `request "<name>"` / `call "<name>"`,
// `scenario "<name>"` blocks, nested `templater`, `preprocessor`,
// `postprocessor "<type>"` (`preprocessor "<type>"` for calls) and `size`
// blocks, plus the `locals` blocks and expressions of the model.
func RenderHCL(m Model) []byte {
	r := hclRenderer{m: m}
	f := hclwrite.NewEmptyFile()
	b := f.Body()
	order := m.Layout.HCLOrder
	if len(order) == 0 {
		order = DefaultHCLOrder
	}
	for _, kind := range order {
		switch kind {
		case "locals":
			for _, lb := range m.Locals {
				blk := b.AppendNewBlock("locals", nil).Body()
				for _, l := range lb.Locals {
					blk.SetAttributeRaw(l.Name, ExprTokens(l.Expr))
				}
			}
		case "variable_source":
			for i, s := range m.Sources {
				r.source(b, i, s)
			}
		case "step":
			for i, q := range m.Requests {
				r.request(b, i, q)
			}
			for i, c := range m.Calls {
				r.call(b, i, c)
			}
		case "scenario":
			for i, s := range m.Scenarios {
				r.scenario(b, i, s)
			}
		}
	}
	if m.Layout.HCLTail != "" {
		return applyTail(f.Bytes(), m.Layout.HCLTail)
	}
	return f.Bytes()
}
