package scengen

import (
	"bytes"
	"testing"

	"pgregory.net/rapid"
)

func styledModel(body string, st ScalarStyle) Model {
	hv := body
	return Model{Kind: "http",
		Requests: []Request{{Name: "r", Method: "POST", URI: "/", Headers: &KVs{{K: "H", V: hv}}, Body: &body,
			Postprocessors: []Postprocessor{{Type: PostAssert, Body: &[]string{body, "x"}}}}},
		Scenarios: []Scenario{{Name: "s", Steps: []Step{{Name: "r"}}}},
		Layout: Layout{YAMLStyles: map[string]ScalarStyle{
			"requests[0].body": st, "requests[0].headers.H": st, "requests[0].postprocessors[0].body[0]": st}}}
}

// strings every block style must be able to express (no CR / NEL: yaml reads those as line breaks)
var blockCorpus = []string{
	"a", "a\n", "a\n\n", "a\n\n\n", "\n", "\n\n", "", "a\nb", "a\nb\n", "a\n\nb\n", "\na\n", "\n\na",
	"\ttab first\n", "\t1\tno id\n7\tx\n", "id\tname\n\t1\tno id in this row\n7\tseven\tx\n", "{\n\t\"user\": 1,\n\t\t\"k\": \"v\"\n}\n",
	" one space\n", "  two\n    four\n", "a\n  indented\nb\n", "a\n\tindented\nb\n", "  \n", "a\n  \nb", "a\n\t\nb\n", "\t", "  ", "a  \n", "a\t\n", "trailing  \nmore\t\nend \n",
	"# c\n", "a # b\nk: v\n- item\n", "x: |\n  y\n", "--- \n...\n", "%TAG\n", "key: value", "'q' \"d\"\n", "日本語\n\tинд\n", "a b\n", "a b c d e f g\nh i\n",
	" lead", "trail ", "a\n\n\n\nb\n\n", "\n \n", " \n \n",
}

func TestHandScalarsReadBack(t *testing.T) {
	for _, style := range []string{StyleLiteral, StyleFolded} {
		for _, s := range blockCorpus {
			for _, ind := range []int{1, 2, 4, 9} {
				for _, fl := range []int{0, 1, 2, 3, 4, 5, 6, 7} {
					st := ScalarStyle{Style: style, Indent: ind, Explicit: fl&1 != 0, Keep: fl&2 != 0, Wrap: fl&4 != 0}
					out, stats := RenderYAMLStyled(styledModel(s, st))
					if len(stats.Fallback) > 0 || len(stats.Applied) != 3 {
						t.Errorf("%s %+v of %q: fallback %v applied %d\n%s", style, st, s, stats.Fallback, len(stats.Applied), out)
					}
				}
			}
		}
	}
}

func TestHandScalarsFlow(t *testing.T) {
	type tc struct {
		style string
		s     string
	}
	for _, c := range []tc{
		{StylePlain, "a b c d e"}, {StylePlain, "a\nb"}, {StylePlain, "a\n\nb c"}, {StylePlain, "Bearer {{.request.auth_req.postprocessor.token}}"},
		{StyleSingle, "a b c d e"}, {StyleSingle, "it's"}, {StyleSingle, "a\nb\n"}, {StyleSingle, "\ttab"}, {StyleSingle, "a\tb # c: d"}, {StyleSingle, "yes"}, {StyleSingle, ""},
		{StyleDouble, "a\n\tb\n"}, {StyleDouble, "\t1\tx\n \"q\" \\ \r\n\u0085 \x01\x7f\ufeff😀"}, {StyleDouble, "a\n b\n\tc"}, {StyleDouble, ""},
	} {
		for _, wrap := range []bool{false, true} {
			st := ScalarStyle{Style: c.style, Indent: 3, Wrap: wrap}
			out, stats := RenderYAMLStyled(styledModel(c.s, st))
			if len(stats.Fallback) > 0 || len(stats.Applied) != 3 {
				t.Errorf("%+v of %q: fallback %v\n%s", st, c.s, stats.Fallback, out)
			}
		}
	}
}

// what no style but the escaped one can say falls back, and the file still reads as the Marshal form does
func TestHandScalarFallback(t *testing.T) {
	for _, s := range []string{"a\rb", "a\r\nb\n", "a\u0085b", "a\x00b"} {
		m := styledModel(s, ScalarStyle{Style: StyleLiteral})
		out, stats := RenderYAMLStyled(m)
		if len(stats.Fallback) != 3 || len(stats.Applied) != 0 {
			t.Errorf("%q: %+v", s, stats)
		}
		if !bytes.Equal(out, RenderYAML(m)) {
			t.Errorf("%q: fallback is not the Marshal form", s)
		}
	}
}

func TestStyledOffIsRenderYAML(t *testing.T) {
	rapid.Check(t, func(t *rapid.T) {
		m := Gen(t, Opts{Special: true, TextBlocks: true})
		out, stats := RenderYAMLStyled(m)
		if !bytes.Equal(out, RenderYAML(m)) || len(stats.Applied)+len(stats.Fallback) != 0 {
			t.Fatalf("differs without styles")
		}
	})
}

func TestStyledGenerated(t *testing.T) {
	applied, fallback := map[string]int{}, map[string]int{}
	rapid.Check(t, func(t *rapid.T) {
		m := Gen(t, Opts{Special: true, TextBlocks: true, YAMLStyles: true})
		out, stats := RenderYAMLStyled(m)
		if !yamlDecodesEqual(out, RenderYAML(m)) {
			t.Fatalf("styled rendering reads differently:\n%s", out)
		}
		for _, a := range stats.Applied {
			applied[a.Style.Style]++
		}
		for _, p := range stats.Fallback {
			fallback[m.Layout.YAMLStyles[p].Style]++
		}
	})
	t.Logf("applied %v fallback %v", applied, fallback)
}
