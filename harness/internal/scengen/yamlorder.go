package scengen

import (
	"bytes"
	"fmt"
	"strconv"

	"gopkg.in/yaml.v2"
	"pgregory.net/rapid"
)

// Key order and file endings of the renderings.
//
// The keys of a YAML mapping have no order: `requests:` may stand after
// `scenarios:`, `body:` may be the last key of a request (people do put the
// bulky part last). Layout.YAMLOrder re-orders the keys of the mappings with
// fixed keys (the document, sources, requests, calls, processors, size,
// scenarios); user maps (headers, mapping, metadata, variables) keep the order
// of the model. What the order changes is which node ENDS the document: a
// block scalar there owns the final line break(s) of the file.
//
// Layout.YAMLTail / HCLTail vary the end of the file itself (no final
// newline, blank lines, a comment line).

// userMapKeys are the keys whose value is a map written by the user.
var userMapKeys = map[string]bool{"headers": true, "mapping": true, "metadata": true, "variables": true}

// File endings.
const (
	TailNoNewline  = "nonl"    // the final newline of the file is left out
	TailBlankLines = "blank"   // two empty lines follow
	TailComment    = "comment" // a `#` comment line follows (a comment in both syntaxes)
)

func applyTail(text []byte, tail string) []byte {
	out := append([]byte{}, text...)
	switch tail {
	case TailNoNewline:
		return bytes.TrimSuffix(out, []byte("\n"))
	case TailBlankLines:
		return append(out, "\n\n"...)
	case TailComment:
		return append(out, "# end of the description\n"...)
	}
	return out
}

func joinPath(path, key string) string {
	if path == "" {
		return key
	}
	return path + "." + key
}

// orderDoc returns v with the keys of the mappings named in orders re-ordered:
// first the named keys that exist, in the given order, then the others as they were.
func orderDoc(v any, path string, orders map[string][]string) any {
	switch x := v.(type) {
	case yaml.MapSlice:
		if x == nil {
			return x
		}
		out := make(yaml.MapSlice, 0, len(x))
		taken := make([]bool, len(x))
		for _, k := range orders[path] {
			for i, it := range x {
				if !taken[i] && fmt.Sprint(it.Key) == k {
					taken[i] = true
					out = append(out, it)
					break
				}
			}
		}
		for i, it := range x {
			if !taken[i] {
				out = append(out, it)
			}
		}
		for i, it := range out {
			k := fmt.Sprint(it.Key)
			if userMapKeys[k] {
				continue
			}
			out[i].Value = orderDoc(it.Value, joinPath(path, k), orders)
		}
		return out
	case []yaml.MapSlice:
		if x == nil {
			return x
		}
		out := make([]yaml.MapSlice, len(x))
		for i, e := range x {
			out[i] = orderDoc(e, path+"["+strconv.Itoa(i)+"]", orders).(yaml.MapSlice)
		}
		return out
	}
	return v
}

// YAMLMapping is one mapping of the YAML rendering whose keys are fixed by the format.
type YAMLMapping struct {
	Path string
	Keys []string // in the order YAMLDoc writes them
	// StringKeys are the keys whose value is a string scalar.
	StringKeys []string
}

func structuralMaps(v any, path string, out *[]YAMLMapping) {
	switch x := v.(type) {
	case yaml.MapSlice:
		sm := YAMLMapping{Path: path}
		for _, it := range x {
			k := fmt.Sprint(it.Key)
			sm.Keys = append(sm.Keys, k)
			if _, isStr := it.Value.(string); isStr {
				sm.StringKeys = append(sm.StringKeys, k)
			}
		}
		*out = append(*out, sm)
		for _, it := range x {
			k := fmt.Sprint(it.Key)
			if !userMapKeys[k] {
				structuralMaps(it.Value, joinPath(path, k), out)
			}
		}
	case []yaml.MapSlice:
		for i, e := range x {
			structuralMaps(e, path+"["+strconv.Itoa(i)+"]", out)
		}
	}
}

// YAMLMappings lists the mappings with fixed keys of the YAML rendering (document first, then depth-first).
func YAMLMappings(m Model) []YAMLMapping {
	var out []YAMLMapping
	structuralMaps(YAMLDoc(m), "", &out)
	return out
}

func moveLast(keys []string, key string) []string {
	out := make([]string, 0, len(keys))
	for _, k := range keys {
		if k != key {
			out = append(out, k)
		}
	}
	return append(out, key)
}

// AddYAMLOrder draws Layout.YAMLOrder. A quarter of the descriptions keep the
// default order everywhere; in the others every mapping with fixed keys is
// permuted (uniformly) with 60%. 40% of those are additionally written "bulky
// part last": the requests / calls section is the last section of the file and
// its last entry ends with a string value (body / payload in 85% when there is
// one), which is written as a block scalar in 70% (style drawn here, replacing
// what AddYAMLStyles drew for that value) - the document then ends inside a
// block scalar.
func AddYAMLOrder(t *rapid.T, m *Model) {
	g := sgen{t: t}
	if g.chance("yaml_order:none", 25) {
		return
	}
	var maps []YAMLMapping
	structuralMaps(yamlDocDefault(*m), "", &maps)
	orders := map[string][]string{}
	for _, sm := range maps {
		l := "yaml_order:" + sm.Path
		if len(sm.Keys) < 2 || !g.chance(l+"?", 60) {
			continue
		}
		perm := append([]string{}, sm.Keys...)
		for i := len(perm) - 1; i > 0; i-- { // Fisher-Yates
			j := uniform(t, l+".swap", i+1)
			perm[i], perm[j] = perm[j], perm[i]
		}
		orders[sm.Path] = perm
	}
	if g.chance("yaml_order:bulky_last", 40) {
		section, n := "requests", len(m.Requests)
		if m.Kind == "grpc" {
			section, n = "calls", len(m.Calls)
		}
		var top, entry *YAMLMapping
		entryPath := section + "[" + strconv.Itoa(n-1) + "]"
		for i := range maps {
			switch maps[i].Path {
			case "":
				top = &maps[i]
			case entryPath:
				entry = &maps[i]
			}
		}
		if n > 0 && top != nil && entry != nil && len(entry.StringKeys) > 0 {
			cur := orders[""]
			if cur == nil {
				cur = top.Keys
			}
			orders[""] = moveLast(cur, section)
			bulky := ""
			for _, k := range entry.StringKeys {
				if k == "body" || k == "payload" {
					bulky = k
				}
			}
			key := bulky
			if key == "" || !g.chance("yaml_order:bulky_last.body", 85) {
				key = pickU(t, "yaml_order:bulky_last.key", entry.StringKeys)
			}
			cur = orders[entryPath]
			if cur == nil {
				cur = entry.Keys
			}
			orders[entryPath] = moveLast(cur, key)
			if g.chance("yaml_order:bulky_last.block", 70) {
				l := "yaml_order:bulky_last.style"
				st := ScalarStyle{Style: pickU(t, l, []string{StyleLiteral, StyleLiteral, StyleLiteral, StyleFolded, StyleFolded})}
				st.Indent = pickU(t, l+".indent", []int{1, 2, 2, 2, 2, 3, 4, 4, 6, 8})
				st.Explicit = g.chance(l+".explicit", 25)
				st.Keep = g.chance(l+".keep", 30)
				if st.Style == StyleFolded {
					st.Wrap = g.chance(l+".wrap", 50)
				}
				styles := map[string]ScalarStyle{}
				for k, v := range m.Layout.YAMLStyles {
					styles[k] = v
				}
				styles[entryPath+"."+key] = st
				m.Layout.YAMLStyles = styles
			}
		}
	}
	if len(orders) > 0 {
		m.Layout.YAMLOrder = orders
	}
}

// AddFileTails draws Layout.YAMLTail and Layout.HCLTail: four in seven files end as rendered.
func AddFileTails(t *rapid.T, m *Model) {
	tails := []string{"", "", "", "", TailNoNewline, TailBlankLines, TailComment}
	m.Layout.YAMLTail = pickU(t, "yaml_tail", tails)
	m.Layout.HCLTail = pickU(t, "hcl_tail", tails)
}
