package scengen

import (
	"testing"

	"gopkg.in/yaml.v2"
	"pgregory.net/rapid"
)

// stripLocals re-marshals the file without its `locals` helper block (anchors resolved by the reader).
func stripLocals(t *rapid.T, text []byte) []byte {
	var v map[string]any
	if err := yaml.Unmarshal(text, &v); err != nil {
		t.Fatalf("yaml.v2 cannot read the anchored rendering: %v\n%s", err, text)
	}
	delete(v, "locals")
	b, err := yaml.Marshal(v)
	if err != nil {
		t.Fatalf("%v", err)
	}
	return b
}

// the anchored rendering of generated descriptions: kept (self-check passed) in all but rare cases, and the
// classes of the plan are all met
func TestAnchoredGenerated(t *testing.T) {
	n := map[string]int{}
	reasons := map[string]int{}
	rapid.Check(t, func(t *rapid.T) {
		m := Gen(t, Opts{Special: true, TextBlocks: true, YAMLStyles: true, YAMLOrder: true, FileTails: true, YAMLAnchors: true})
		n["cases"]++
		if m.Layout.YAMLAnchors == nil {
			return
		}
		n["planned"]++
		out, stats := RenderYAMLStyled(m)
		a := stats.Anchors
		if a == nil {
			t.Fatalf("no anchor stats")
		}
		if a.Fallback {
			n["fallback"]++
			reasons[a.Reason]++
			return
		}
		if a.Locals != nil {
			n["locals_block"]++
		}
		over := false
		for _, s := range a.Sites {
			n["sites"]++
			if s.Alias != "" {
				n["alias"]++
			}
			if s.Anchor != "" {
				n["inline_anchor"]++
			}
			if len(s.Merge) > 1 {
				n["merge_list"]++
			}
			if len(s.Overrides) > 0 {
				n["override"]++
				over = true
			}
			if s.ListCommonKey {
				n["list_common"]++
			}
			if s.Chain {
				n["chain"]++
			}
			if s.BeforeMerge > 0 {
				n["before_merge"]++
			}
		}
		if over {
			n["cases_with_override"]++
		}
		if !yamlDecodesEqual(stripLocals(t, out), RenderYAML(m)) {
			t.Fatalf("anchored rendering reads differently:\n%s", out)
		}
	})
	t.Logf("%v", n)
	t.Logf("fallback reasons: %v", reasons)
	if n["fallback"]*50 > n["planned"] {
		t.Errorf("too many plans given up")
	}
}

func TestAnchorsOffIsUnchanged(t *testing.T) {
	rapid.Check(t, func(t *rapid.T) {
		m := Gen(t, Opts{Special: true, TextBlocks: true, YAMLStyles: true, YAMLOrder: true})
		if m.Layout.YAMLAnchors != nil {
			t.Fatalf("plan without the option")
		}
		if _, st := RenderYAMLStyled(m); st.Anchors != nil {
			t.Fatalf("anchor stats without a plan")
		}
	})
}
