package scengen

import (
	"bytes"
	"fmt"
	"reflect"
	"strconv"
	"strings"

	"gopkg.in/yaml.v2"
)

// Hand-written scalar styles of the YAML rendering.
//
// RenderYAML writes every string the way yaml.v2's Marshal does (plain where
// that is safe, double-quoted with escapes otherwise - never a block scalar
// for a string with a tab, never a multi-line plain or quoted scalar). People
// write `body: |`, `payload: >-`, wrapped plain text and single quotes.
// Layout.YAMLStyles asks RenderYAMLStyled to write chosen string VALUES in one
// of those styles; everything else of the file stays as Marshal writes it.
//
// The hand-written form is only kept when yaml.v2 itself reads it back as the
// intended string (round-trip self-check against the Marshal form); otherwise
// the Marshal form is written and the site is reported in
// YAMLStyleStats.Fallback.

// Scalar styles.
const (
	StyleLiteral = "literal" // `|`  block scalar
	StyleFolded  = "folded"  // `>`  block scalar
	StylePlain   = "plain"   // unquoted, continuation lines folded
	StyleSingle  = "single"  // '...' with '' for a quote, continuation lines folded
	StyleDouble  = "double"  // "..." escaping only what must be escaped (literal tabs and unicode)
)

// ScalarStyle is the hand-written form of one string value.
type ScalarStyle struct {
	Style string `json:"style"`
	// Indent is the indentation of the content / continuation lines relative
	// to the column of the parent key (or of the `-` of a list item): 1-9, 0 = 2.
	Indent int `json:"indent,omitempty"`
	// Explicit writes the indentation indicator of a block scalar (`|2`) even
	// where yaml would detect the indentation (it is always written when the
	// first non-empty line starts with a space or a tab).
	Explicit bool `json:"explicit,omitempty"`
	// Keep writes `+` instead of clip for a block scalar with exactly one trailing newline.
	Keep bool `json:"keep,omitempty"`
	// Wrap breaks lines by hand where the style folds the break away again:
	// at single spaces (folded, plain, single) or after `\n` with a trailing `\` (double).
	Wrap bool `json:"wrap,omitempty"`
}

// YAMLSite is one string value of the YAML rendering.
type YAMLSite struct {
	Path  string // e.g. requests[0].body, calls[1].metadata.authorization, requests[0].postprocessors[1].body[0]
	Value string
}

// AppliedStyle is one value RenderYAMLStyled wrote by hand.
type AppliedStyle struct {
	Path  string
	Style ScalarStyle
	Value string
	Text  string // what stands after `key: ` / `- ` in the file
}

// YAMLStyleStats says what RenderYAMLStyled did with Layout.YAMLStyles.
type YAMLStyleStats struct {
	Applied []AppliedStyle
	// Fallback lists the paths whose hand-written form yaml.v2 did not read
	// back as the intended string: they are written in the Marshal form.
	Fallback []string
	// Last is the hand-written value that ends the document (nil when the document ends with something else):
	// for a block scalar the final line breaks of the file are part of it.
	Last *AppliedStyle
	// Tail is the Layout.YAMLTail that was applied; TailFallback says that Layout.YAMLTail was given up because
	// yaml.v2 reads the file differently with it (a clip / keep block scalar at the end of the document).
	Tail         string
	TailFallback bool
	// Anchors says what was done with Layout.YAMLAnchors (nil: no plan).
	Anchors *YAMLAnchorStats
}

// mapDoc rebuilds the document v with every string value replaced by f(path, value).
func mapDoc(v any, path string, f func(path, s string) string) any {
	switch x := v.(type) {
	case yaml.MapSlice:
		if x == nil {
			return x
		}
		out := make(yaml.MapSlice, len(x))
		for i, it := range x {
			p := fmt.Sprint(it.Key)
			if path != "" {
				p = path + "." + p
			}
			out[i] = yaml.MapItem{Key: it.Key, Value: mapDoc(it.Value, p, f)}
		}
		return out
	case []yaml.MapSlice:
		if x == nil {
			return x
		}
		out := make([]yaml.MapSlice, len(x))
		for i, e := range x {
			out[i] = mapDoc(e, path+"["+strconv.Itoa(i)+"]", f).(yaml.MapSlice)
		}
		return out
	case []string:
		if x == nil {
			return x
		}
		out := make([]string, len(x))
		for i, e := range x {
			out[i] = f(path+"["+strconv.Itoa(i)+"]", e)
		}
		return out
	case string:
		return f(path, x)
	}
	return v
}

// YAMLStringSites lists the string values of the YAML rendering in file order.
func YAMLStringSites(m Model) []YAMLSite {
	var out []YAMLSite
	mapDoc(YAMLDoc(m), "", func(p, s string) string {
		out = append(out, YAMLSite{Path: p, Value: s})
		return s
	})
	return out
}

// marshalQuotingMergeKey marshals the document build() returns; the map key
// `<<`, which yaml.v2 emits unquoted, is written quoted (as RenderYAML does).
func marshalQuotingMergeKey(build func() yaml.MapSlice) []byte {
	doc := build()
	n := renameKey(doc, "<<", "<<")
	if n == 0 {
		return marshalYAML(doc)
	}
	for alias := "zzMERGEKEYzz"; ; alias += "z" {
		doc = build()
		renameKey(doc, "<<", alias)
		b := marshalYAML(doc)
		if bytes.Count(b, []byte(alias)) != n {
			continue
		}
		return bytes.ReplaceAll(b, []byte(alias), []byte(`"<<"`))
	}
}

func yamlDecodesEqual(a, b []byte) bool {
	var vb any
	if err := yaml.Unmarshal(b, &vb); err != nil {
		return false
	}
	return yamlDecodesTo(a, vb)
}

func yamlDecodesTo(a []byte, want any) bool {
	var va any
	if err := yaml.Unmarshal(a, &va); err != nil {
		return false
	}
	return reflect.DeepEqual(va, want)
}

// RenderYAMLStyled is RenderYAML with the string values named in
// Layout.YAMLStyles written by hand and the file ending as Layout.YAMLTail says. Without styles and tail the
// output is RenderYAML's.
func RenderYAMLStyled(m Model) ([]byte, YAMLStyleStats) {
	text, st := renderYAMLStyled(m)
	for i := range st.Applied {
		if bytes.HasSuffix(text, []byte(": "+st.Applied[i].Text+"\n")) || bytes.HasSuffix(text, []byte("- "+st.Applied[i].Text+"\n")) {
			st.Last = &st.Applied[i]
		}
	}
	if tail := m.Layout.YAMLTail; tail != "" {
		if t2 := applyTail(text, tail); !bytes.Equal(t2, text) && yamlDecodesEqual(t2, text) {
			text, st.Tail = t2, tail
		} else {
			st.TailFallback = true
		}
	}
	return text, st
}

func renderYAMLStyled(m Model) ([]byte, YAMLStyleStats) {
	if m.Layout.YAMLAnchors == nil {
		return renderYAMLStyledPlain(m)
	}
	// user maps written through anchors and merge keys (yamlanchor.go)
	text, st, ok := renderYAMLAnchored(m)
	if ok {
		return text, st
	}
	m.Layout.YAMLAnchors = nil
	text, plain := renderYAMLStyledPlain(m)
	plain.Anchors = st.Anchors
	return text, plain
}

func renderYAMLStyledPlain(m Model) ([]byte, YAMLStyleStats) {
	var st YAMLStyleStats
	base := RenderYAML(m)
	if len(m.Layout.YAMLStyles) == 0 {
		return base, st
	}
	var want any
	if err := yaml.Unmarshal(base, &want); err != nil {
		panic("scengen: yaml.v2 cannot read what it marshalled: " + err.Error())
	}
	var active []YAMLSite
	for _, s := range YAMLStringSites(m) {
		if _, ok := m.Layout.YAMLStyles[s.Path]; ok {
			active = append(active, s)
		}
	}
	for len(active) > 0 {
		text, applied, bad := renderStyledSites(m, base, active)
		if len(bad) == 0 && yamlDecodesTo(text, want) {
			st.Applied = applied
			return text, st
		}
		// which of them is not read back as intended? try each alone
		var good []YAMLSite
		for _, s := range active {
			t, _, b := renderStyledSites(m, base, []YAMLSite{s})
			if len(b) == 0 && yamlDecodesTo(t, want) {
				good = append(good, s)
			} else {
				st.Fallback = append(st.Fallback, s.Path)
			}
		}
		if len(good) == len(active) {
			// each one alone is fine, together they are not: give all of them up
			for _, s := range active {
				st.Fallback = append(st.Fallback, s.Path)
			}
			return base, st
		}
		active = good
	}
	return base, st
}

// renderStyledSites marshals the document with a placeholder at every site
// and puts the hand-written scalar in its place. bad lists the sites whose
// placeholder was not found where a scalar can be substituted.
func renderStyledSites(m Model, base []byte, sites []YAMLSite) (text []byte, applied []AppliedStyle, bad []string) {
	prefix := "zzYS"
	for bytes.Contains(base, []byte(prefix)) {
		prefix += "q"
	}
	ph := map[string]string{}
	for i, s := range sites {
		ph[s.Path] = prefix + strconv.Itoa(i) + "zz"
	}
	text = marshalQuotingMergeKey(func() yaml.MapSlice {
		return mapDoc(YAMLDoc(m), "", func(p, s string) string {
			if h, ok := ph[p]; ok {
				return h
			}
			return s
		}).(yaml.MapSlice)
	})
	for _, s := range sites {
		h := []byte(ph[s.Path])
		at := bytes.Index(text, h)
		end := at + len(h)
		if at < 0 || bytes.Count(text, h) != 1 || end >= len(text) || text[end] != '\n' {
			bad = append(bad, s.Path)
			continue
		}
		ls := bytes.LastIndexByte(text[:at], '\n') + 1
		line := text[ls:at]
		// `    - key: ` or `    - `: the column block-scalar indentation counts from
		i, dash := 0, -1
		for i < len(line) && line[i] == ' ' {
			i++
		}
		for i+1 < len(line) && line[i] == '-' && line[i+1] == ' ' {
			dash = i
			i += 2
		}
		col := i
		switch {
		case i == len(line) && dash >= 0: // list item
			col = dash
		case i < len(line) && bytes.HasSuffix(line, []byte(": ")): // mapping value
		default:
			bad = append(bad, s.Path)
			continue
		}
		style := m.Layout.YAMLStyles[s.Path]
		hand := HandScalar(s.Value, style, col)
		text = append(text[:at:at], append([]byte(hand), text[end:]...)...)
		applied = append(applied, AppliedStyle{Path: s.Path, Style: style, Value: s.Value, Text: hand})
	}
	return text, applied, bad
}

// HandScalar writes s in the given style as the value of a key (or list item)
// that starts in column parentCol. The result has no final newline. It is a
// rendering attempt: whether yaml reads it back as s is for the caller to check.
func HandScalar(s string, st ScalarStyle, parentCol int) string {
	k := st.Indent
	if k <= 0 {
		k = 2
	}
	if k > 9 {
		k = 9
	}
	pad := strings.Repeat(" ", parentCol+k)
	switch st.Style {
	case StyleLiteral:
		return blockScalar(s, st, k, pad, false)
	case StyleFolded:
		return blockScalar(s, st, k, pad, true)
	case StylePlain:
		return flowFolded(s, pad, st.Wrap, "")
	case StyleSingle:
		return "'" + flowFolded(s, pad, st.Wrap, "'") + "'"
	case StyleDouble:
		return doubleQuoted(s, pad, st.Wrap)
	}
	panic("scengen: unknown YAML scalar style " + st.Style)
}

func startsBlank(l string) bool { return l != "" && (l[0] == ' ' || l[0] == '\t') }

// wrapAtSpaces breaks l at every second single space that stands between two
// non-blank characters.
func wrapAtSpaces(l string) []string {
	var out []string
	start, seen := 0, 0
	for i := 1; i+1 < len(l); i++ {
		if l[i] != ' ' || l[i-1] == ' ' || l[i-1] == '\t' || l[i+1] == ' ' || l[i+1] == '\t' {
			continue
		}
		seen++
		if seen%2 == 1 {
			out = append(out, l[start:i])
			start = i + 1
		}
	}
	return append(out, l[start:])
}

// indentBreaks writes the indentation after the line separators yaml 1.1
// knows besides LF (U+2028, U+2029): what follows them is a new line of the file.
func indentBreaks(l, pad string) string {
	if !strings.ContainsAny(l, "\u2028\u2029") {
		return l
	}
	return strings.NewReplacer("\u2028", "\u2028"+pad, "\u2029", "\u2029"+pad).Replace(l)
}

func blockScalar(s string, st ScalarStyle, k int, pad string, folded bool) string {
	trimmed := strings.TrimRight(s, "\n")
	trail := len(s) - len(trimmed)
	chomp := ""
	switch {
	case trail == 0:
		chomp = "-"
	case trail == 1 && trimmed != "" && !st.Keep:
	default:
		chomp = "+"
	}
	var lines []string
	if trimmed != "" {
		lines = strings.Split(trimmed, "\n")
	}
	explicit := st.Explicit
	for _, l := range lines {
		if l != "" {
			explicit = explicit || startsBlank(l)
			break
		}
	}
	if folded {
		// a single break between two lines that both start at the indentation is
		// read as a space: such a break is written with an empty line after it
		var out []string
		prev := ""
		for _, l := range lines {
			if l == "" {
				out = append(out, "")
				continue
			}
			if prev != "" && !startsBlank(prev) && !startsBlank(l) {
				out = append(out, "")
			}
			if st.Wrap && !startsBlank(l) {
				out = append(out, wrapAtSpaces(l)...)
			} else {
				out = append(out, l)
			}
			prev = l
		}
		lines = out
	}
	var b strings.Builder
	if folded {
		b.WriteString(">")
	} else {
		b.WriteString("|")
	}
	if explicit {
		b.WriteString(strconv.Itoa(k))
	}
	b.WriteString(chomp)
	for _, l := range lines {
		b.WriteString("\n")
		if l != "" {
			b.WriteString(pad)
			b.WriteString(indentBreaks(l, pad))
		}
	}
	extra := trail
	if trimmed != "" {
		extra = trail - 1
	}
	if chomp == "+" {
		b.WriteString(strings.Repeat("\n", extra))
	}
	return b.String()
}

// flowFolded writes s as the inside of a plain (quote == "") or single-quoted
// scalar: a run of n newlines is written as n+1 line breaks (the first one is
// folded away by the reader), continuation lines are indented.
func flowFolded(s, pad string, wrap bool, quote string) string {
	var b strings.Builder
	spaces := 0
	for i := 0; i < len(s); {
		c := s[i]
		if c == '\n' {
			j := i
			for j < len(s) && s[j] == '\n' {
				j++
			}
			b.WriteString(strings.Repeat("\n", j-i+1))
			b.WriteString(pad)
			i = j
			continue
		}
		if wrap && c == ' ' && i > 0 && i+1 < len(s) && !strings.ContainsRune(" \t\n", rune(s[i-1])) && !strings.ContainsRune(" \t\n", rune(s[i+1])) {
			spaces++
			if spaces%2 == 1 {
				b.WriteString("\n")
				b.WriteString(pad)
				i++
				continue
			}
		}
		if quote != "" && c == quote[0] {
			b.WriteByte(c)
		}
		b.WriteByte(c)
		i++
	}
	return indentBreaks(b.String(), pad)
}

// doubleQuoted escapes what a double-quoted scalar must escape and nothing
// else: tabs and printable unicode stay literal. With wrap the text continues
// on a new line after every `\n` (the line ends with `\`).
func doubleQuoted(s, pad string, wrap bool) string {
	var b strings.Builder
	b.WriteByte('"')
	lineStart := false
	rs := []rune(s)
	for i, r := range rs {
		atStart := lineStart
		lineStart = false
		switch {
		case r == '"':
			b.WriteString(`\"`)
		case r == '\\':
			b.WriteString(`\\`)
		case r == '\n':
			b.WriteString(`\n`)
			if wrap && i+1 < len(rs) {
				b.WriteString("\\\n")
				b.WriteString(pad)
				lineStart = true
			}
		case r == '\r':
			b.WriteString(`\r`)
		case r == '\t' && atStart:
			b.WriteString(`\t`)
		case r == ' ' && atStart:
			b.WriteString(`\ `)
		case r == '\t':
			b.WriteRune(r)
		case r < 0x20 || (r >= 0x7f && r <= 0x9f && r != 0x85):
			fmt.Fprintf(&b, `\x%02X`, r)
		case r == 0x85:
			b.WriteString(`\N`)
		case r == 0x2028:
			b.WriteString(`\L`)
		case r == 0x2029:
			b.WriteString(`\P`)
		case r == 0xfeff || r == 0xfffe || r == 0xffff:
			fmt.Fprintf(&b, `\u%04X`, r)
		default:
			b.WriteRune(r)
		}
	}
	b.WriteByte('"')
	return b.String()
}
