package scengen

import (
	"bytes"
	"fmt"
	"reflect"
	"sort"
	"strconv"
	"strings"

	"gopkg.in/yaml.v2"
	"pgregory.net/rapid"
)

// Anchors and merge keys in the YAML rendering.
//
// docs/eng/scenario/locals.md: "In YAML format, you can use anchors. For common variables, you can use the
// `locals` helper block" - anchors (`&name`), aliases (`*name`) and the merge key (`<<: *name`,
// `<<: [*a, *b]`) are the YAML counterpart of HCL `locals` + merge(); the bundled testdata/http_payload.yaml is
// written that way. Layout.YAMLAnchors asks RenderYAMLStyled to write chosen USER MAPS (headers, metadata,
// mapping, variables) of the YAML rendering through anchors:
//
//   - anchors are defined in a `locals:` helper block at the top of the file (entries of their own, optionally
//     a `<<` of earlier anchors) or inline on a user map (`headers: &auth-headers`);
//   - a user map is written as an alias of a whole anchor (`headers: *name`) or as a mapping with a merge key and
//     explicit keys. A key the mapping sets itself wins over the merged ones, in a merge list the earlier anchor
//     wins over the later (YAML 1.1 merge key). yaml.v2 (the library config.DecodeMap reads with) lets an
//     explicit key win only when it stands AFTER the `<<` (measured), so overriding keys are written after it -
//     the way the documentation and people write it.
//
// The plan never changes what the file means: the renderer computes which keys must be explicit (those the
// merged anchors lack or hold with another value) from the model, drops merges that would bring in a key the
// map does not have, and keeps the anchored form only when yaml.v2's own Unmarshal reads the whole file exactly
// as it reads the Marshal form (plus the `locals` key); otherwise the plan is given up (YAMLAnchorStats.Fallback).
// Values inside a map written through anchors are written as Marshal writes them (Layout.YAMLStyles is not
// applied there).

// YAMLAnchor is one anchor of the `locals:` helper block.
type YAMLAnchor struct {
	Name string `json:"name"`
	// Merge names earlier anchors of the block merged into this one (`<<: *a` / `<<: [*a, *b]`).
	Merge   []string `json:"merge,omitempty"`
	Entries KVs      `json:"entries,omitempty"`
}

// YAMLAnchoredMap says how one user map of the YAML rendering is written.
type YAMLAnchoredMap struct {
	// Anchor defines `&name` on this mapping (an inline definition, usable by the maps that follow in the file).
	Anchor string `json:"anchor,omitempty"`
	// Alias writes the whole mapping as `*name` (kept only when the anchor is exactly this map).
	Alias string `json:"alias,omitempty"`
	// Merge: `<<: *a` / `<<: [*a, *b]`.
	Merge []string `json:"merge,omitempty"`
	// Before / After are keys written explicitly before / after the `<<` although the merge would give the same
	// value (or that the merge does not hold). Keys that MUST be explicit are added after the `<<` by the renderer.
	Before []string `json:"before,omitempty"`
	After  []string `json:"after,omitempty"`
}

// YAMLAnchors is the plan of the anchored rendering.
type YAMLAnchors struct {
	Locals []YAMLAnchor               `json:"locals,omitempty"`
	Maps   map[string]YAMLAnchoredMap `json:"maps,omitempty"` // by YAMLUserMap.Path
}

// AnchoredSite is one user map RenderYAMLStyled wrote through anchors.
type AnchoredSite struct {
	Path   string
	Anchor string   // `&name` defined here
	Alias  string   // written as `*name`
	Merge  []string // anchors of the merge key
	// Explicit are the keys the mapping sets itself; Overrides those of them a merged anchor holds with ANOTHER
	// value, SameAgain those a merged anchor holds with the same value.
	Explicit, Overrides, SameAgain []string
	// BeforeMerge is the number of explicit keys written before the `<<`.
	BeforeMerge int
	// ListCommonKey: a merge list whose anchors have a key in common; Chain: a merged anchor itself has a merge key
	// (or is an inline anchor whose map was written with one).
	ListCommonKey, Chain bool
}

// YAMLAnchorStats says what RenderYAMLStyled did with Layout.YAMLAnchors.
type YAMLAnchorStats struct {
	// Locals is what the `locals:` helper block of the file says, merges resolved (nil: no block written).
	Locals map[string]map[string]string
	// LocalsWithMerge counts the anchors of the block that have a merge key, LocalsOverride those of them that set
	// a key a merged anchor holds with another value.
	LocalsWithMerge, LocalsOverride int
	Sites                           []AnchoredSite
	// Plain lists the maps of the plan that were written without alias and merge key (nothing of the plan fits).
	Plain []string
	// Fallback: the whole plan was given up (Reason says why).
	Fallback bool
	Reason   string
}

// YAMLUserMap is one user map (headers, metadata, mapping, variables) of the YAML rendering.
type YAMLUserMap struct {
	Path    string // requests[0].headers, calls[1].preprocessors[0].mapping, variable_sources[0].variables, ...
	Entries KVs
	// Anchorable: not empty, no key `<<`, string values only.
	Anchorable bool
}

type userMapRef struct {
	path string
	get  func() *KVs
	set  func(KVs)
	ok   bool // values are strings
}

// userMapRefs lists the user maps of m that are present. set replaces a map; call it on a model from
// copyForUserMaps only.
func userMapRefs(m *Model) []userMapRef {
	var out []userMapRef
	add := func(path string, p **KVs, ok bool) {
		if *p == nil {
			return
		}
		out = append(out, userMapRef{path: path, get: func() *KVs { return *p }, set: func(k KVs) { *p = &k }, ok: ok})
	}
	addV := func(path string, p *KVs) {
		out = append(out, userMapRef{path: path, get: func() *KVs { return p }, set: func(k KVs) { *p = k }, ok: true})
	}
	for i := range m.Sources {
		s := &m.Sources[i]
		add(fmt.Sprintf("variable_sources[%d].variables", i), &s.Variables, len(s.TypedKeys) == 0)
	}
	for i := range m.Requests {
		q := &m.Requests[i]
		base := fmt.Sprintf("requests[%d].", i)
		add(base+"headers", &q.Headers, true)
		if q.Preprocessor != nil {
			addV(base+"preprocessor.mapping", &q.Preprocessor.Mapping)
		}
		for j := range q.Postprocessors {
			p := &q.Postprocessors[j]
			pb := fmt.Sprintf("%spostprocessors[%d].", base, j)
			add(pb+"mapping", &p.Mapping, true)
			add(pb+"headers", &p.Headers, true)
		}
	}
	for i := range m.Calls {
		c := &m.Calls[i]
		base := fmt.Sprintf("calls[%d].", i)
		add(base+"metadata", &c.Metadata, true)
		for j := range c.Preprocessors {
			addV(fmt.Sprintf("%spreprocessors[%d].mapping", base, j), &c.Preprocessors[j].Mapping)
		}
	}
	return out
}

// copyForUserMaps copies what userMapRefs' set writes to.
func copyForUserMaps(m Model) Model {
	c := m
	c.Sources = append([]Source{}, m.Sources...)
	c.Requests = append([]Request{}, m.Requests...)
	for i := range c.Requests {
		q := &c.Requests[i]
		if q.Preprocessor != nil {
			p := *q.Preprocessor
			q.Preprocessor = &p
		}
		q.Postprocessors = append([]Postprocessor{}, q.Postprocessors...)
	}
	c.Calls = append([]Call{}, m.Calls...)
	for i := range c.Calls {
		c.Calls[i].Preprocessors = append([]CallPreprocessor{}, c.Calls[i].Preprocessors...)
	}
	return c
}

func anchorable(k KVs, stringsOnly bool) bool {
	if len(k) == 0 || !stringsOnly {
		return false
	}
	for _, e := range k {
		if e.K == "<<" {
			return false
		}
	}
	return true
}

// YAMLUserMaps lists the user maps of the YAML rendering in file order (Layout.YAMLOrder applied).
func YAMLUserMaps(m Model) []YAMLUserMap {
	byPath := map[string]userMapRef{}
	for _, r := range userMapRefs(&m) {
		byPath[r.path] = r
	}
	var out []YAMLUserMap
	var walk func(v any, path string)
	walk = func(v any, path string) {
		switch x := v.(type) {
		case yaml.MapSlice:
			for _, it := range x {
				k := fmt.Sprint(it.Key)
				p := joinPath(path, k)
				if userMapKeys[k] {
					if r, ok := byPath[p]; ok {
						e := *r.get()
						out = append(out, YAMLUserMap{Path: p, Entries: e, Anchorable: anchorable(e, r.ok)})
					}
					continue
				}
				walk(it.Value, p)
			}
		case []yaml.MapSlice:
			for i, e := range x {
				walk(e, path+"["+strconv.Itoa(i)+"]")
			}
		}
	}
	walk(YAMLDoc(m), "")
	return out
}

// mergeEffective is what `<<: [names...]` brings in: the earlier anchor wins.
func mergeEffective(names []string, eff map[string]map[string]string) map[string]string {
	out := map[string]string{}
	for i := len(names) - 1; i >= 0; i-- {
		for k, v := range eff[names[i]] {
			out[k] = v
		}
	}
	return out
}

func keysWithin(a map[string]string, s map[string]string) bool {
	for k := range a {
		if _, ok := s[k]; !ok {
			return false
		}
	}
	return true
}

var anchorNamePool = []string{"global-headers", "auth-headers", "common_headers", "defaults", "shared", "base", "common-meta", "std", "a1", "trace"}

var anchorDecoys = []string{"overridden", "text/plain", "", "0", "yes", "~", "*/*", "Tank", "{{.source.variables.header}}", "to be replaced: here"}

// AddYAMLAnchors draws Layout.YAMLAnchors for 35% of the descriptions that have a user map which can be written
// through anchors (call it after AddYAMLOrder: inline anchors must stand before their aliases in the file).
// 1-3 anchors: each takes its entries from a donor map - 70% an anchor of the `locals:` block holding a drawn
// part of the donor's entries (each key with 65%), of which every entry gets ANOTHER value with 30% (whoever merges the
// anchor then has to override that key) and which merges an earlier anchor of the block with 25%; 30% an inline
// anchor on the donor map itself. Every map that follows a definition and has all the keys of the anchor merges
// it with 70% (the donor of a `locals` anchor always can), at most two anchors per map, in a drawn order; a map
// that equals its only merged anchor is written as a plain alias with 40%; keys that need not be explicit are
// written anyway with 25%, before or after the `<<`.
func AddYAMLAnchors(t *rapid.T, m *Model) {
	g := sgen{t: t}
	var sites []YAMLUserMap
	for _, s := range YAMLUserMaps(*m) {
		if s.Anchorable {
			sites = append(sites, s)
		}
	}
	if len(sites) == 0 || !g.chance("yaml_anchors?", 35) {
		return
	}
	plan := &YAMLAnchors{Maps: map[string]YAMLAnchoredMap{}}
	eff := map[string]map[string]string{}
	definedAt := map[string]int{} // anchor -> index of the site that defines it inline (-1: locals block)
	var names []string
	n := 1 + uniform(t, "yaml_anchors#n", 3)
	pool := append([]string{}, anchorNamePool...)
	for i := 0; i < n; i++ {
		l := fmt.Sprintf("yaml_anchor[%d]", i)
		pi := uniform(t, l+".name", len(pool))
		name := pool[pi]
		pool = append(pool[:pi], pool[pi+1:]...)
		di := uniform(t, l+".donor", len(sites))
		donor := sites[di]
		if g.chance(l+".inline?", 30) {
			if plan.Maps[donor.Path].Anchor != "" {
				continue
			}
			am := plan.Maps[donor.Path]
			am.Anchor = name
			plan.Maps[donor.Path] = am
			eff[name] = donor.Entries.Map()
			definedAt[name] = di
			names = append(names, name)
			continue
		}
		a := YAMLAnchor{Name: name}
		for _, e := range donor.Entries {
			if g.chance(l+".key?", 65) {
				a.Entries = append(a.Entries, e)
			}
		}
		if len(a.Entries) == 0 {
			a.Entries = KVs{donor.Entries[uniform(t, l+".key", len(donor.Entries))]}
		}
		for j := range a.Entries {
			if g.chance(l+".decoy?", 30) {
				v := pickU(t, l+".decoy", anchorDecoys)
				if v == a.Entries[j].V {
					v += " (old)"
				}
				a.Entries[j].V = v
			}
		}
		var earlier []string
		for _, p := range plan.Locals {
			earlier = append(earlier, p.Name)
		}
		if len(earlier) > 0 && g.chance(l+".merge?", 25) {
			a.Merge = []string{pickU(t, l+".merge", earlier)}
			if len(earlier) > 1 && g.chance(l+".merge2?", 30) {
				if o := pickU(t, l+".merge2", earlier); o != a.Merge[0] {
					a.Merge = append(a.Merge, o)
				}
			}
		}
		e := mergeEffective(a.Merge, eff)
		for _, kv := range a.Entries {
			e[kv.K] = kv.V
		}
		eff[name] = e
		definedAt[name] = -1
		plan.Locals = append(plan.Locals, a)
		names = append(names, name)
	}
	for si, s := range sites {
		l := "yaml_anchor_use:" + s.Path
		sm := s.Entries.Map()
		am := plan.Maps[s.Path]
		var cand []string
		for _, name := range names {
			if name != am.Anchor && definedAt[name] < si && keysWithin(eff[name], sm) && g.chance(l+"."+name+"?", 70) {
				cand = append(cand, name)
			}
		}
		if len(cand) == 0 {
			continue
		}
		for i := len(cand) - 1; i > 0; i-- {
			j := uniform(t, l+".order", i+1)
			cand[i], cand[j] = cand[j], cand[i]
		}
		if len(cand) > 2 {
			cand = cand[:2]
		}
		if len(cand) == 1 && am.Anchor == "" && reflect.DeepEqual(eff[cand[0]], sm) && g.chance(l+".alias?", 40) {
			am.Alias = cand[0]
			plan.Maps[s.Path] = am
			continue
		}
		am.Merge = cand
		merged := mergeEffective(cand, eff)
		for _, e := range s.Entries {
			if v, ok := merged[e.K]; ok && v != e.V {
				continue // must be explicit: the renderer writes it after the `<<`
			}
			if _, ok := merged[e.K]; ok && !g.chance(l+".again?", 25) {
				continue
			}
			if _, ok := merged[e.K]; !ok && !g.chance(l+".first?", 35) {
				continue // the renderer writes it after the `<<`
			}
			if g.chance(l+".before?", 50) {
				am.Before = append(am.Before, e.K)
			} else {
				am.After = append(am.After, e.K)
			}
		}
		plan.Maps[s.Path] = am
	}
	m.Layout.YAMLAnchors = plan
}

func yamlEntryLines(k, v, pad string) string {
	b := marshalYAML(yaml.MapSlice{{Key: k, Value: v}})
	var sb strings.Builder
	for _, l := range strings.SplitAfter(string(b), "\n") {
		if l == "" {
			continue
		}
		if l != "\n" {
			sb.WriteString(pad)
		}
		sb.WriteString(l)
	}
	return sb.String()
}

func mergeLine(names []string, pad string) string {
	if len(names) == 1 {
		return pad + "<<: *" + names[0] + "\n"
	}
	return pad + "<<: [*" + strings.Join(names, ", *") + "]\n"
}

func contains(l []string, s string) bool {
	for _, e := range l {
		if e == s {
			return true
		}
	}
	return false
}

// renderYAMLAnchored writes the description with the plan of Layout.YAMLAnchors. ok = false: the plan was given up
// (st.Anchors says why) and the caller renders without it.
func renderYAMLAnchored(m Model) (text []byte, st YAMLStyleStats, ok bool) {
	plan := m.Layout.YAMLAnchors
	as := &YAMLAnchorStats{}
	giveUp := func(why string) ([]byte, YAMLStyleStats, bool) {
		return nil, YAMLStyleStats{Anchors: &YAMLAnchorStats{Fallback: true, Reason: why}}, false
	}
	base := RenderYAML(m)
	prefix := "zzYA"
	for bytes.Contains(base, []byte(prefix)) {
		prefix += "q"
	}
	// the effective content of the `locals:` block
	eff := map[string]map[string]string{}
	hasMerge := map[string]bool{}
	for _, a := range plan.Locals {
		if _, dup := eff[a.Name]; dup || a.Name == "" || (len(a.Entries) == 0 && len(a.Merge) == 0) {
			return giveUp("bad anchor " + a.Name)
		}
		for _, n := range a.Merge {
			if _, ok := eff[n]; !ok {
				return giveUp("anchor " + a.Name + " merges " + n + ", which is not defined before it")
			}
		}
		e := mergeEffective(a.Merge, eff)
		over := false
		for _, kv := range a.Entries {
			if kv.K == "<<" {
				return giveUp("anchor with a key <<")
			}
			if v, ok := e[kv.K]; ok && v != kv.V {
				over = true
			}
			e[kv.K] = kv.V
		}
		eff[a.Name] = e
		if len(a.Merge) > 0 {
			hasMerge[a.Name] = true
			as.LocalsWithMerge++
			if over {
				as.LocalsOverride++
			}
		}
	}
	// placeholders in the place of the planned maps
	m2 := copyForUserMaps(m)
	m2.Layout.YAMLAnchors = nil
	type site struct {
		path    string
		entries KVs
		plan    YAMLAnchoredMap
		ph      string
		at      int
	}
	var sites []*site
	for _, r := range userMapRefs(&m2) {
		p, planned := plan.Maps[r.path]
		if !planned {
			continue
		}
		e := *r.get()
		if !anchorable(e, r.ok) {
			continue // the map is not what it was when the plan was drawn: written as it is
		}
		s := &site{path: r.path, entries: e, plan: p, ph: prefix + strconv.Itoa(len(sites)) + "zz"}
		r.set(KVs{{K: s.ph, V: s.ph}})
		sites = append(sites, s)
	}
	if len(m.Layout.YAMLStyles) > 0 {
		styles := map[string]ScalarStyle{}
	next:
		for p, v := range m.Layout.YAMLStyles {
			for _, s := range sites {
				if strings.HasPrefix(p, s.path+".") {
					continue next
				}
			}
			styles[p] = v
		}
		m2.Layout.YAMLStyles = styles
	}
	text, st = renderYAMLStyledPlain(m2)
	for _, s := range sites {
		line := []byte(s.ph + ": " + s.ph + "\n")
		s.at = bytes.Index(text, line)
		if s.at < 0 || bytes.Count(text, line) != 1 {
			return giveUp("placeholder of " + s.path + " not found")
		}
	}
	sort.Slice(sites, func(i, j int) bool { return sites[i].at < sites[j].at })
	var out bytes.Buffer
	if len(plan.Locals) > 0 {
		out.WriteString("locals:\n")
		for _, a := range plan.Locals {
			out.WriteString("  " + a.Name + ": &" + a.Name + "\n")
			if len(a.Merge) > 0 {
				out.WriteString(mergeLine(a.Merge, "    "))
			}
			for _, kv := range a.Entries {
				out.WriteString(yamlEntryLines(kv.K, kv.V, "    "))
			}
		}
		as.Locals = map[string]map[string]string{}
		for _, a := range plan.Locals {
			as.Locals[a.Name] = eff[a.Name]
		}
	}
	pos := 0
	for _, s := range sites {
		ls := bytes.LastIndexByte(text[:s.at], '\n') + 1
		pad := string(text[ls:s.at])
		if strings.Trim(pad, " ") != "" || ls < 2 || text[ls-2] != ':' {
			return giveUp("placeholder of " + s.path + " does not stand under its key")
		}
		out.Write(text[pos : ls-1]) // up to and including `key:`
		pos = s.at + len(s.ph)*2 + 3
		sm := s.entries.Map()
		as1 := AnchoredSite{Path: s.path}
		// an alias of the whole map
		if a := s.plan.Alias; a != "" && s.plan.Anchor == "" {
			if e, ok := eff[a]; ok && reflect.DeepEqual(e, sm) {
				out.WriteString(" *" + a + "\n")
				as1.Alias = a
				as.Sites = append(as.Sites, as1)
				continue
			}
		}
		var merge []string
		for _, n := range append(append([]string{}, s.plan.Merge...), s.plan.Alias) {
			if e, ok := eff[n]; ok && n != "" && !contains(merge, n) && keysWithin(e, sm) {
				merge = append(merge, n)
			}
		}
		merged := mergeEffective(merge, eff)
		var before, after []string
		for _, k := range s.plan.Before {
			v, inModel := sm[k]
			if mv, ok := merged[k]; inModel && (!ok || mv == v) && !contains(before, k) {
				before = append(before, k)
			}
		}
		for _, e := range s.entries {
			mv, ok := merged[e.K]
			if contains(before, e.K) {
				continue
			}
			if !ok || mv != e.V || contains(s.plan.After, e.K) {
				after = append(after, e.K)
			}
		}
		if len(merge) == 0 {
			before, after = nil, nil
			for _, e := range s.entries {
				after = append(after, e.K)
			}
		}
		if s.plan.Anchor != "" {
			if _, dup := eff[s.plan.Anchor]; dup {
				return giveUp("anchor " + s.plan.Anchor + " defined twice")
			}
			out.WriteString(" &" + s.plan.Anchor)
			as1.Anchor = s.plan.Anchor
		}
		out.WriteString("\n")
		for _, k := range before {
			out.WriteString(yamlEntryLines(k, sm[k], pad))
		}
		if len(merge) > 0 {
			out.WriteString(mergeLine(merge, pad))
		}
		for _, k := range after {
			out.WriteString(yamlEntryLines(k, sm[k], pad))
		}
		if s.plan.Anchor != "" {
			eff[s.plan.Anchor] = sm
			hasMerge[s.plan.Anchor] = len(merge) > 0
		}
		if len(merge) == 0 && s.plan.Anchor == "" {
			as.Plain = append(as.Plain, s.path)
			continue
		}
		as1.Merge = merge
		as1.BeforeMerge = len(before)
		if len(merge) == 0 {
			as1.BeforeMerge = 0
		}
		for _, k := range append(append([]string{}, before...), after...) {
			as1.Explicit = append(as1.Explicit, k)
			if mv, ok := merged[k]; ok && mv != sm[k] {
				as1.Overrides = append(as1.Overrides, k)
			} else if ok {
				as1.SameAgain = append(as1.SameAgain, k)
			}
		}
		for i, a := range merge {
			as1.Chain = as1.Chain || hasMerge[a]
			for _, b := range merge[i+1:] {
				for k := range eff[a] {
					if _, ok := eff[b][k]; ok {
						as1.ListCommonKey = true
					}
				}
			}
		}
		as.Sites = append(as.Sites, as1)
	}
	out.Write(text[pos:])
	final := out.Bytes()
	if len(as.Sites) == 0 && as.Locals == nil {
		return giveUp("nothing of the plan fits the description")
	}
	// what yaml.v2 reads from the anchored file must be what it reads from the Marshal form (+ the helper block)
	var want, got any
	if err := yaml.Unmarshal(base, &want); err != nil {
		panic("scengen: yaml.v2 cannot read what it marshalled: " + err.Error())
	}
	if err := yaml.Unmarshal(final, &got); err != nil {
		return giveUp("yaml.v2 cannot read the anchored file: " + err.Error())
	}
	gm, isMap := got.(map[interface{}]interface{})
	if !isMap {
		return giveUp("the anchored file is not a mapping")
	}
	if as.Locals != nil {
		wl := map[interface{}]interface{}{}
		for n, e := range as.Locals {
			em := map[interface{}]interface{}{}
			for k, v := range e {
				em[k] = v
			}
			wl[n] = em
		}
		if !reflect.DeepEqual(gm["locals"], interface{}(wl)) {
			return giveUp("yaml.v2 reads the locals block differently")
		}
		delete(gm, "locals")
	}
	if !reflect.DeepEqual(got, want) {
		return giveUp("yaml.v2 reads the anchored file differently")
	}
	st.Anchors = as
	return final, st, true
}
