package scengen

import (
	"bytes"

	"gopkg.in/yaml.v2"
)

func yKVs(k KVs) yaml.MapSlice {
	out := yaml.MapSlice{}
	for _, e := range k {
		out = append(out, yaml.MapItem{Key: e.K, Value: e.V})
	}
	return out
}

func yStrs(l []string) []string {
	if l == nil {
		return []string{}
	}
	return l
}

func ySource(s Source) yaml.MapSlice {
	// `type` first, as in the documentation's YAML examples
	out := yaml.MapSlice{{Key: "type", Value: s.Type}, {Key: "name", Value: s.Name}}
	if s.IgnoreFirstLine != nil {
		out = append(out, yaml.MapItem{Key: "ignore_first_line", Value: *s.IgnoreFirstLine})
	}
	if s.Delimiter != nil {
		out = append(out, yaml.MapItem{Key: "delimiter", Value: *s.Delimiter})
	}
	if s.File != nil {
		out = append(out, yaml.MapItem{Key: "file", Value: *s.File})
	}
	if s.Fields != nil {
		out = append(out, yaml.MapItem{Key: "fields", Value: yStrs(*s.Fields)})
	}
	if s.Variables != nil {
		vars := yaml.MapSlice{}
		for _, e := range *s.Variables {
			vars = append(vars, yaml.MapItem{Key: e.K, Value: s.TypedValue(e)})
		}
		out = append(out, yaml.MapItem{Key: "variables", Value: vars})
	}
	return out
}

func yPost(p Postprocessor) yaml.MapSlice {
	out := yaml.MapSlice{{Key: "type", Value: p.Type}}
	if p.Mapping != nil {
		out = append(out, yaml.MapItem{Key: "mapping", Value: yKVs(*p.Mapping)})
	}
	if p.Headers != nil {
		out = append(out, yaml.MapItem{Key: "headers", Value: yKVs(*p.Headers)})
	}
	if p.Body != nil {
		out = append(out, yaml.MapItem{Key: "body", Value: yStrs(*p.Body)})
	}
	if p.StatusCode != nil {
		out = append(out, yaml.MapItem{Key: "status_code", Value: *p.StatusCode})
	}
	if p.Size != nil {
		sz := yaml.MapSlice{}
		if p.Size.Val != nil {
			sz = append(sz, yaml.MapItem{Key: "val", Value: *p.Size.Val})
		}
		sz = append(sz, yaml.MapItem{Key: "op", Value: p.Size.Op})
		out = append(out, yaml.MapItem{Key: "size", Value: sz})
	}
	return out
}

func yRequest(r Request) yaml.MapSlice {
	out := yaml.MapSlice{{Key: "name", Value: r.Name}, {Key: "uri", Value: r.URI}, {Key: "method", Value: r.Method}}
	if r.Headers != nil {
		out = append(out, yaml.MapItem{Key: "headers", Value: yKVs(*r.Headers)})
	}
	if r.Tag != nil {
		out = append(out, yaml.MapItem{Key: "tag", Value: *r.Tag})
	}
	if r.Body != nil {
		out = append(out, yaml.MapItem{Key: "body", Value: *r.Body})
	}
	if r.Preprocessor != nil {
		out = append(out, yaml.MapItem{Key: "preprocessor", Value: yaml.MapSlice{{Key: "mapping", Value: yKVs(r.Preprocessor.Mapping)}}})
	}
	if r.Templater != nil {
		out = append(out, yaml.MapItem{Key: "templater", Value: yaml.MapSlice{{Key: "type", Value: *r.Templater}}})
	}
	if len(r.Postprocessors) > 0 {
		var ps []yaml.MapSlice
		for _, p := range r.Postprocessors {
			ps = append(ps, yPost(p))
		}
		out = append(out, yaml.MapItem{Key: "postprocessors", Value: ps})
	}
	return out
}

func yCall(c Call) yaml.MapSlice {
	out := yaml.MapSlice{{Key: "name", Value: c.Name}, {Key: "call", Value: c.Call}}
	if c.Tag != nil {
		out = append(out, yaml.MapItem{Key: "tag", Value: *c.Tag})
	}
	if c.Metadata != nil {
		out = append(out, yaml.MapItem{Key: "metadata", Value: yKVs(*c.Metadata)})
	}
	if len(c.Preprocessors) > 0 {
		var ps []yaml.MapSlice
		for _, p := range c.Preprocessors {
			ps = append(ps, yaml.MapSlice{{Key: "type", Value: p.Type}, {Key: "mapping", Value: yKVs(p.Mapping)}})
		}
		out = append(out, yaml.MapItem{Key: "preprocessors", Value: ps})
	}
	out = append(out, yaml.MapItem{Key: "payload", Value: c.Payload})
	if len(c.Postprocessors) > 0 {
		var ps []yaml.MapSlice
		for _, p := range c.Postprocessors {
			e := yaml.MapSlice{{Key: "type", Value: p.Type}}
			if p.Payload != nil {
				e = append(e, yaml.MapItem{Key: "payload", Value: yStrs(*p.Payload)})
			}
			if p.StatusCode != nil {
				e = append(e, yaml.MapItem{Key: "status_code", Value: *p.StatusCode})
			}
			ps = append(ps, e)
		}
		out = append(out, yaml.MapItem{Key: "postprocessors", Value: ps})
	}
	return out
}

func yScenario(s Scenario) yaml.MapSlice {
	out := yaml.MapSlice{{Key: "name", Value: s.Name}}
	if s.Weight != nil {
		out = append(out, yaml.MapItem{Key: "weight", Value: *s.Weight})
	}
	if s.MinWaitingTime != nil {
		out = append(out, yaml.MapItem{Key: "min_waiting_time", Value: *s.MinWaitingTime})
	}
	out = append(out, yaml.MapItem{Key: "requests", Value: yStrs(s.StepStrings())})
	return out
}

// YAMLDoc is the ordered document RenderYAML marshals: the keys of every mapping in the order of the
// documentation's examples, then re-ordered as Layout.YAMLOrder says (yamlorder.go).
func YAMLDoc(m Model) yaml.MapSlice {
	doc := yamlDocDefault(m)
	if len(m.Layout.YAMLOrder) == 0 {
		return doc
	}
	return orderDoc(doc, "", m.Layout.YAMLOrder).(yaml.MapSlice)
}

func yamlDocDefault(m Model) yaml.MapSlice {
	doc := yaml.MapSlice{}
	if len(m.Sources) > 0 || m.Layout.YAMLEmptySections {
		l := []yaml.MapSlice{}
		for _, s := range m.Sources {
			l = append(l, ySource(s))
		}
		doc = append(doc, yaml.MapItem{Key: "variable_sources", Value: l})
	}
	if len(m.Requests) > 0 || m.Layout.YAMLEmptySections {
		l := []yaml.MapSlice{}
		for _, r := range m.Requests {
			l = append(l, yRequest(r))
		}
		doc = append(doc, yaml.MapItem{Key: "requests", Value: l})
	}
	if len(m.Calls) > 0 || m.Layout.YAMLEmptySections {
		l := []yaml.MapSlice{}
		for _, c := range m.Calls {
			l = append(l, yCall(c))
		}
		doc = append(doc, yaml.MapItem{Key: "calls", Value: l})
	}
	if len(m.Scenarios) == 0 && m.Layout.YAMLNoScenariosKey {
		return doc // a description without scenarios, written without the key
	}
	l := []yaml.MapSlice{}
	for _, s := range m.Scenarios {
		l = append(l, yScenario(s))
	}
	doc = append(doc, yaml.MapItem{Key: "scenarios", Value: l})
	return doc
}

// RenderYAML writes the description in the YAML syntax. Locals and Exprs are
// HCL-only and do not appear: every attribute shows its plain value.
func RenderYAML(m Model) []byte {
	doc := YAMLDoc(m)
	if n := renameKey(doc, "<<", "<<"); n > 0 {
		// yaml.v2 emits the map key `<<` unquoted (it would read back as a
		// merge key): marshal an alias and write the quoted key in its place.
		for alias := "zzMERGEKEYzz"; ; alias += "z" {
			doc = YAMLDoc(m)
			renameKey(doc, "<<", alias)
			b := marshalYAML(doc)
			if bytes.Count(b, []byte(alias)) != n {
				continue // the alias occurs in a string of the description: take another one
			}
			return bytes.ReplaceAll(b, []byte(alias), []byte(`"<<"`))
		}
	}
	return marshalYAML(doc)
}

// renameKey renames the map key from to to everywhere in v (in place) and returns the number of such keys.
func renameKey(v any, from, to string) int {
	n := 0
	switch x := v.(type) {
	case yaml.MapSlice:
		for i := range x {
			if k, ok := x[i].Key.(string); ok && k == from {
				x[i].Key = to
				n++
			}
			n += renameKey(x[i].Value, from, to)
		}
	case []yaml.MapSlice:
		for _, e := range x {
			n += renameKey(e, from, to)
		}
	}
	return n
}

func marshalYAML(doc yaml.MapSlice) []byte {
	b, err := yaml.Marshal(doc)
	if err != nil {
		panic("scengen: yaml.Marshal: " + err.Error())
	}
	return b
}
