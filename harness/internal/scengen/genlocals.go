package scengen

import (
	"fmt"
	"sort"
	"strings"

	"pgregory.net/rapid"
)

// lgen draws typed expressions over the locals that are visible at the point
// of use. Every expression is evaluated with Eval as it is built, so that the
// arguments satisfy the documented preconditions of the functions (non-empty
// list for element, bounds for slice, equal lengths for zipmap, item present
// for index, ...).
type lgen struct {
	sgen
	visible Env
	types   map[string]string // visible local -> "s" | "l" | "m" | "n"
}

func (g *lgen) localsOf(typ string) []string {
	var out []string
	for n, t := range g.types {
		if t == typ {
			out = append(out, n)
		}
	}
	sort.Strings(out)
	return out
}

func (g *lgen) ev(e Expr) (any, bool) {
	v, err := Eval(e, g.visible)
	return v, err == nil
}

var poolLocalStrings = []string{"next", "application/json", "Yandex", "Bearer {{.request.auth_req.postprocessor.token}}", "a,b,c", "x=1;y=2", "/list", "", "token", "k"}

func (g *lgen) freeStr(l string) string { return g.free(l, poolLocalStrings) }

func (g *lgen) pick(l string, d int, n int) int {
	if d <= 0 {
		return uniform(g.t, l, 2)
	}
	return uniform(g.t, l, n)
}

// str draws a string-valued expression.
func (g *lgen) str(l string, d int) Expr {
	refs := g.localsOf("s")
	switch g.pick(l+"/s", d, 7) {
	case 0:
		return lit(g.freeStr(l + "/lit"))
	case 1:
		if len(refs) > 0 {
			return ref(rapid.SampledFrom(refs).Draw(g.t, l+"/ref"))
		}
		return lit(g.freeStr(l + "/lit"))
	case 2, 3:
		return g.template(l, d)
	case 4:
		le := g.list(l+"/el", d-1)
		v, ok := g.ev(le)
		if lv, _ := v.([]any); ok && len(lv) > 0 {
			return call("element", le, num(rapid.IntRange(0, 2*len(lv)).Draw(g.t, l+"/el#i")))
		}
		return lit(g.freeStr(l + "/lit"))
	case 5:
		me := g.mp(l+"/lk", d-1)
		v, ok := g.ev(me)
		mv, _ := v.(map[string]any)
		if !ok {
			return lit(g.freeStr(l + "/lit"))
		}
		key := g.freeStr(l + "/lk.key")
		if ks := sortedKeys(mv); len(ks) > 0 && g.chance(l+"/lk.present", 70) {
			key = rapid.SampledFrom(ks).Draw(g.t, l+"/lk.k")
		}
		return call("lookup", me, lit(key), lit(g.freeStr(l+"/lk.def")))
	default:
		// coalesce: the documentation the page links to skips null and empty
		// strings, the function as shipped skips null only: every string
		// argument is non-empty, so both readings agree.
		var args []Expr
		n := rapid.IntRange(1, 3).Draw(g.t, l+"/co#n")
		has := false
		for i := 0; i < n; i++ {
			if g.chance(l+"/co.null", 35) {
				args = append(args, Expr{K: "null"})
				continue
			}
			a := g.str(l+"/co.arg", d-1)
			if v, ok := g.ev(a); !ok || v == "" {
				a = lit("fallback")
			}
			args = append(args, a)
			has = true
		}
		if !has {
			args = append(args, lit("fallback"))
		}
		return call("coalesce", args...)
	}
}

// template draws a quoted template with at least one interpolation.
func (g *lgen) template(l string, d int) Expr {
	n := rapid.IntRange(1, 4).Draw(g.t, l+"/t#n")
	var parts []Expr
	interp, literal := false, false
	for i := 0; i < n; i++ {
		switch k := uniform(g.t, l+"/t.kind", 10); {
		case k < 4:
			s := g.freeStr(l + "/t.lit")
			if s != "" {
				literal = true
			}
			parts = append(parts, lit(s))
		case k < 9:
			parts = append(parts, g.str(l+"/t.s", d-1))
			interp = true
		default:
			parts = append(parts, g.num(l+"/t.n", d-1))
			interp = true
		}
	}
	if !interp {
		parts = append(parts, g.str(l+"/t.s+", d-1))
	}
	// a template that is one interpolation yields the value itself, not a
	// string: keep number interpolations next to literal text
	for _, p := range parts {
		if (p.K == "n" || (p.K == "f" && p.S == "index")) && !literal {
			parts = append([]Expr{lit("#")}, parts...)
			break
		}
	}
	// `$${` / `%%{` are escapes: a literal part that ends in `$` or `%` cannot
	// be followed by an interpolation
	for i := 0; i+1 < len(parts); i++ {
		if parts[i].K == "s" && parts[i+1].K != "s" && (strings.HasSuffix(parts[i].S, "$") || strings.HasSuffix(parts[i].S, "%")) {
			parts[i].S += "."
		}
	}
	// merge adjacent literals (the renderer writes them as one)
	var merged []Expr
	for _, p := range parts {
		if p.K == "s" && len(merged) > 0 && merged[len(merged)-1].K == "s" {
			merged[len(merged)-1].S += p.S
			continue
		}
		merged = append(merged, p)
	}
	for i := 0; i+1 < len(merged); i++ {
		if merged[i].K == "s" && (strings.HasSuffix(merged[i].S, "$") || strings.HasSuffix(merged[i].S, "%")) {
			merged[i].S += "."
		}
	}
	return Expr{K: "t", A: merged}
}

// num draws a number-valued expression (a small literal or index()).
func (g *lgen) num(l string, d int) Expr {
	if d > 0 && g.chance(l+"/n.index", 60) {
		le := g.list(l+"/ix", d-1)
		v, ok := g.ev(le)
		if lv, _ := v.([]any); ok && len(lv) > 0 {
			i := rapid.IntRange(0, len(lv)-1).Draw(g.t, l+"/ix#i")
			if s, isStr := lv[i].(string); isStr {
				return call("index", le, lit(s))
			}
		}
	}
	return num(rapid.IntRange(0, 3).Draw(g.t, l+"/n"))
}

func (g *lgen) litList(l string, d int, min, max int) Expr {
	n := rapid.IntRange(min, max).Draw(g.t, l+"#n")
	e := Expr{K: "l", L: []Expr{}}
	for i := 0; i < n; i++ {
		e.L = append(e.L, g.str(l+"/item", d-1))
	}
	return e
}

var poolSeparators = []string{",", " ", "/", ";", "=", "--", "é", "\n", "{{", "\""}

// list draws an expression whose value is a list of strings.
func (g *lgen) list(l string, d int) Expr {
	refs := g.localsOf("l")
	switch g.pick(l+"/l", d, 14) {
	case 0:
		return g.litList(l+"/lit", d, 0, 3)
	case 1:
		if len(refs) > 0 {
			return ref(rapid.SampledFrom(refs).Draw(g.t, l+"/ref"))
		}
		return g.litList(l+"/lit", d, 0, 3)
	case 2:
		args := []Expr{g.list(l+"/cc0", d-1), g.list(l+"/cc1", d-1)}
		if g.chance(l+"/cc3", 30) {
			args = append(args, g.list(l+"/cc2", d-1))
		}
		return call("concat", args...)
	case 3:
		return call("reverse", g.list(l+"/rev", d-1))
	case 4:
		return call("sort", g.list(l+"/sort", d-1))
	case 5:
		a := g.list(l+"/dist", d-1)
		if g.chance(l+"/dist.dup", 60) {
			b := a
			if g.chance(l+"/dist.rev", 50) {
				b = call("reverse", a)
			}
			a = call("concat", a, b)
		}
		return call("distinct", a)
	case 6:
		a := g.list(l+"/comp", d-1)
		if g.chance(l+"/comp.empty", 60) {
			a = call("concat", listLit([]string{""}), a, listLit([]string{"", ""}))
		}
		return call("compact", a)
	case 7:
		inner := Expr{K: "l", L: []Expr{g.str(l+"/fl.s1", d-1), {K: "l", L: []Expr{g.str(l+"/fl.s2", d-1)}}}}
		outer := Expr{K: "l", L: []Expr{g.list(l+"/fl.l", d-1), inner}}
		if g.chance(l+"/fl.more", 50) {
			outer.L = append(outer.L, g.str(l+"/fl.s3", d-1), Expr{K: "l", L: []Expr{}})
		}
		return call("flatten", outer)
	case 8:
		return call("keys", g.mp(l+"/keys", d-1))
	case 9:
		return call("values", g.mp(l+"/values", d-1))
	case 10:
		a := g.list(l+"/sl", d-1)
		v, ok := g.ev(a)
		lv, _ := v.([]any)
		if !ok {
			return g.litList(l+"/lit", d, 0, 3)
		}
		from := rapid.IntRange(0, len(lv)).Draw(g.t, l+"/sl.from")
		to := rapid.IntRange(from, len(lv)).Draw(g.t, l+"/sl.to")
		return call("slice", a, num(from), num(to))
	case 11, 12:
		sep := rapid.SampledFrom(poolSeparators).Draw(g.t, l+"/sp.sep")
		return call("split", lit(sep), g.str(l+"/sp.s", d-1))
	default:
		var args []Expr
		for i, n := 0, rapid.IntRange(0, 2).Draw(g.t, l+"/cl#empty"); i < n; i++ {
			args = append(args, Expr{K: "l", L: []Expr{}})
		}
		a := g.list(l+"/cl.a", d-1)
		if v, ok := g.ev(a); !ok || len(v.([]any)) == 0 {
			a = listLit([]string{g.freeStr(l + "/cl.lit")})
		}
		args = append(args, a)
		if g.chance(l+"/cl.more", 40) {
			args = append(args, g.list(l+"/cl.b", d-1))
		}
		return call("coalescelist", args...)
	}
}

var poolLocalKeys = []string{"Content-Type", "Useragent", "Authorization", "item_id", "token", "a", "b", "k"}

func (g *lgen) litMap(l string, d int, max int) Expr {
	n := rapid.IntRange(0, max).Draw(g.t, l+"#n")
	e := Expr{K: "m", M: []ExprKV{}}
	used := map[string]bool{}
	for i := 0; i < n; i++ {
		k := g.free(l+"/key", poolLocalKeys)
		if used[k] {
			continue
		}
		used[k] = true
		e.M = append(e.M, ExprKV{K: k, V: g.str(l+"/val", d-1)})
	}
	return e
}

// mp draws an expression whose value is a map of strings.
func (g *lgen) mp(l string, d int) Expr {
	refs := g.localsOf("m")
	switch g.pick(l+"/m", d, 6) {
	case 0:
		return g.litMap(l+"/lit", d, 3)
	case 1:
		if len(refs) > 0 {
			return ref(rapid.SampledFrom(refs).Draw(g.t, l+"/ref"))
		}
		return g.litMap(l+"/lit", d, 3)
	case 2, 3:
		args := []Expr{g.mp(l+"/mg0", d-1), g.mp(l+"/mg1", d-1)}
		if g.chance(l+"/mg3", 30) {
			args = append(args, g.mp(l+"/mg2", d-1))
		}
		return call("merge", args...)
	default:
		ke := g.list(l+"/zk", d-1)
		v, ok := g.ev(ke)
		lv, _ := v.([]any)
		if !ok {
			return g.litMap(l+"/lit", d, 3)
		}
		ve := Expr{K: "l", L: []Expr{}}
		for range lv {
			ve.L = append(ve.L, g.str(l+"/zv", d-1))
		}
		return call("zipmap", ke, ve)
	}
}

func (g *lgen) typed(l, typ string, d int) Expr {
	switch typ {
	case "l":
		return g.list(l, d)
	case "m":
		return g.mp(l, d)
	case "n":
		return g.num(l, d)
	}
	return g.str(l, d)
}

var poolLocalNames = []string{"common_headers", "auth_headers", "next", "common_meta", "auth_meta", "base", "items", "sep", "token", "names", "extra", "idx"}

// cleanString reports whether v may appear in both files unchanged.
func cleanString(v string) bool { return Sanitize(v) == v }

func cleanValue(v any) bool {
	switch x := v.(type) {
	case string:
		return cleanString(x)
	case []any:
		for _, e := range x {
			if !cleanValue(e) {
				return false
			}
		}
		return true
	case map[string]any:
		for k, e := range x {
			if !cleanString(k) || !cleanValue(e) {
				return false
			}
		}
		return true
	}
	return true
}

// hasRef reports whether e refers to a local.
func (e Expr) hasRef() bool { return e.Kinds()["ref"] }

// AddLocals adds 0-3 `locals` blocks to m and rewrites part of the attributes
// as HCL-only expressions (m.Exprs). The plain value of every rewritten
// attribute is replaced by what Eval computes for its expression, so the YAML
// rendering shows the evaluated description. Scenario `requests` lists keep
// their value: they are wrapped by value-preserving constructions.
func AddLocals(t *rapid.T, m *Model, o Opts) {
	g := &lgen{sgen: sgen{t: t, opts: o}, visible: Env{}, types: map[string]string{}}
	m.Exprs = map[string]Expr{}
	nb := 1 + uniform(t, "locals#blocks", 3)
	if g.chance("locals?none", 18) {
		// no `locals` block at all: the HCL-only functions are still there for every attribute
		nb = 0
	}
	decl := map[string]Expr{} // first declaration of each local
	for b := 0; b < nb; b++ {
		bl := fmt.Sprintf("locals[%d]", b)
		blk := LocalsBlock{}
		inBlock := map[string]bool{}
		next := Env{}
		nextTypes := map[string]string{}
		n := rapid.IntRange(1, 4).Draw(t, bl+"#n")
		for i := 0; i < n; i++ {
			ll := fmt.Sprintf("%s.local[%d]", bl, i)
			// re-declaration of an earlier local with the same value (as `next`
			// in the documentation's example)
			if vis := g.localsOf("s"); b > 0 && len(g.types) > 0 && g.chance(ll+"?redeclare", 25) {
				all := append(append(append(vis, g.localsOf("l")...), g.localsOf("m")...), g.localsOf("n")...)
				sort.Strings(all)
				name := rapid.SampledFrom(all).Draw(t, ll+".redeclared")
				if !inBlock[name] {
					e := decl[name]
					if g.chance(ll+".redeclare.byref", 40) {
						e = ref(name)
					}
					if v, ok := g.ev(e); ok && sameValue(v, g.visible[name]) {
						inBlock[name] = true
						blk.Locals = append(blk.Locals, Local{Name: name, Expr: e})
						continue
					}
				}
			}
			// a later block gives an earlier local a new value, possibly built from the old one
			// (`headers = merge(local.headers, {...})`): blocks are evaluated in order, the later value wins
			if b > 0 && len(g.types) > 0 && g.chance(ll+"?override", 20) {
				var all []string
				for nm := range g.types {
					all = append(all, nm)
				}
				sort.Strings(all)
				name := rapid.SampledFrom(all).Draw(t, ll+".overridden")
				if !inBlock[name] {
					typ := g.types[name]
					e := g.typed(ll+".override", typ, 2)
					if g.chance(ll+".override.extends", 50) {
						switch typ {
						case "m":
							e = Expr{K: "f", S: "merge", A: []Expr{ref(name), e}}
						case "l":
							e = Expr{K: "f", S: "concat", A: []Expr{ref(name), e}}
						}
					}
					if v, ok := g.ev(e); ok && !sameValue(v, g.visible[name]) {
						inBlock[name] = true
						next[name] = v
						nextTypes[name] = typ
						blk.Locals = append(blk.Locals, Local{Name: name, Expr: e, Override: true})
						continue
					}
				}
			}
			var name string
			if g.chance(ll+".name?pool", 60) {
				name = rapid.SampledFrom(poolLocalNames).Draw(t, ll+".name")
			} else {
				name = g.ident(ll + ".name")
			}
			if hclKeywords[name] {
				name += "_"
			}
			for j := 2; inBlock[name] || g.types[name] != ""; j++ {
				name = fmt.Sprintf("%s_%d", strings.TrimRight(name, "0123456789_"), j)
			}
			typ := pickU(t, ll+".type", []string{"s", "s", "s", "l", "l", "l", "m", "m", "m", "n"})
			e := g.typed(ll, typ, 2)
			v, ok := g.ev(e)
			if !ok {
				e, v = lit("x"), "x"
				typ = "s"
			}
			inBlock[name] = true
			decl[name] = e
			next[name] = v
			nextTypes[name] = typ
			blk.Locals = append(blk.Locals, Local{Name: name, Expr: e})
		}
		m.Locals = append(m.Locals, blk)
		for k, v := range next {
			g.visible[k] = v
			g.types[k] = nextTypes[k]
		}
	}

	const pct = 40
	strAttr := func(path string, p *string) {
		if p == nil || !g.chance(path+"?expr", pct) {
			return
		}
		e := g.str(path, 2)
		if g.chance(path+"?seed", 30) {
			// keep the written value as a part of the template
			seed := *p
			if strings.HasSuffix(seed, "$") || strings.HasSuffix(seed, "%") {
				seed += "."
			}
			e = Expr{K: "t", A: []Expr{lit(seed), g.str(path+"/seed", 1)}}
		}
		v, ok := g.ev(e)
		s, isStr := v.(string)
		if !ok || !isStr || !cleanString(s) {
			return
		}
		*p = s
		m.Exprs[path] = e
	}
	listAttr := func(path string, p *[]string) {
		if p == nil || !g.chance(path+"?expr", pct) {
			return
		}
		e := g.list(path, 2)
		if g.chance(path+"?seed", 30) {
			e = call("concat", listLit(*p), e)
		}
		v, ok := g.ev(e)
		l, isList := ValueStrings(v)
		if !ok || !isList || !cleanValue(v) {
			return
		}
		*p = l
		m.Exprs[path] = e
	}
	mapAttr := func(path string, p *KVs) {
		if p == nil || !g.chance(path+"?expr", pct) {
			return
		}
		e := g.mp(path, 2)
		if g.chance(path+"?seed", 40) {
			// the documentation's example: merge(local.common_headers, {...})
			e = call("merge", e, mapLit(*p))
		}
		v, ok := g.ev(e)
		kv, isMap := ValueKVs(v)
		if !ok || !isMap || !cleanValue(v) {
			return
		}
		*p = kv
		m.Exprs[path] = e
	}

	for i := range m.Sources {
		s := &m.Sources[i]
		p := fmt.Sprintf("sources[%d].", i)
		listAttr(p+"fields", s.Fields)
		if s.Variables != nil && len(s.TypedKeys) == 0 {
			mapAttr(p+"variables", s.Variables)
			s.RandKeys = nil
			for _, e := range *s.Variables {
				if IsRandFuncValue(e.V) {
					s.RandKeys = append(s.RandKeys, e.K)
				}
			}
		}
	}
	for i := range m.Requests {
		q := &m.Requests[i]
		p := fmt.Sprintf("requests[%d].", i)
		strAttr(p+"method", &q.Method)
		strAttr(p+"uri", &q.URI)
		mapAttr(p+"headers", q.Headers)
		strAttr(p+"tag", q.Tag)
		strAttr(p+"body", q.Body)
		if q.Preprocessor != nil {
			mapAttr(p+"preprocessor.mapping", &q.Preprocessor.Mapping)
		}
		for j := range q.Postprocessors {
			pp := &q.Postprocessors[j]
			pj := fmt.Sprintf("%spostprocessors[%d].", p, j)
			mapAttr(pj+"mapping", pp.Mapping)
			mapAttr(pj+"headers", pp.Headers)
			listAttr(pj+"body", pp.Body)
		}
	}
	for i := range m.Calls {
		c := &m.Calls[i]
		p := fmt.Sprintf("calls[%d].", i)
		strAttr(p+"call", &c.Call)
		strAttr(p+"tag", c.Tag)
		mapAttr(p+"metadata", c.Metadata)
		strAttr(p+"payload", &c.Payload)
		for j := range c.Preprocessors {
			mapAttr(fmt.Sprintf("%spreprocessors[%d].mapping", p, j), &c.Preprocessors[j].Mapping)
		}
		for j := range c.Postprocessors {
			listAttr(fmt.Sprintf("%spostprocessors[%d].payload", p, j), c.Postprocessors[j].Payload)
		}
	}
	for i := range m.Scenarios {
		path := fmt.Sprintf("scenarios[%d].requests", i)
		if !g.chance(path+"?expr", 60) {
			continue
		}
		steps := m.Scenarios[i].StepStrings()
		e, ok := g.wrapList(path, steps, m)
		if !ok {
			continue
		}
		v, evOK := g.ev(e)
		got, isList := ValueStrings(v)
		if !evOK || !isList || strings.Join(got, "\x00") != strings.Join(steps, "\x00") || len(got) != len(steps) {
			continue
		}
		m.Exprs[path] = e
	}
}

// wrapList writes the list l as an expression with the same value.
func (g *lgen) wrapList(path string, l []string, m *Model) (Expr, bool) {
	k := rapid.IntRange(0, len(l)).Draw(g.t, path+"/cut")
	has := func(s string) bool {
		for _, e := range l {
			if strings.Contains(e, s) {
				return true
			}
		}
		return false
	}
	dups := false
	seen := map[string]bool{}
	for _, e := range l {
		if seen[e] {
			dups = true
		}
		seen[e] = true
	}
	switch uniform(g.t, path+"/wrap", 10) {
	case 0:
		return call("concat", listLit(l[:k]), listLit(l[k:])), true
	case 1:
		r := make([]string, len(l))
		for i, e := range l {
			r[len(l)-1-i] = e
		}
		return call("reverse", listLit(r)), true
	case 2:
		ext := append(append([]string{}, l...), "sleep(1)", "no_such_step")
		return call("slice", listLit(ext), num(0), num(len(l))), true
	case 3:
		return call("flatten", Expr{K: "l", L: []Expr{listLit(l[:k]), {K: "l", L: []Expr{listLit(l[k:])}}}}), true
	case 4:
		ext := append(append(append([]string{""}, l[:k]...), "", ""), l[k:]...)
		return call("compact", listLit(ext)), true
	case 5:
		if dups || len(l) == 0 {
			return Expr{}, false
		}
		ext := append(append([]string{}, l...), l[k%len(l)], l[0])
		return call("distinct", listLit(ext)), true
	case 6:
		return call("coalescelist", Expr{K: "l", L: []Expr{}}, listLit(l), listLit([]string{"no_such_step"})), true
	case 7:
		keys := make([]string, len(l))
		for i := range l {
			keys[i] = fmt.Sprintf("k%02d", i)
		}
		// zipmap in any argument order of the pairs: values() returns them in key order
		rk, rl := make([]string, len(l)), make([]string, len(l))
		for i := range l {
			rk[len(l)-1-i], rl[len(l)-1-i] = keys[i], l[i]
		}
		return call("values", call("zipmap", listLit(rk), listLit(rl))), true
	case 8:
		for _, sep := range []string{"|", ";", "~~", " / "} {
			if !has(sep) && len(l) > 0 {
				return call("split", lit(sep), lit(strings.Join(l, sep))), true
			}
		}
		return Expr{}, false
	default:
		// a local declared in the first block holds the list
		if len(m.Locals) == 0 {
			return Expr{}, false
		}
		name := fmt.Sprintf("steps_%d", len(m.Locals[0].Locals))
		if g.types[name] != "" {
			return Expr{}, false
		}
		vals := make([]any, len(l))
		for i, e := range l {
			vals[i] = e
		}
		m.Locals[0].Locals = append(m.Locals[0].Locals, Local{Name: name, Expr: listLit(l)})
		g.visible[name] = vals
		g.types[name] = "l"
		return ref(name), true
	}
}
