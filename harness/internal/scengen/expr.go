package scengen

import (
	"fmt"
	"sort"
	"strings"

	"golang.org/x/text/unicode/norm"
)

// Expr is an HCL expression over strings, numbers, lists and maps: the subset
// used by the `locals` variant. Values are plain Go data: string, int,
// nil (null), []any and map[string]any.
//
//	K = "s"    string literal S
//	K = "n"    number literal N
//	K = "null" the null keyword
//	K = "l"    tuple constructor [L...]
//	K = "m"    object constructor {M[i].K = M[i].V ...}
//	K = "ref"  local.<S>
//	K = "f"    function call S(A...)
//	K = "t"    quoted template: the concatenation of A (string literals are
//	           written verbatim, everything else as ${...})
type Expr struct {
	K string   `json:"k"`
	S string   `json:"s,omitempty"`
	N int      `json:"n,omitempty"`
	L []Expr   `json:"l,omitempty"`
	M []ExprKV `json:"m,omitempty"`
	A []Expr   `json:"a,omitempty"`
}

// ExprKV is one attribute of an object constructor.
type ExprKV struct {
	K string `json:"k"`
	V Expr   `json:"v"`
}

// Local is one attribute of a locals block.
type Local struct {
	Name string `json:"name"`
	Expr Expr   `json:"expr"`
	// Override: re-declares a local of an earlier block with a DIFFERENT value (blocks are evaluated in order:
	// from the next block on, and in every attribute, the name means the later value)
	Override bool `json:"override,omitempty"`
}

// LocalsBlock is one `locals {}` block. Its expressions see the locals of the
// blocks before it, not each other.
type LocalsBlock struct {
	Locals []Local `json:"locals"`
}

// Functions is the list of HCL functions documented in
// docs/eng/scenario/functions.md ("HCL functions").
var Functions = []string{"coalesce", "coalescelist", "compact", "concat", "distinct", "element", "flatten",
	"index", "keys", "lookup", "merge", "reverse", "slice", "sort", "split", "values", "zipmap"}

func lit(s string) Expr             { return Expr{K: "s", S: s} }
func num(n int) Expr                { return Expr{K: "n", N: n} }
func ref(name string) Expr          { return Expr{K: "ref", S: name} }
func call(f string, a ...Expr) Expr { return Expr{K: "f", S: f, A: a} }
func listLit(l []string) Expr {
	e := Expr{K: "l", L: []Expr{}}
	for _, s := range l {
		e.L = append(e.L, lit(s))
	}
	return e
}
func mapLit(k KVs) Expr {
	e := Expr{K: "m", M: []ExprKV{}}
	for _, kv := range k {
		e.M = append(e.M, ExprKV{K: kv.K, V: lit(kv.V)})
	}
	return e
}

// Funcs returns the function names used in e (with repetitions).
func (e Expr) Funcs() []string {
	var out []string
	var walk func(Expr)
	walk = func(x Expr) {
		if x.K == "f" {
			out = append(out, x.S)
		}
		for _, c := range x.L {
			walk(c)
		}
		for _, c := range x.M {
			walk(c.V)
		}
		for _, c := range x.A {
			walk(c)
		}
	}
	walk(e)
	return out
}

// Kinds returns the set of node kinds used in e.
func (e Expr) Kinds() map[string]bool {
	out := map[string]bool{}
	var walk func(Expr)
	walk = func(x Expr) {
		out[x.K] = true
		for _, c := range x.L {
			walk(c)
		}
		for _, c := range x.M {
			walk(c.V)
		}
		for _, c := range x.A {
			walk(c)
		}
	}
	walk(e)
	return out
}

// Env maps local names to values.
type Env map[string]any

// EvalLocals evaluates the blocks in order the way the documentation
// describes (`locals` as in Terraform; a later block may refer to an earlier
// one) and returns the final environment.
func EvalLocals(blocks []LocalsBlock) (Env, error) {
	env := Env{}
	for bi, b := range blocks {
		next := Env{}
		for _, l := range b.Locals {
			v, err := Eval(l.Expr, env)
			if err != nil {
				return nil, fmt.Errorf("locals block %d, %s: %w", bi, l.Name, err)
			}
			next[l.Name] = v
		}
		merged := Env{}
		for k, v := range env {
			merged[k] = v
		}
		for k, v := range next {
			merged[k] = v
		}
		env = merged
	}
	return env, nil
}

func asList(v any, what string) ([]any, error) {
	l, ok := v.([]any)
	if !ok {
		return nil, fmt.Errorf("%s: list expected, got %T", what, v)
	}
	return l, nil
}

func asMap(v any, what string) (map[string]any, error) {
	m, ok := v.(map[string]any)
	if !ok {
		return nil, fmt.Errorf("%s: map expected, got %T", what, v)
	}
	return m, nil
}

func asString(v any, what string) (string, error) {
	s, ok := v.(string)
	if !ok {
		return "", fmt.Errorf("%s: string expected, got %T", what, v)
	}
	return s, nil
}

func asInt(v any, what string) (int, error) {
	n, ok := v.(int)
	if !ok {
		return 0, fmt.Errorf("%s: number expected, got %T", what, v)
	}
	return n, nil
}

func sortedKeys(m map[string]any) []string {
	ks := make([]string, 0, len(m))
	for k := range m {
		ks = append(ks, k)
	}
	sort.Strings(ks)
	return ks
}

func sameValue(a, b any) bool {
	switch x := a.(type) {
	case []any:
		y, ok := b.([]any)
		if !ok || len(x) != len(y) {
			return false
		}
		for i := range x {
			if !sameValue(x[i], y[i]) {
				return false
			}
		}
		return true
	case map[string]any:
		y, ok := b.(map[string]any)
		if !ok || len(x) != len(y) {
			return false
		}
		for k, v := range x {
			w, ok := y[k]
			if !ok || !sameValue(v, w) {
				return false
			}
		}
		return true
	}
	return a == b
}

// Eval computes the value of e. It is the harness's own evaluator of the
// documented function semantics and shares no code with HCL.
func Eval(e Expr, env Env) (any, error) {
	switch e.K {
	case "s":
		return e.S, nil
	case "n":
		return e.N, nil
	case "null":
		return nil, nil
	case "l":
		out := make([]any, 0, len(e.L))
		for _, c := range e.L {
			v, err := Eval(c, env)
			if err != nil {
				return nil, err
			}
			out = append(out, v)
		}
		return out, nil
	case "m":
		out := map[string]any{}
		for _, c := range e.M {
			v, err := Eval(c.V, env)
			if err != nil {
				return nil, err
			}
			out[c.K] = v
		}
		return out, nil
	case "ref":
		v, ok := env[e.S]
		if !ok {
			return nil, fmt.Errorf("local.%s is not defined", e.S)
		}
		return v, nil
	case "t":
		var sb strings.Builder
		for _, c := range e.A {
			v, err := Eval(c, env)
			if err != nil {
				return nil, err
			}
			switch x := v.(type) {
			case string:
				sb.WriteString(x)
			case int:
				fmt.Fprintf(&sb, "%d", x)
			default:
				return nil, fmt.Errorf("template part is %T", v)
			}
		}
		// HCL string values are NFC-normalised (HCL syntax specification).
		return norm.NFC.String(sb.String()), nil
	case "f":
		args := make([]any, len(e.A))
		for i, c := range e.A {
			v, err := Eval(c, env)
			if err != nil {
				return nil, err
			}
			args[i] = v
		}
		return evalFunc(e.S, args)
	}
	return nil, fmt.Errorf("bad expression kind %q", e.K)
}

func evalFunc(name string, a []any) (any, error) {
	need := func(n int) error {
		if len(a) != n {
			return fmt.Errorf("%s: %d arguments expected, got %d", name, n, len(a))
		}
		return nil
	}
	switch name {
	case "coalesce": // first argument that is not null
		for _, v := range a {
			if v != nil {
				return v, nil
			}
		}
		return nil, fmt.Errorf("coalesce: no non-null argument")
	case "coalescelist": // first list that is not empty
		for _, v := range a {
			l, err := asList(v, name)
			if err != nil {
				return nil, err
			}
			if len(l) > 0 {
				return l, nil
			}
		}
		return nil, fmt.Errorf("coalescelist: no non-empty list")
	case "compact": // drops empty strings
		if err := need(1); err != nil {
			return nil, err
		}
		l, err := asList(a[0], name)
		if err != nil {
			return nil, err
		}
		out := []any{}
		for _, v := range l {
			if s, ok := v.(string); ok && s == "" {
				continue
			}
			out = append(out, v)
		}
		return out, nil
	case "concat":
		out := []any{}
		for _, v := range a {
			l, err := asList(v, name)
			if err != nil {
				return nil, err
			}
			out = append(out, l...)
		}
		return out, nil
	case "distinct": // keeps the first occurrence of each element
		if err := need(1); err != nil {
			return nil, err
		}
		l, err := asList(a[0], name)
		if err != nil {
			return nil, err
		}
		out := []any{}
		for _, v := range l {
			dup := false
			for _, w := range out {
				if sameValue(v, w) {
					dup = true
					break
				}
			}
			if !dup {
				out = append(out, v)
			}
		}
		return out, nil
	case "element": // index modulo length
		if err := need(2); err != nil {
			return nil, err
		}
		l, err := asList(a[0], name)
		if err != nil {
			return nil, err
		}
		i, err := asInt(a[1], name)
		if err != nil {
			return nil, err
		}
		if len(l) == 0 || i < 0 {
			return nil, fmt.Errorf("element: empty list or negative index")
		}
		return l[i%len(l)], nil
	case "flatten":
		if err := need(1); err != nil {
			return nil, err
		}
		out := []any{}
		var walk func(v any)
		walk = func(v any) {
			if l, ok := v.([]any); ok {
				for _, c := range l {
					walk(c)
				}
				return
			}
			out = append(out, v)
		}
		if _, err := asList(a[0], name); err != nil {
			return nil, err
		}
		walk(a[0])
		return out, nil
	case "index": // position of the first occurrence
		if err := need(2); err != nil {
			return nil, err
		}
		l, err := asList(a[0], name)
		if err != nil {
			return nil, err
		}
		for i, v := range l {
			if sameValue(v, a[1]) {
				return i, nil
			}
		}
		return nil, fmt.Errorf("index: item not found")
	case "keys": // lexicographic order
		if err := need(1); err != nil {
			return nil, err
		}
		m, err := asMap(a[0], name)
		if err != nil {
			return nil, err
		}
		out := []any{}
		for _, k := range sortedKeys(m) {
			out = append(out, k)
		}
		return out, nil
	case "values": // in the order of keys()
		if err := need(1); err != nil {
			return nil, err
		}
		m, err := asMap(a[0], name)
		if err != nil {
			return nil, err
		}
		out := []any{}
		for _, k := range sortedKeys(m) {
			out = append(out, m[k])
		}
		return out, nil
	case "lookup":
		if err := need(3); err != nil {
			return nil, err
		}
		m, err := asMap(a[0], name)
		if err != nil {
			return nil, err
		}
		k, err := asString(a[1], name)
		if err != nil {
			return nil, err
		}
		if v, ok := m[k]; ok {
			return v, nil
		}
		return a[2], nil
	case "merge": // later arguments take precedence
		out := map[string]any{}
		for _, v := range a {
			m, err := asMap(v, name)
			if err != nil {
				return nil, err
			}
			for k, w := range m {
				out[k] = w
			}
		}
		return out, nil
	case "reverse":
		if err := need(1); err != nil {
			return nil, err
		}
		l, err := asList(a[0], name)
		if err != nil {
			return nil, err
		}
		out := make([]any, len(l))
		for i, v := range l {
			out[len(l)-1-i] = v
		}
		return out, nil
	case "slice": // [start, end)
		if err := need(3); err != nil {
			return nil, err
		}
		l, err := asList(a[0], name)
		if err != nil {
			return nil, err
		}
		s, err := asInt(a[1], name)
		if err != nil {
			return nil, err
		}
		e, err := asInt(a[2], name)
		if err != nil {
			return nil, err
		}
		if s < 0 || e > len(l) || s > e {
			return nil, fmt.Errorf("slice: bad bounds")
		}
		return append([]any{}, l[s:e]...), nil
	case "sort": // lexicographic, strings only
		if err := need(1); err != nil {
			return nil, err
		}
		l, err := asList(a[0], name)
		if err != nil {
			return nil, err
		}
		ss := make([]string, len(l))
		for i, v := range l {
			s, err := asString(v, name)
			if err != nil {
				return nil, err
			}
			ss[i] = s
		}
		sort.Strings(ss)
		out := make([]any, len(ss))
		for i, s := range ss {
			out[i] = s
		}
		return out, nil
	case "split": // split(separator, string)
		if err := need(2); err != nil {
			return nil, err
		}
		sep, err := asString(a[0], name)
		if err != nil {
			return nil, err
		}
		s, err := asString(a[1], name)
		if err != nil {
			return nil, err
		}
		out := []any{}
		for _, p := range strings.Split(s, sep) {
			out = append(out, p)
		}
		return out, nil
	case "zipmap": // later duplicates of a key take precedence
		if err := need(2); err != nil {
			return nil, err
		}
		ks, err := asList(a[0], name)
		if err != nil {
			return nil, err
		}
		vs, err := asList(a[1], name)
		if err != nil {
			return nil, err
		}
		if len(ks) != len(vs) {
			return nil, fmt.Errorf("zipmap: lengths differ")
		}
		out := map[string]any{}
		for i := range ks {
			k, err := asString(ks[i], name)
			if err != nil {
				return nil, err
			}
			out[k] = vs[i]
		}
		return out, nil
	}
	return nil, fmt.Errorf("function %q is not documented", name)
}

// ValueStrings converts an evaluated value to []string (nil if it is not a list of strings).
func ValueStrings(v any) ([]string, bool) {
	l, ok := v.([]any)
	if !ok {
		return nil, false
	}
	out := make([]string, len(l))
	for i, e := range l {
		s, ok := e.(string)
		if !ok {
			return nil, false
		}
		out[i] = s
	}
	return out, true
}

// ValueKVs converts an evaluated value to a string map ordered by key.
func ValueKVs(v any) (KVs, bool) {
	m, ok := v.(map[string]any)
	if !ok {
		return nil, false
	}
	out := KVs{}
	for _, k := range sortedKeys(m) {
		s, ok := m[k].(string)
		if !ok {
			return nil, false
		}
		out = append(out, KV{K: k, V: s})
	}
	return out, true
}
