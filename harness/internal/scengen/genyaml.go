package scengen

import (
	"strings"

	"pgregory.net/rapid"
)

// poolTextLines are lines of the texts people paste into bodies and payloads:
// TSV rows (also with an empty first column), tab- and space-indented JSON /
// XML / YAML / Makefile text, lines that look like YAML syntax.
var poolTextLines = []string{
	"id\tname\tcomment", "\t1\tno id in this row", "7\tseven\tx", "\t\t3", "\t",
	"{", "}", "\t\"user\": \"{{.request.auth_req.postprocessor.token}}\",", "\t\t\"привет\": \"мир ✓\"", "  \"k\": \"v\",", "    \"deep\": [1, 2]",
	"<a>", "  <b attr=\"1\"/>", "\t<c>text</c>", "</a>",
	"all:", "\techo done", "key: value", "  nested: value", "- item", "  - sub item", "k: v # c", "# not a comment", "a # b", "x: |", "> quoted", "? q", "--- ", "...", "%TAG !e!", "!tag x", "&a *a",
	"trailing blanks  ", "trailing tab\t", " one space", "  ", "", "",
	"'single' and \"double\"", "it's", "back\\slash \\n", "日本語 text", "a b c d e f", "user_id={{.request.auth_req.preprocessor.user_id}}&x=1",
}

// textBlock draws a multi-line text: 1-5 lines of poolTextLines, LF (sometimes
// CR LF) line ends, none / one / several trailing newlines.
func (g sgen) textBlock(label string) string {
	n := 1 + uniform(g.t, label+"/text#lines", 5)
	eol := "\n"
	if g.chance(label+"/text.crlf", 8) {
		eol = "\r\n"
	}
	var lines []string
	for i := 0; i < n; i++ {
		lines = append(lines, pickU(g.t, label+"/text.line", poolTextLines))
	}
	s := strings.Join(lines, eol)
	s += strings.Repeat(eol, pickU(g.t, label+"/text.trailing", []int{0, 1, 1, 1, 1, 2, 3}))
	return Sanitize(s)
}

// AddYAMLStyles draws Layout.YAMLStyles: which string values of the YAML
// rendering are written by hand and how. 15% of the descriptions get no style
// at all; in the others bodies and payloads are styled in 65%
// of the cases, other values in 20% (40% when they have several lines or a
// tab); the style is drawn with weights that follow the content (block scalars
// for multi-line text, wrapped plain / quoted scalars for one-line text) but
// every style can meet every string: RenderYAMLStyled falls back to the
// Marshal form for what a style cannot express.
func AddYAMLStyles(t *rapid.T, m *Model) {
	g := sgen{t: t}
	if g.chance("yaml_style:none", 15) {
		return // the whole file as Marshal writes it
	}
	styles := map[string]ScalarStyle{}
	for _, s := range YAMLStringSites(*m) {
		l := "yaml_style:" + s.Path
		multi := strings.ContainsAny(s.Value, "\n\t")
		pct := 20
		switch {
		case strings.HasSuffix(s.Path, ".body") || strings.HasSuffix(s.Path, ".payload"):
			pct = 65
		case multi:
			pct = 40
		}
		if !g.chance(l+"?", pct) {
			continue
		}
		var weights []string
		switch {
		case multi:
			weights = []string{StyleLiteral, StyleLiteral, StyleLiteral, StyleLiteral, StyleLiteral, StyleFolded, StyleFolded, StyleFolded, StyleDouble, StyleSingle, StylePlain}
		case strings.HasPrefix(s.Value, " ") || strings.HasSuffix(s.Value, " "):
			weights = []string{StyleLiteral, StyleLiteral, StyleFolded, StyleSingle, StyleSingle, StyleDouble}
		default:
			weights = []string{StylePlain, StylePlain, StyleSingle, StyleSingle, StyleDouble, StyleLiteral, StyleLiteral, StyleFolded}
		}
		st := ScalarStyle{Style: pickU(t, l+".style", weights)}
		if st.Style == StylePlain && (yamlPlainDiffers(strings.ReplaceAll(s.Value, "\n", " ")) || strings.HasSuffix(s.Value, "\n")) && g.chance(l+".style.plain->single", 90) {
			st.Style = StyleSingle // plain cannot say it (nine in ten of those are written quoted)
		}
		st.Indent = pickU(t, l+".indent", []int{1, 2, 2, 2, 2, 3, 4, 4, 6, 8})
		switch st.Style {
		case StyleLiteral, StyleFolded:
			st.Explicit = g.chance(l+".explicit", 25)
			st.Keep = g.chance(l+".keep", 25)
		}
		if st.Style != StyleLiteral {
			st.Wrap = g.chance(l+".wrap", 50)
		}
		styles[s.Path] = st
	}
	if len(styles) > 0 {
		m.Layout.YAMLStyles = styles
	}
}
