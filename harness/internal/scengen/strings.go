package scengen

import (
	"regexp"
	"strings"
	"unicode/utf8"

	"golang.org/x/text/unicode/norm"
	"gopkg.in/yaml.v2"
	"pgregory.net/rapid"
)

// SpecialClasses are the string classes drawn for free-text fields when
// Opts.Special is set. Every entry is valid UTF-8.
var SpecialClasses = map[string][]string{
	"quote":     {`"`, `'`, `say "hi"`, `it's`, `"quoted"`, `'single'`, "`tick`", `""`, `"'`},
	"backslash": {`\`, `a\b`, `\\`, `\n`, `C:\dir\`, `\"`, `\u0041`, `tail\`, `\t`, `\$`},
	"newline":   {"\n", "a\nb", "line1\nline2\n", "\r\n", "a\r\nb", "\ttab", "a\n\nb", "\n lead", "trail \n", "  indented\n    more\n", "x\n", "\r"},
	"unicode":   {"привет", "日本語", "😀", "\u00e9", "ß", "Ω", "\u00a0", "\u200b", "\u2028", "\u2029", "\u0085", "\ufeff", "𝔘", "ñandú", "مرحبا", "Ω≈ç√", "\u0301"},
	"tmpl":      {"%{", "${", "$${", "%%{", "%{ if x }", "${unclosed", "$", "%", "$$", "a$", "}", "{", "%{~", "${ x", "%{}", "$%{", "%${"},
	"yaml": {"yes", "no", "null", "~", "true", "false", "on", "off", "1e3", "0x1F", "0o7", "010", "1_000", ".inf", ".nan", "-1", "+1", "1.5",
		"- a", "-", "#c", "a #c", "a: b", "a:", ":", "[x]", "{x}", "[", "]", "&a", "*a", "!tag", "!!str x", "|", ">", "|-", "@x", "`x", "%x", "? q", "?",
		" lead", "trail ", " ", "1:2", "12:30:45", "2001-01-01", "2001-12-14t21:59:43.10-05:00", "<<", "=", ".", "..", "...", "---", "--- x", ",", "a, b",
		"Y", "n", "NULL", "Null", "True", "0", "00", "0.0", "1e", "e3", "''", ""},
	"control": {"\x00", "\x01", "\x07", "\x1b", "\x7f", "a\x00b", "\x08"},
	"gotmpl": {"{{.request.auth_req.postprocessor.token}}", "{{ randInt 1 10 }}", "{{.source.users[0].id}}", "Bearer {{.request.a.postprocessor.t}}",
		"{{ uuid }}", "{{ randString 10 abcde }}"},
}

var specialClassNames = []string{"quote", "backslash", "newline", "unicode", "tmpl", "yaml", "control", "gotmpl"}

// placeholderRe is the pattern pandora's config layer treats as a
// `${type:name}` placeholder (lib/confutil findTags).
var placeholderRe = regexp.MustCompile(`\$\{(?:([^}]+?):)?([^{}]+?)\}`)

// Sanitize makes s expressible identically in both syntaxes and outside the
// placeholder language: valid UTF-8, NFC (HCL normalises string values), and
// no complete `${...}` sequence (the closing brace of each is replaced by `]`).
func Sanitize(s string) string {
	if !utf8.ValidString(s) {
		s = strings.ToValidUTF8(s, "?")
	}
	s = norm.NFC.String(s)
	for {
		loc := placeholderRe.FindStringIndex(s)
		if loc == nil {
			return s
		}
		s = s[:loc[1]-1] + "]" + s[loc[1]:]
	}
}

// yamlPlainDiffers reports whether s written as a plain YAML scalar would not
// read back as the same string.
func yamlPlainDiffers(s string) bool {
	var v any
	if err := yaml.Unmarshal([]byte(s), &v); err != nil {
		return true
	}
	got, ok := v.(string)
	return !ok || got != s
}

// StringClasses classifies a string by content (for evidence histograms).
func StringClasses(s string) []string {
	var out []string
	if strings.ContainsAny(s, "\"'`") {
		out = append(out, "quote")
	}
	if strings.Contains(s, `\`) {
		out = append(out, "backslash")
	}
	if strings.ContainsAny(s, "\n\r") {
		out = append(out, "newline")
	}
	ctrl, uni := false, false
	for _, r := range s {
		if r >= 0x80 {
			uni = true
		}
		if (r < 0x20 && r != '\n' && r != '\r' && r != '\t') || r == 0x7f {
			ctrl = true
		}
	}
	if uni {
		out = append(out, "unicode")
	}
	if ctrl {
		out = append(out, "control")
	}
	if strings.Contains(s, "%{") {
		out = append(out, "hcl_percent_brace")
	}
	if strings.Contains(s, "${") {
		out = append(out, "hcl_dollar_brace")
	}
	if !strings.ContainsAny(s, "\n\r") && yamlPlainDiffers(s) {
		out = append(out, "yaml_special")
	}
	if s == "" {
		out = append(out, "empty")
	}
	return out
}

// IsSpecial reports whether s belongs to any special class.
func IsSpecial(s string) bool { return len(StringClasses(s)) > 0 }

type sgen struct {
	t    *rapid.T
	opts Opts
}

// free draws a free-text string: from plain (realistic values) or, with
// Opts.Special, a concatenation of 1-3 pieces of the special classes.
func (g sgen) free(label string, plain []string) string {
	if g.opts.TextBlocks && !strings.HasSuffix(label, ".key") && g.chance(label+"?textblock", 6) {
		return g.textBlock(label)
	}
	if !g.opts.Special || !g.chance(label+"?special", 50) {
		return Sanitize(rapid.SampledFrom(plain).Draw(g.t, label))
	}
	n := rapid.SampledFrom([]int{1, 1, 1, 2, 2, 3}).Draw(g.t, label+"#pieces")
	var sb strings.Builder
	for i := 0; i < n; i++ {
		switch k := uniform(g.t, label+"/kind", 12); {
		case k <= 7:
			cl := specialClassNames[k]
			sb.WriteString(rapid.SampledFrom(SpecialClasses[cl]).Draw(g.t, label+"/"+cl))
		case k == 8:
			sb.WriteString(rapid.SampledFrom(plain).Draw(g.t, label+"/plain"))
		default:
			sb.WriteString(rapid.StringN(0, 6, -1).Draw(g.t, label+"/any"))
		}
	}
	return Sanitize(sb.String())
}

var identRunes = []rune("abcdefghijklmnopqrstuvwxyz0123456789_")

func (g sgen) ident(label string) string {
	first := rapid.SampledFrom([]rune("abcdefghijklmnopqrstuvwxyz")).Draw(g.t, label+"0")
	rest := rapid.StringOfN(rapid.RuneFrom(identRunes), 0, 6, -1).Draw(g.t, label)
	return string(first) + rest
}

var specialNames = []string{"req name", "имя", "r-1", "r.2", `a"b`, `a\b`, "r#1", "yes", "null", "1e3", "- a", "#c", "r:x", "r,x", "😀", "%{", "${x",
	"r'", "[r]", "{r}", "~", "1", "true", "a: b", "r\tx", "Ünï", "<<", "*a", "&a", "!x", "|", "%{ if }", "$${", "r=1", "r/1"}

// name draws a unique step / scenario / source name: no parentheses, no
// surrounding white space, not empty, not the reserved word `sleep`.
func (g sgen) name(label string, plain []string, used map[string]bool) string {
	var n string
	switch {
	case g.opts.Special && !g.opts.SimpleNames && g.chance(label+"?special", 35):
		n = rapid.SampledFrom(specialNames).Draw(g.t, label)
	case rapid.Bool().Draw(g.t, label+"?pool"):
		n = rapid.SampledFrom(plain).Draw(g.t, label)
	default:
		n = g.ident(label)
	}
	n = Sanitize(n)
	if n == "sleep" || n == "" {
		n = "step"
	}
	base := n
	for i := 2; used[n]; i++ {
		n = base + "_" + itoa(i)
	}
	used[n] = true
	return n
}

func itoa(i int) string {
	if i == 0 {
		return "0"
	}
	neg := i < 0
	if neg {
		i = -i
	}
	var b []byte
	for i > 0 {
		b = append([]byte{byte('0' + i%10)}, b...)
		i /= 10
	}
	if neg {
		b = append([]byte{'-'}, b...)
	}
	return string(b)
}

func (g sgen) kvs(label string, keys, values []string, max int) KVs {
	n := rapid.IntRange(0, max).Draw(g.t, label+"#n")
	out := KVs{}
	used := map[string]bool{}
	for i := 0; i < n; i++ {
		k := g.free(label+".key", keys)
		if used[k] {
			continue
		}
		used[k] = true
		out = append(out, KV{K: k, V: g.free(label+".value", values)})
	}
	return out
}

func (g sgen) strs(label string, values []string, min, max int) []string {
	n := rapid.IntRange(min, max).Draw(g.t, label+"#n")
	out := []string{}
	for i := 0; i < n; i++ {
		out = append(out, g.free(label, values))
	}
	return out
}
