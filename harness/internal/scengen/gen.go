package scengen

import (
	"encoding/json"
	"fmt"
	"math/bits"
	"strings"

	"pgregory.net/rapid"
)

// Opts selects what the generators draw.
type Opts struct {
	// Special draws half of the free-text strings (values, map keys, 35% of the
	// names) from the special string classes (see SpecialClasses).
	Special bool
	// SimpleNames keeps step / scenario / source names plain even with Special.
	SimpleNames bool
	// Locals adds `locals` blocks and HCL-only expressions (see AddLocals).
	Locals bool
	// TextBlocks draws 35% of the bodies / payloads and 6% of the other free-text
	// values as hand-written text blocks (see textBlock): 1-5 lines that start
	// with tabs or spaces, contain `#`, `: `, trailing blanks, CR LF line ends,
	// none / one / several trailing newlines.
	TextBlocks bool
	// YAMLStyles draws Layout.YAMLStyles (see AddYAMLStyles).
	YAMLStyles bool
	// ZeroWeights writes one in five of the written scenario weights as 0, the lower bound of the allowed range
	// (a zero weight counts as 1, exactly as a weight that is left out: Model.Ring).
	ZeroWeights bool
	// YAMLOrder draws Layout.YAMLOrder (see AddYAMLOrder): the order of the keys in the YAML rendering.
	YAMLOrder bool
	// FileTails draws Layout.YAMLTail / HCLTail (see AddFileTails): how the two files end.
	FileTails bool
	// YAMLAnchors draws Layout.YAMLAnchors (see AddYAMLAnchors): user maps of the YAML rendering written through
	// anchors, aliases and merge keys (`&a`, `*a`, `<<: *a`, `<<: [*a, *b]`), incl. keys that override a merged one.
	YAMLAnchors bool
	// MaxSources, MaxSteps, MaxScenarios bound the sizes (0 = 3, 4, 3).
	MaxSources, MaxSteps, MaxScenarios int
}

func (o Opts) maxSources() int {
	if o.MaxSources > 0 {
		return o.MaxSources
	}
	return 3
}

func (o Opts) maxSteps() int {
	if o.MaxSteps > 0 {
		return o.MaxSteps
	}
	return 4
}

func (o Opts) maxScenarios() int {
	if o.MaxScenarios > 0 {
		return o.MaxScenarios
	}
	return 3
}

// pools of realistic values (mostly taken from pandora's documentation and test data)
var (
	poolSourceNames = []string{"users", "filter_src", "global", "variables", "source_name", "user_file", "items"}
	poolFileNames   = []string{"users.csv", "file.csv", "filter.json", "users.json", "data file.csv", "данные.json", "it's.csv", "a\"b.json", "x,y.csv", "#1.json"}
	poolFields      = []string{"user_id", "name", "pass", "id", "login", "user id", "", "имя"}
	poolDelimiters  = []string{",", ";", "\t", "|", ":", " ", ";;", ",x", ""}
	poolVarKeys     = []string{"host", "port", "header", "b", "max_rand_int", "letters", "my_uuid", "Content-Type"}
	poolVarValues   = []string{"localhost", "8090", "yandex", "s", "abcde", "100", "", "a b"}
	poolRandFuncs   = []string{"uuid()", "randInt()", "randInt(10)", "randInt(100, 200)", "randString()", "randString(10)", "randString(100, abcde)", "uuid"}

	poolStepNames = []string{"auth_req", "list_req", "order_req", "mainpage", "request_name", "item_req", "req"}
	poolMethods   = []string{"GET", "POST", "PUT", "DELETE", "PATCH", "HEAD", "OPTIONS", "get"}
	poolURIs      = []string{"/", "/auth", "/list", "/order", "/uri", "/order/{{.request.list_req.postprocessor.item_id}}", "/auth?user={{.source.users[0].user_id}}&x=1",
		"/list?a=b&c=d#frag", "/{{ randInt 1 10 }}", "http://localhost:8080/abs"}
	poolHeaderKeys   = []string{"Content-Type", "Useragent", "Authorization", "X-Trace-ID", "Accept", "Host", "Cookie", "Global-Header", "x-lower"}
	poolHeaderValues = []string{"application/json", "Yandex", "Bearer {{.request.auth_req.postprocessor.token}}", "*/*", "{{.source.variables.header}}", "a=b; c=d", "", "localhost:8080"}
	poolTags         = []string{"auth", "list", "order", "tag", "", "my tag"}
	poolBodies       = []string{`{"user_id": {{.request.auth_req.preprocessor.user_id}}}`, "<body/>", "", `{"item_id": {{.request.order_req.preprocessor.item}}}`,
		"{\"a\": 1}\n", "line1\nline2\n", "a=1&b=2", "<a>\n  <b/>\n</a>\n"}
	poolBodyLines = []string{`{"user_id": {{.request.auth_req.preprocessor.user_id}}}`, "<body/>", "", "  indented", "a\tb", `{"login": "{{.request.auth_req.preprocessor.user.login}}"}`, "EOT x", "EOF"}
	poolPreKeys   = []string{"user_id", "item", "new_var", "user", "my_uuid", "my_random_int"}
	poolPreValues = []string{"source.users[next].user_id", "source.users[next]", "request.list_req.postprocessor.items[rand]", "source.var_name[next].0", "source.users[last].id",
		"uuid()", "randInt(100, 200)", "randString(10, abcde)", "randInt(100, .request.my_req_name.postprocessor.var_from_response)"}
	poolJsonpathKeys   = []string{"token", "item_id", "items", "new_var"}
	poolJsonpathValues = []string{"$.auth_key", "$.items[0]", "$.items", "$..book[?(@.price<10)]", "$['a b']"}
	poolXpathValues    = []string{"//div[@class='data']", "/html/body/h1", "//a/@href", `//div[@id="x"]`}
	poolHeaderMapVals  = []string{"X-Trace-ID", "Authorization|lower|replace(=,)|substr(6)", "Content-Type|upper", "Set-Cookie|substr(0, 4)"}
	poolAssertBody     = []string{"token", "\"ok\"", "<html>", "", "a b"}
	poolSizeOps        = []string{"eq", "=", "lt", "<", "gt", ">"}
	poolStatusCodes    = []int{200, 201, 204, 301, 404, 500, 0, 1, 999, -1}

	poolCalls    = []string{"target.TargetService.Auth", "target.TargetService.List", "target.TargetService.Order", "target.TargetService.Hello", "pkg.Svc/Method"}
	poolMetaKeys = []string{"metadata", "authorization", "x-trace-id", "user-agent"}
	poolMetaVals = []string{"server.proto", "{{.request.auth_req.postprocessor.token}}", "yandex", ""}
	poolPayloads = []string{`{"login": "{{.request.auth_req.preprocessor.user.login}}", "pass": "{{.request.auth_req.preprocessor.user.pass}}"}`, `{"token": "{{.request.auth_req.postprocessor.token}}"}`,
		`{"name": "x"}`, "{}", "{\"a\": 1}\n", "{\n  \"user_id\": 1\n}\n"}
	poolGrpcAssert = []string{"token", "result", "", "\"ok\""}
	poolGrpcCodes  = []int{200, 0, 13, 400, 500, 404}

	poolScenarioNames = []string{"scenario_name", "scenario_first", "scenario_second", "scenario1", "scenario 2", "main"}
)

func ptr[T any](v T) *T { return &v }

// uniform draws an integer in [0, n) without rapid's bias towards small
// values (rapid.IntRange and SampledFrom prefer short bit lengths), bit by bit
// from rapid.Bool with rejection.
func uniform(t *rapid.T, label string, n int) int {
	if n <= 1 {
		return 0
	}
	nb := bits.Len(uint(n - 1))
	for {
		v := 0
		for i := 0; i < nb; i++ {
			if rapid.Bool().Draw(t, label) {
				v |= 1 << i
			}
		}
		if v < n {
			return v
		}
	}
}

// pickU draws one of vals uniformly.
func pickU[T any](t *rapid.T, label string, vals []T) T { return vals[uniform(t, label, len(vals))] }

func (g sgen) chance(label string, pct int) bool { return uniform(g.t, label, 100) < pct }

func (g sgen) optStr(label string, pct int, plain []string) *string {
	if !g.chance(label+"?", pct) {
		return nil
	}
	return ptr(g.free(label, plain))
}

func (g sgen) optKVs(label string, pct int, keys, values []string, max int) *KVs {
	if !g.chance(label+"?", pct) {
		return nil
	}
	k := g.kvs(label, keys, values, max)
	return &k
}

// heredocText draws a text that HeredocOK accepts: 1-3 printable lines, each
// terminated by a newline.
func (g sgen) heredocText(label string, lines []string) string {
	n := rapid.IntRange(1, 3).Draw(g.t, label+"#lines")
	var sb strings.Builder
	for i := 0; i < n; i++ {
		var l string
		if g.opts.Special && g.chance(label+"/line?special", 50) {
			cl := rapid.SampledFrom([]string{"quote", "backslash", "unicode", "tmpl", "yaml", "gotmpl"}).Draw(g.t, label+"/class")
			l = rapid.SampledFrom(SpecialClasses[cl]).Draw(g.t, label+"/"+cl)
			if g.chance(label+"/line+plain", 50) {
				l += rapid.SampledFrom(lines).Draw(g.t, label+"/plainpart")
			}
		} else {
			l = rapid.SampledFrom(lines).Draw(g.t, label+"/line")
		}
		l = strings.NewReplacer("\n", " ", "\r", " ").Replace(l)
		sb.WriteString(l)
		sb.WriteString("\n")
	}
	s := Sanitize(sb.String())
	if !HeredocOK(s) {
		return "<body/>\n"
	}
	return s
}

func (g sgen) source(i int, used map[string]bool, files map[string]bool) Source {
	l := fmt.Sprintf("source[%d]", i)
	s := Source{Name: g.name(l+".name", poolSourceNames, used)}
	switch k := uniform(g.t, l+".kind", 100); {
	case k < 40:
		s.Type = SourceCSV
	case k < 65:
		s.Type = SourceJSON
	default:
		s.Type = SourceVariables
	}
	file := func() *string {
		f := rapid.SampledFrom(poolFileNames).Draw(g.t, l+".file")
		for j := 2; files[f]; j++ {
			f = itoa(j) + "_" + f
		}
		files[f] = true
		return &f
	}
	switch s.Type {
	case SourceCSV:
		s.File = file()
		ncol := rapid.IntRange(1, 3).Draw(g.t, l+".ncol")
		if g.chance(l+".fields?", 60) {
			// fields may be fewer, as many or more than the columns of the file
			f := g.strs(l+".fields", poolFields, 0, 4)
			s.Fields = &f
		}
		if g.chance(l+".ignore_first_line?", 60) {
			s.IgnoreFirstLine = ptr(rapid.Bool().Draw(g.t, l+".ignore_first_line"))
		}
		sep := ","
		if g.chance(l+".delimiter?", 60) {
			d := rapid.SampledFrom(poolDelimiters).Draw(g.t, l+".delimiter")
			s.Delimiter = &d
			if d != "" {
				sep = d[:1]
			}
		}
		nrow := rapid.IntRange(1, 4).Draw(g.t, l+".nrow")
		cells := []string{"1", "2", "user1", "user2", "pass", "имя", "x y", "", "a'b", "{{.x}}", "0"}
		var sb strings.Builder
		for r := 0; r < nrow; r++ {
			for c := 0; c < ncol; c++ {
				if c > 0 {
					sb.WriteString(sep)
				}
				cell := rapid.SampledFrom(cells).Draw(g.t, l+".cell")
				if sep == " " || sep == ":" || sep == "|" || sep == "\t" {
					cell = strings.ReplaceAll(cell, sep, "_")
				}
				if cell == "" && ncol == 1 {
					cell = "e" // a line that is empty is skipped by the csv reader; keep rows unambiguous
				}
				sb.WriteString(cell)
			}
			sb.WriteString("\n")
		}
		s.Content = sb.String()
	case SourceJSON:
		s.File = file()
		s.Content = rapid.SampledFrom([]string{
			`{"data": [{"id": 1, "name": "user1"}, {"id": 2, "name": "user2"}]}`,
			`[{"id": 1, "name": "user1"}, {"id": 2, "name": "user2"}]`,
			`{"a": {"b": [1, 2.5, "x", null, true]}, "имя": "значение"}`,
			`[]`, `{}`, `"just a string"`, `42`, `null`,
			"{\n  \"k\": \"v\\n\\\"q\\\"\"\n}\n",
		}).Draw(g.t, l+".content")
	case SourceVariables:
		if g.chance(l+".variables?", 90) {
			v := g.kvs(l+".variables", poolVarKeys, poolVarValues, 4)
			for j := range v {
				if g.chance(l+".rand?", 15) {
					v[j].V = rapid.SampledFrom(poolRandFuncs).Draw(g.t, l+".randfunc")
				}
			}
			for j := range v {
				if !IsRandFuncValue(v[j].V) && g.chance(l+".typed?", 12) {
					v[j].V = rapid.SampledFrom([]string{"8090", "0", "-1", "100", "true", "false"}).Draw(g.t, l+".typed")
					s.TypedKeys = append(s.TypedKeys, v[j].K)
				}
			}
			for _, e := range v {
				if IsRandFuncValue(e.V) {
					s.RandKeys = append(s.RandKeys, e.K)
				}
			}
			s.Variables = &v
		}
	}
	return s
}

// IsRandFuncValue reports whether pandora replaces a `variables` value by a
// random one: the text before the first `(` names a randomisation function
// (docs/eng/scenario/functions.md, "In the Data Source - variables").
func IsRandFuncValue(v string) bool {
	name, _, _ := strings.Cut(v, "(")
	return name == "uuid" || name == "randInt" || name == "randString"
}

func (g sgen) postprocessor(l string) Postprocessor {
	p := Postprocessor{}
	switch uniform(g.t, l+".kind", 5) {
	case 0:
		p.Type = PostJsonpath
		p.Mapping = g.optKVs(l+".mapping", 92, poolJsonpathKeys, poolJsonpathValues, 3)
	case 1:
		p.Type = PostXpath
		p.Mapping = g.optKVs(l+".mapping", 92, poolJsonpathKeys, poolXpathValues, 3)
	case 2:
		p.Type = PostHeader
		p.Mapping = g.optKVs(l+".mapping", 92, poolJsonpathKeys, poolHeaderMapVals, 3)
	default:
		p.Type = PostAssert
		p.Headers = g.optKVs(l+".headers", 50, poolHeaderKeys, poolHeaderValues, 3)
		if g.chance(l+".body?", 50) {
			b := g.strs(l+".body", poolAssertBody, 0, 3)
			p.Body = &b
		}
		if g.chance(l+".status_code?", 50) {
			p.StatusCode = ptr(rapid.SampledFrom(poolStatusCodes).Draw(g.t, l+".status_code"))
		}
		if g.chance(l+".size?", 45) {
			sz := AssertSize{Op: rapid.SampledFrom(poolSizeOps).Draw(g.t, l+".size.op")}
			if g.chance(l+".size.val?", 70) {
				sz.Val = ptr(rapid.SampledFrom([]int{0, 1, 10, 10000, 1 << 31}).Draw(g.t, l+".size.val"))
			}
			p.Size = &sz
		}
	}
	return p
}

func (g sgen) request(i int, used map[string]bool) Request {
	l := fmt.Sprintf("request[%d]", i)
	q := Request{Name: g.name(l+".name", poolStepNames, used)}
	q.Method = g.free(l+".method", poolMethods)
	q.URI = g.free(l+".uri", poolURIs)
	q.Headers = g.optKVs(l+".headers", 70, poolHeaderKeys, poolHeaderValues, 4)
	q.Tag = g.optStr(l+".tag", 50, poolTags)
	if g.chance(l+".body?", 55) {
		if g.opts.TextBlocks && g.chance(l+".body.textblock?", 35) {
			q.Body = ptr(g.textBlock(l + ".body"))
			q.BodyHeredoc = g.chance(l+".body.heredoc.try", 60)
		} else if g.chance(l+".body.heredoc?", 35) {
			q.Body = ptr(g.heredocText(l+".body", poolBodyLines))
			q.BodyHeredoc = g.chance(l+".body.heredoc.use", 80)
		} else {
			q.Body = ptr(g.free(l+".body", poolBodies))
			q.BodyHeredoc = g.chance(l+".body.heredoc.try", 30)
		}
	}
	if g.chance(l+".preprocessor?", 40) {
		q.Preprocessor = &Preprocessor{Mapping: g.kvs(l+".preprocessor.mapping", poolPreKeys, poolPreValues, 3)}
	}
	if g.chance(l+".templater?", 40) {
		q.Templater = ptr(rapid.SampledFrom([]string{"text", "html"}).Draw(g.t, l+".templater"))
	}
	n := pickU(g.t, l+".postprocessors#n", []int{0, 0, 1, 1, 1, 2, 2, 3, 4})
	for j := 0; j < n; j++ {
		q.Postprocessors = append(q.Postprocessors, g.postprocessor(fmt.Sprintf("%s.postprocessor[%d]", l, j)))
	}
	return q
}

func (g sgen) call(i int, used map[string]bool) Call {
	l := fmt.Sprintf("call[%d]", i)
	c := Call{Name: g.name(l+".name", poolStepNames, used)}
	c.Call = g.free(l+".call", poolCalls)
	c.Tag = g.optStr(l+".tag", 50, poolTags)
	c.Metadata = g.optKVs(l+".metadata", 60, poolMetaKeys, poolMetaVals, 3)
	if g.opts.TextBlocks && g.chance(l+".payload.textblock?", 35) {
		c.Payload = g.textBlock(l + ".payload")
		c.PayloadHeredoc = g.chance(l+".payload.heredoc.try", 60)
	} else if g.chance(l+".payload.heredoc?", 30) {
		c.Payload = g.heredocText(l+".payload", poolBodyLines)
		c.PayloadHeredoc = g.chance(l+".payload.heredoc.use", 80)
	} else {
		c.Payload = g.free(l+".payload", poolPayloads)
		c.PayloadHeredoc = g.chance(l+".payload.heredoc.try", 30)
	}
	n := pickU(g.t, l+".preprocessors#n", []int{0, 0, 1, 1, 2})
	for j := 0; j < n; j++ {
		c.Preprocessors = append(c.Preprocessors, CallPreprocessor{Type: "prepare",
			Mapping: g.kvs(fmt.Sprintf("%s.preprocessor[%d].mapping", l, j), poolPreKeys, poolPreValues, 3)})
	}
	n = pickU(g.t, l+".postprocessors#n", []int{0, 0, 1, 1, 2})
	for j := 0; j < n; j++ {
		pl := fmt.Sprintf("%s.postprocessor[%d]", l, j)
		p := CallPostprocessor{Type: PostAssert}
		if g.chance(pl+".payload?", 60) {
			b := g.strs(pl+".payload", poolGrpcAssert, 0, 3)
			p.Payload = &b
		}
		if g.chance(pl+".status_code?", 60) {
			p.StatusCode = ptr(rapid.SampledFrom(poolGrpcCodes).Draw(g.t, pl+".status_code"))
		}
		c.Postprocessors = append(c.Postprocessors, p)
	}
	return c
}

func (g sgen) scenarios(stepNames []string) []Scenario {
	n := pickU(g.t, "scenarios#n", []int{1, 1, 2, 2, 2, 3, 3})
	if n > g.opts.maxScenarios() {
		n = g.opts.maxScenarios()
	}
	factor := pickU(g.t, "weight.factor", []int64{1, 1, 2, 3, 10, 50})
	used := map[string]bool{}
	var out []Scenario
	for i := 0; i < n; i++ {
		l := fmt.Sprintf("scenario[%d]", i)
		s := Scenario{Name: g.name(l+".name", poolScenarioNames, used)}
		if g.chance(l+".weight?", 65) {
			s.Weight = ptr(factor * int64(1+uniform(g.t, l+".weight", 6)))
			if g.opts.ZeroWeights && g.chance(l+".weight=0", 20) {
				s.Weight = ptr(int64(0))
			}
		}
		if g.chance(l+".min_waiting_time?", 50) {
			s.MinWaitingTime = ptr(int64(rapid.SampledFrom([]int{0, 1, 10, 1000, 60000}).Draw(g.t, l+".min_waiting_time")))
		}
		ns := 1 + uniform(g.t, l+".steps#n", 6)
		for j := 0; j < ns; j++ {
			sl := fmt.Sprintf("%s.step[%d]", l, j)
			st := Step{}
			form := uniform(g.t, sl+".form", 10)
			if j == 0 && form >= 8 {
				form = 0 // a list cannot start with sleep()
			}
			ms := func() *int { return ptr(rapid.SampledFrom([]int{0, 1, 5, 100, 1000}).Draw(g.t, sl+".ms")) }
			switch {
			case form >= 8:
				st.Sleep = true
				st.Ms = ms()
			default:
				st.Name = rapid.SampledFrom(stepNames).Draw(g.t, sl+".name")
				switch {
				case form <= 2: // name
				case form <= 4: // name(n)
					st.Count = ptr(rapid.IntRange(1, 3).Draw(g.t, sl+".count"))
				default: // name(n, ms) / name(n,ms)
					st.Count = ptr(rapid.IntRange(1, 3).Draw(g.t, sl+".count"))
					st.Ms = ms()
					st.Tight = rapid.Bool().Draw(g.t, sl+".tight")
				}
			}
			s.Steps = append(s.Steps, st)
		}
		out = append(out, s)
	}
	return out
}

func (g sgen) layout() Layout {
	return Layout{
		HCLOrder:          rapid.Permutation(DefaultHCLOrder).Draw(g.t, "hcl_order"),
		YAMLEmptySections: g.chance("yaml_empty_sections", 30),
	}
}

func (g sgen) sources() []Source {
	n := uniform(g.t, "sources#n", g.opts.maxSources()+1)
	used, files := map[string]bool{}, map[string]bool{}
	var out []Source
	for i := 0; i < n; i++ {
		out = append(out, g.source(i, used, files))
	}
	return out
}

// GenHTTP draws an HTTP scenario description.
func GenHTTP(t *rapid.T, o Opts) Model {
	g := sgen{t: t, opts: o}
	m := Model{Kind: "http"}
	m.Sources = g.sources()
	n := 1 + uniform(t, "requests#n", o.maxSteps())
	used := map[string]bool{}
	for i := 0; i < n; i++ {
		m.Requests = append(m.Requests, g.request(i, used))
	}
	m.Scenarios = g.scenarios(m.StepNames())
	m.Layout = g.layout()
	if o.Locals {
		AddLocals(t, &m, o)
	}
	if o.YAMLStyles {
		AddYAMLStyles(t, &m)
	}
	if o.YAMLOrder {
		AddYAMLOrder(t, &m)
	}
	if o.FileTails {
		AddFileTails(t, &m)
	}
	if o.YAMLAnchors {
		AddYAMLAnchors(t, &m)
	}
	return m
}

// GenGRPC draws a gRPC scenario description.
func GenGRPC(t *rapid.T, o Opts) Model {
	g := sgen{t: t, opts: o}
	m := Model{Kind: "grpc"}
	m.Sources = g.sources()
	n := 1 + uniform(t, "calls#n", o.maxSteps())
	used := map[string]bool{}
	for i := 0; i < n; i++ {
		m.Calls = append(m.Calls, g.call(i, used))
	}
	m.Scenarios = g.scenarios(m.StepNames())
	m.Layout = g.layout()
	if o.Locals {
		AddLocals(t, &m, o)
	}
	if o.YAMLStyles {
		AddYAMLStyles(t, &m)
	}
	if o.YAMLOrder {
		AddYAMLOrder(t, &m)
	}
	if o.FileTails {
		AddFileTails(t, &m)
	}
	if o.YAMLAnchors {
		AddYAMLAnchors(t, &m)
	}
	return m
}

// Gen draws an HTTP (60%) or gRPC (40%) description.
func Gen(t *rapid.T, o Opts) Model {
	if uniform(t, "kind", 100) < 60 {
		return GenHTTP(t, o)
	}
	return GenGRPC(t, o)
}

// Clone returns a deep copy (through JSON, the form cases are stored in).
func (m Model) Clone() Model {
	b, err := json.Marshal(m)
	if err != nil {
		panic("scengen: " + err.Error())
	}
	var c Model
	if err := json.Unmarshal(b, &c); err != nil {
		panic("scengen: " + err.Error())
	}
	return c
}
