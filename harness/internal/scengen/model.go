// Package scengen is a JSON-serialisable model of pandora *scenario descriptions*
// (the files the `http/scenario` and `grpc/scenario` providers read), rapid
// generators for it and two independent renderers (YAML and HCL).
//
// # Model
//
// A Model is one description:
//
//	Model
//	  Kind       "http" | "grpc"
//	  Sources    []Source    variable_source / variable_sources  (file/csv, file/json, variables)
//	  Requests   []Request   HTTP steps   (name method uri headers tag body preprocessor postprocessors templater)
//	  Calls      []Call      gRPC steps   (name call tag metadata payload preprocessors postprocessors)
//	  Scenarios  []Scenario  name weight min_waiting_time + Steps (the `requests` list)
//	  Locals     []LocalsBlock   HCL only: `locals {}` blocks, evaluated in order
//	  Exprs      map[path]Expr   HCL only: attribute at <path> is written as this expression
//	  Layout     rendering knobs that must not change the meaning (block order, heredocs live on the step)
//
// Optional fields are pointers (nil = left out of the file); maps are ordered
// key/value lists (KVs) so that rendering is deterministic and a case
// round-trips through JSON. A Step is one entry of a scenario's `requests`
// list in the documented grammar: `name`, `name(n)`, `name(n, sleepMs)`,
// `sleep(ms)`; Step.String() is the text, Scenario.Expand() the resulting
// step sequence (reference semantics of the grammar).
//
// File sources carry the content of their file (Source.Content); Files()
// lists what has to exist on the filesystem, Rebase() moves all of them under
// a (unique) directory.
//
// # Generators
//
// GenHTTP / GenGRPC draw descriptions that the documented grammar accepts, by
// construction: unique names, step lists that start with a request, weights
// >= 1 with a bounded ring, every optional field present or absent. With
// Opts.Special the free-text fields are drawn from string classes that are
// hostile to a text front-end (quotes, backslashes, newlines, unicode, `%{`,
// unterminated `${`, YAML-special scalars, control characters); complete
// `${...}` sequences are never produced (pandora's config layer treats them as
// placeholders) and all strings are NFC (HCL normalises string values).
// With Opts.Locals the HCL rendering additionally uses `locals` blocks, the
// collection functions listed in docs/eng/scenario/functions.md and template
// interpolation; Model always also holds the plain value of every such
// attribute (computed by Eval, the package's own evaluator), which is what the
// YAML rendering shows.
// Opts.ZeroWeights writes some weights as the explicit lower bound 0;
// Opts.YAMLOrder draws the key order of the YAML mappings (so that the document
// may end with any node, e.g. inside a block-scalar body); Opts.FileTails draws
// how the two files end; Opts.YAMLAnchors draws a plan by which user maps of the YAML rendering are written
// through anchors and merge keys (yamlanchor.go). All four are off unless asked for.
//
// # Renderers
//
// RenderYAML marshals ordered yaml.MapSlice values with gopkg.in/yaml.v2
// (RenderYAMLStyled additionally writes the string values named in
// Layout.YAMLStyles the way people do: block scalars, multi-line plain and
// quoted scalars, kept only where yaml.v2 reads them back as intended);
// RenderHCL builds the file with hclwrite (quoted strings escaped by hclwrite,
// heredocs and templates assembled from tokens), block types and labels as
// config.AmmoHCL expects them.
package scengen

import (
	"fmt"
	"sort"
	"strconv"
	"strings"
)

// KV is one entry of an ordered string map.
type KV struct {
	K string `json:"k"`
	V string `json:"v"`
}

// KVs is an ordered string map with unique keys.
type KVs []KV

// Map returns the entries as a Go map.
func (k KVs) Map() map[string]string {
	m := make(map[string]string, len(k))
	for _, e := range k {
		m[e.K] = e.V
	}
	return m
}

// Get looks a key up.
func (k KVs) Get(key string) (string, bool) {
	for _, e := range k {
		if e.K == key {
			return e.V, true
		}
	}
	return "", false
}

// Source kinds.
const (
	SourceCSV       = "file/csv"
	SourceJSON      = "file/json"
	SourceVariables = "variables"
)

// Source is one variable source.
type Source struct {
	Name            string    `json:"name"`
	Type            string    `json:"type"`
	File            *string   `json:"file,omitempty"`
	Fields          *[]string `json:"fields,omitempty"`
	IgnoreFirstLine *bool     `json:"ignore_first_line,omitempty"`
	Delimiter       *string   `json:"delimiter,omitempty"`
	Variables       *KVs      `json:"variables,omitempty"`
	// Content is what the file of a file/csv or file/json source contains.
	Content string `json:"content,omitempty"`
	// RandKeys lists the keys of Variables whose value is a randomisation
	// function call (uuid(), randInt(..), randString(..)): pandora replaces
	// them by a fresh random value when the provider is built.
	RandKeys []string `json:"rand_keys,omitempty"`
	// TypedKeys lists the keys of Variables whose value (an integer or boolean
	// literal in V) is written as a bare number / boolean in both syntaxes
	// (`port = 8090`, `port: 8090`, as in docs/eng/scenario/variable_source.md)
	// instead of as a string.
	TypedKeys []string `json:"typed_keys,omitempty"`
}

// TypedValue returns the value of a `variables` entry: an int64 or a bool for
// the keys listed in TypedKeys, the string otherwise.
func (s Source) TypedValue(e KV) any {
	for _, k := range s.TypedKeys {
		if k != e.K {
			continue
		}
		if e.V == "true" || e.V == "false" {
			return e.V == "true"
		}
		if n, err := strconv.ParseInt(e.V, 10, 64); err == nil {
			return n
		}
	}
	return e.V
}

// Preprocessor is the HTTP request preprocessor (one per request, no type).
type Preprocessor struct {
	Mapping KVs `json:"mapping"`
}

// AssertSize is the `size` block of the HTTP assert/response postprocessor.
type AssertSize struct {
	Val *int   `json:"val,omitempty"`
	Op  string `json:"op"`
}

// HTTP postprocessor kinds.
const (
	PostJsonpath = "var/jsonpath"
	PostXpath    = "var/xpath"
	PostHeader   = "var/header"
	PostAssert   = "assert/response"
)

// Postprocessor is one HTTP postprocessor. var/* kinds use Mapping only,
// assert/response uses Headers, Body, StatusCode and Size.
type Postprocessor struct {
	Type       string      `json:"type"`
	Mapping    *KVs        `json:"mapping,omitempty"`
	Headers    *KVs        `json:"headers,omitempty"`
	Body       *[]string   `json:"body,omitempty"`
	StatusCode *int        `json:"status_code,omitempty"`
	Size       *AssertSize `json:"size,omitempty"`
}

// Request is one HTTP step definition.
type Request struct {
	Name           string          `json:"name"`
	Method         string          `json:"method"`
	URI            string          `json:"uri"`
	Headers        *KVs            `json:"headers,omitempty"`
	Tag            *string         `json:"tag,omitempty"`
	Body           *string         `json:"body,omitempty"`
	Preprocessor   *Preprocessor   `json:"preprocessor,omitempty"`
	Postprocessors []Postprocessor `json:"postprocessors,omitempty"`
	Templater      *string         `json:"templater,omitempty"` // text | html
	// BodyHeredoc asks the HCL renderer to write the body as a heredoc when
	// the value allows it (see HeredocOK).
	BodyHeredoc bool `json:"body_heredoc,omitempty"`
}

// CallPreprocessor is one gRPC preprocessor (type `prepare`).
type CallPreprocessor struct {
	Type    string `json:"type"`
	Mapping KVs    `json:"mapping"`
}

// CallPostprocessor is one gRPC postprocessor (type `assert/response`).
type CallPostprocessor struct {
	Type       string    `json:"type"`
	Payload    *[]string `json:"payload,omitempty"`
	StatusCode *int      `json:"status_code,omitempty"`
}

// Call is one gRPC step definition.
type Call struct {
	Name           string              `json:"name"`
	Call           string              `json:"call"`
	Tag            *string             `json:"tag,omitempty"`
	Metadata       *KVs                `json:"metadata,omitempty"`
	Payload        string              `json:"payload"`
	Preprocessors  []CallPreprocessor  `json:"preprocessors,omitempty"`
	Postprocessors []CallPostprocessor `json:"postprocessors,omitempty"`
	PayloadHeredoc bool                `json:"payload_heredoc,omitempty"`
}

// Step is one entry of a scenario's `requests` list.
type Step struct {
	Sleep bool   `json:"sleep,omitempty"` // sleep(Ms)
	Name  string `json:"name,omitempty"`  // request / call name
	Count *int   `json:"count,omitempty"` // name(Count ...)
	Ms    *int   `json:"ms,omitempty"`    // sleep(Ms) or name(Count, Ms)
	Tight bool   `json:"tight,omitempty"` // "name(2,10)" instead of "name(2, 10)"
}

// String renders the step in the documented grammar.
func (s Step) String() string {
	if s.Sleep {
		ms := 0
		if s.Ms != nil {
			ms = *s.Ms
		}
		return fmt.Sprintf("sleep(%d)", ms)
	}
	if s.Count == nil {
		return s.Name
	}
	if s.Ms == nil {
		return fmt.Sprintf("%s(%d)", s.Name, *s.Count)
	}
	if s.Tight {
		return fmt.Sprintf("%s(%d,%d)", s.Name, *s.Count, *s.Ms)
	}
	return fmt.Sprintf("%s(%d, %d)", s.Name, *s.Count, *s.Ms)
}

// Scenario is one scenario.
type Scenario struct {
	Name           string `json:"name"`
	Weight         *int64 `json:"weight,omitempty"`
	MinWaitingTime *int64 `json:"min_waiting_time,omitempty"`
	Steps          []Step `json:"steps"`
}

// StepStrings is the `requests` list of the scenario.
func (s Scenario) StepStrings() []string {
	out := make([]string, len(s.Steps))
	for i, st := range s.Steps {
		out[i] = st.String()
	}
	return out
}

// ExpandedStep is one executed step of a scenario: the request/call name and
// the pause after it in milliseconds.
type ExpandedStep struct {
	Name    string `json:"name"`
	SleepMs int    `json:"sleep_ms"`
}

// Expand applies the documented grammar: `name(n, ms)` is n steps each
// followed by ms, `sleep(ms)` adds to the pause after the preceding step.
// Because pandora repeats one step value n times, a following sleep() lands
// on the last repetition only.
func (s Scenario) Expand() []ExpandedStep {
	var out []ExpandedStep
	for _, st := range s.Steps {
		if st.Sleep {
			if len(out) > 0 && st.Ms != nil {
				out[len(out)-1].SleepMs += *st.Ms
			}
			continue
		}
		n, ms := 1, 0
		if st.Count != nil {
			n = *st.Count
		}
		if st.Ms != nil {
			ms = *st.Ms
		}
		for i := 0; i < n; i++ {
			out = append(out, ExpandedStep{Name: st.Name, SleepMs: ms})
		}
	}
	return out
}

// Layout holds rendering choices that must not change the meaning.
type Layout struct {
	// HCLOrder is the order in which the top-level block types are written
	// (a permutation of "locals", "variable_source", "step", "scenario").
	HCLOrder []string `json:"hcl_order,omitempty"`
	// YAMLEmptySections writes `requests: []` / `calls: []` /
	// `variable_sources: []` for empty sections instead of leaving them out.
	YAMLEmptySections bool `json:"yaml_empty_sections,omitempty"`
	// YAMLStyles names string values of the YAML rendering (by YAMLSite.Path)
	// that RenderYAMLStyled writes by hand: block scalars, multi-line plain and
	// quoted scalars (see yamlstyle.go). RenderYAML ignores it.
	YAMLStyles map[string]ScalarStyle `json:"yaml_styles,omitempty"`
	// YAMLOrder gives, per mapping of the YAML rendering (path as in YAMLSite.Path: "" is the document,
	// "requests[1]", "requests[0].postprocessors[2]", "scenarios[0]", ...), the order its keys are written in
	// (see yamlorder.go). Keys it does not name follow in the default order; mappings it does not name are
	// written as the documentation's examples write them. The order of keys has no meaning in YAML.
	YAMLOrder map[string][]string `json:"yaml_order,omitempty"`
	// YAMLTail / HCLTail: how the file ends (TailNoNewline, TailBlankLines, TailComment; "" = as rendered, one
	// final newline). RenderYAMLStyled keeps a YAML tail only where yaml.v2 reads the file as before (a block
	// scalar at the end of the document owns the final line breaks); RenderYAML ignores it.
	YAMLTail string `json:"yaml_tail,omitempty"`
	HCLTail  string `json:"hcl_tail,omitempty"`
	// YAMLNoScenariosKey leaves the `scenarios` key out of the YAML rendering of a description WITHOUT scenarios
	// (the twin of an HCL file without a `scenario` block); without it such a description is written
	// `scenarios: []`. It has no effect on a description with scenarios.
	YAMLNoScenariosKey bool `json:"yaml_no_scenarios_key,omitempty"`
	// YAMLAnchors is the plan by which RenderYAMLStyled writes user maps (headers, metadata, mapping, variables)
	// through anchors, aliases and merge keys, optionally with a `locals:` helper block (see yamlanchor.go);
	// nil = no anchors. RenderYAML ignores it.
	YAMLAnchors *YAMLAnchors `json:"yaml_anchors,omitempty"`
}

// Model is one scenario description.
type Model struct {
	Kind      string          `json:"kind"` // http | grpc
	Sources   []Source        `json:"sources,omitempty"`
	Requests  []Request       `json:"requests,omitempty"`
	Calls     []Call          `json:"calls,omitempty"`
	Scenarios []Scenario      `json:"scenarios"`
	Locals    []LocalsBlock   `json:"locals,omitempty"`
	Exprs     map[string]Expr `json:"exprs,omitempty"`
	Layout    Layout          `json:"layout"`
}

// ProviderType is the `type` of the ammo provider that reads this description.
func (m Model) ProviderType() string {
	if m.Kind == "grpc" {
		return "grpc/scenario"
	}
	return "http/scenario"
}

// Files returns name -> content of every file the description refers to.
func (m Model) Files() map[string]string {
	out := map[string]string{}
	for _, s := range m.Sources {
		if s.File != nil && (s.Type == SourceCSV || s.Type == SourceJSON) {
			out[*s.File] = s.Content
		}
	}
	return out
}

// Rebase returns a copy whose source files live under dir (a unique directory
// lets concurrently running cases share one filesystem).
func (m Model) Rebase(dir string) Model {
	c := m
	c.Sources = make([]Source, len(m.Sources))
	for i, s := range m.Sources {
		if s.File != nil {
			f := strings.TrimSuffix(dir, "/") + "/" + strings.TrimPrefix(*s.File, "/")
			s.File = &f
		}
		c.Sources[i] = s
	}
	if len(m.Exprs) > 0 {
		c.Exprs = map[string]Expr{}
		for k, v := range m.Exprs {
			c.Exprs[k] = v
		}
	}
	return c
}

func gcd(a, b int64) int64 {
	for b != 0 {
		a, b = b, a%b
	}
	if a < 0 {
		return -a
	}
	return a
}

// Ring is the documented distribution of scenarios over one full cycle of
// ammo: scenario i occurs weight_i/gcd times (a missing weight counts as 1),
// in file order; a single scenario occurs once.
func (m Model) Ring() []string {
	if len(m.Scenarios) == 0 {
		return nil
	}
	if len(m.Scenarios) == 1 {
		return []string{m.Scenarios[0].Name}
	}
	var g int64
	ws := make([]int64, len(m.Scenarios))
	for i, s := range m.Scenarios {
		w := int64(1)
		if s.Weight != nil && *s.Weight != 0 {
			w = *s.Weight
		}
		ws[i] = w
		g = gcd(g, w)
	}
	var out []string
	for i, s := range m.Scenarios {
		for k := int64(0); k < ws[i]/g; k++ {
			out = append(out, s.Name)
		}
	}
	return out
}

// StepNames returns the names of the defined requests / calls.
func (m Model) StepNames() []string {
	var out []string
	for _, r := range m.Requests {
		out = append(out, r.Name)
	}
	for _, c := range m.Calls {
		out = append(out, c.Name)
	}
	return out
}

// WalkStrings calls f for every string of the description (names, values and
// map keys), with a path that identifies the field.
func (m Model) WalkStrings(f func(path, s string)) {
	kvs := func(p string, k *KVs) {
		if k == nil {
			return
		}
		for _, e := range *k {
			f(p+".key", e.K)
			f(p+".value", e.V)
		}
	}
	strs := func(p string, l *[]string) {
		if l == nil {
			return
		}
		for _, e := range *l {
			f(p, e)
		}
	}
	str := func(p string, s *string) {
		if s != nil {
			f(p, *s)
		}
	}
	for _, s := range m.Sources {
		f("source.name", s.Name)
		str("source.file", s.File)
		strs("source.fields", s.Fields)
		str("source.delimiter", s.Delimiter)
		kvs("source.variables", s.Variables)
	}
	for _, r := range m.Requests {
		f("request.name", r.Name)
		f("request.method", r.Method)
		f("request.uri", r.URI)
		kvs("request.headers", r.Headers)
		str("request.tag", r.Tag)
		str("request.body", r.Body)
		if r.Preprocessor != nil {
			kvs("request.preprocessor.mapping", &r.Preprocessor.Mapping)
		}
		for _, p := range r.Postprocessors {
			kvs("request.postprocessor.mapping", p.Mapping)
			kvs("request.postprocessor.headers", p.Headers)
			strs("request.postprocessor.body", p.Body)
		}
	}
	for _, c := range m.Calls {
		f("call.name", c.Name)
		f("call.call", c.Call)
		str("call.tag", c.Tag)
		kvs("call.metadata", c.Metadata)
		f("call.payload", c.Payload)
		for _, p := range c.Preprocessors {
			kvs("call.preprocessor.mapping", &p.Mapping)
		}
		for _, p := range c.Postprocessors {
			strs("call.postprocessor.payload", p.Payload)
		}
	}
	for _, s := range m.Scenarios {
		f("scenario.name", s.Name)
	}
}

// ExprPaths returns the sorted attribute paths that are written as expressions in HCL.
func (m Model) ExprPaths() []string {
	out := make([]string, 0, len(m.Exprs))
	for k := range m.Exprs {
		out = append(out, k)
	}
	sort.Strings(out)
	return out
}
