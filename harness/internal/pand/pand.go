// Package pand initialises pandora's global plugin registry exactly once per
// process (the Import functions panic when called twice) on a process-wide
// in-memory filesystem, and offers small helpers shared by the checks.
package pand

import (
	"fmt"
	"sync"
	"sync/atomic"

	"github.com/spf13/afero"
	grpcimport "github.com/yandex/pandora/components/grpc/import"
	phttp "github.com/yandex/pandora/components/phttp/import"
	"github.com/yandex/pandora/core/config"
	"github.com/yandex/pandora/core/engine"
	coreimport "github.com/yandex/pandora/core/import"
	"github.com/yandex/pandora/lib/monitoring"
	"go.uber.org/zap"
)

var (
	once sync.Once
	fs   afero.Fs
	seq  atomic.Int64
)

// Init registers all built-in components on the shared mem fs.
func Init() afero.Fs {
	once.Do(func() {
		fs = afero.NewMemMapFs()
		coreimport.Import(fs)
		phttp.Import(fs)
		grpcimport.Import(fs)
	})
	return fs
}

// FS returns the shared in-memory filesystem.
func FS() afero.Fs { return Init() }

// TempName returns a process-unique file name on the shared fs.
func TempName(prefix, ext string) string {
	return fmt.Sprintf("/%s-%d%s", prefix, seq.Add(1), ext)
}

// WriteFile writes data under a fresh unique name and returns the name.
func WriteFile(prefix, ext string, data []byte) string {
	name := TempName(prefix, ext)
	if err := afero.WriteFile(FS(), name, data, 0o644); err != nil {
		panic(err)
	}
	return name
}

// Remove deletes a file from the shared fs.
func Remove(name string) { _ = FS().Remove(name) }

// Decode runs pandora's real config decoding + validation.
func Decode(conf any, result any) error {
	Init()
	return config.DecodeAndValidate(conf, result)
}

// Metrics returns fresh engine metrics counters.
func Metrics() engine.Metrics {
	return engine.Metrics{
		Request:        &monitoring.Counter{},
		Response:       &monitoring.Counter{},
		InstanceStart:  &monitoring.Counter{},
		InstanceFinish: &monitoring.Counter{},
	}
}

// NopLog is a logger that drops everything.
func NopLog() *zap.Logger { return zap.NewNop() }
