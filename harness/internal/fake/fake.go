// Package fake holds recording doubles of the engine's collaborators (provider,
// gun factory/gun, aggregator, schedule wrapper) with generated fault and delay
// plans. All history is kept in the doubles; nothing is asserted here.
package fake

import (
	"context"
	"errors"
	"fmt"
	"sync"
	"sync/atomic"
	"time"

	"verif/harness/internal/vf"

	pkgerrors "github.com/pkg/errors"
	"github.com/yandex/pandora/core"
	"github.com/yandex/pandora/core/aggregator/netsample"
	"github.com/yandex/pandora/core/warmup"
)

// InjectedError is the sentinel carried by every injected fault.
type InjectedError struct{ Where string }

func (e *InjectedError) Error() string { return "injected fault: " + e.Where }

// ownDeadlineError is a component failure whose cause is the component's OWN deadline (e.g. a flush that timed
// out): the text carries the injected marker, Cause()/Unwrap() lead to context.DeadlineExceeded. The engine's
// contexts in the harness are only ever cancelled, never expire, so this is not "the run's context error".
type ownDeadlineError struct{ where string }

func (e *ownDeadlineError) Error() string {
	return "injected fault: " + e.where + ": flush timed out: " + context.DeadlineExceeded.Error()
}
func (e *ownDeadlineError) Cause() error  { return context.DeadlineExceeded }
func (e *ownDeadlineError) Unwrap() error { return context.DeadlineExceeded }

// shaped builds the error a faulty component returns: "" the bare sentinel, "wrapped" fmt %w, "pkg_wrapped"
// pkg/errors.Wrap, "own_deadline" see ownDeadlineError.
func shaped(shape, where string) error {
	switch shape {
	case "wrapped":
		return fmt.Errorf("component failed: %w", &InjectedError{Where: where})
	case "pkg_wrapped":
		return pkgerrors.Wrap(&InjectedError{Where: where}, "component failed")
	case "own_deadline":
		return &ownDeadlineError{where: where}
	}
	return &InjectedError{Where: where}
}

// PanicMarkerInt is the value of an int-typed injected panic.
const PanicMarkerInt = 7340033

type panicStruct struct{ M string }

// IsInjected reports whether err's chain (errors.Is/As, pkg/errors.Cause, fmt %w) holds an InjectedError for where.
func IsInjected(err error, where string) bool {
	for e := err; e != nil; {
		var ie *InjectedError
		if errors.As(e, &ie) {
			if where == "" || ie.Where == where {
				return true
			}
		}
		type causer interface{ Cause() error }
		if c, ok := e.(causer); ok {
			e = c.Cause()
			continue
		}
		e = errors.Unwrap(e)
	}
	return false
}

func sleepUs(us int) {
	if us > 0 {
		time.Sleep(time.Duration(us) * time.Microsecond)
	}
}

// ---------------- provider ----------------

type Item struct {
	ID               int
	acquired         atomic.Int32
	released         atomic.Int32
	shots            atomic.Int32
	usedAfterRelease atomic.Bool
}

func (i *Item) Acquired() int          { return int(i.acquired.Load()) }
func (i *Item) Released() int          { return int(i.released.Load()) }
func (i *Item) Shots() int             { return int(i.shots.Load()) }
func (i *Item) UsedAfterRelease() bool { return i.usedAfterRelease.Load() }

type ProviderPlan struct {
	Total     int    `json:"total"`      // number of ammo items, <0 = unbounded
	Queue     int    `json:"queue"`      // channel buffer
	AfterLast string `json:"after_last"` // "return" | "wait_ctx" (block until cancelled, then nil) | "wait_ctx_err" (then ctx.Err())
	Fault     string `json:"fault"`      // "" | "before_first" | "after_k" | "at_end"
	FaultK    int    `json:"fault_k"`
	FaultUs   int    `json:"fault_delay_us"`      // delay before the faulty return
	ErrShape  string `json:"err_shape,omitempty"` // see shaped()
	AcquireUs int    `json:"acquire_delay_us"`
}

type Provider struct {
	Plan ProviderPlan
	ch   chan *Item

	mu           sync.Mutex
	Items        []*Item
	unknownRel   int
	RunStarted   atomic.Bool
	RunReturned  atomic.Bool
	RunReturnAt  atomic.Int64 // unix nano
	FaultReached atomic.Bool
	RunErr       error
	ExhaustedAt  atomic.Int64 // unix nano when the last item was queued and the channel closed
	closeOnce    sync.Once
}

func NewProvider(p ProviderPlan) *Provider {
	return &Provider{Plan: p, ch: make(chan *Item, p.Queue)}
}

func (p *Provider) closeCh() { p.closeOnce.Do(func() { close(p.ch) }) }

func (p *Provider) Run(ctx context.Context, _ core.ProviderDeps) (err error) {
	p.RunStarted.Store(true)
	defer func() {
		p.RunErr = err
		p.closeCh()
		p.RunReturnAt.Store(time.Now().UnixNano())
		p.RunReturned.Store(true)
	}()
	fault := func(where string) error {
		sleepUs(p.Plan.FaultUs)
		p.FaultReached.Store(true)
		return shaped(p.Plan.ErrShape, where)
	}
	if p.Plan.Fault == "before_first" {
		return fault("provider")
	}
	for i := 0; p.Plan.Total < 0 || i < p.Plan.Total; i++ {
		if p.Plan.Fault == "after_k" && i == p.Plan.FaultK {
			return fault("provider")
		}
		it := &Item{ID: i}
		p.mu.Lock()
		p.Items = append(p.Items, it)
		p.mu.Unlock()
		select {
		case p.ch <- it:
		case <-ctx.Done():
			// item i was never delivered
			p.mu.Lock()
			p.Items = p.Items[:len(p.Items)-1]
			p.mu.Unlock()
			if p.Plan.Fault == "at_end" {
				return fault("provider")
			}
			if p.Plan.AfterLast == "wait_ctx_err" {
				return ctx.Err()
			}
			return nil
		}
	}
	p.ExhaustedAt.Store(time.Now().UnixNano())
	p.closeCh()
	switch p.Plan.AfterLast {
	case "wait_ctx", "wait_ctx_err":
		<-ctx.Done()
		if p.Plan.Fault == "at_end" {
			return fault("provider")
		}
		if p.Plan.AfterLast == "wait_ctx_err" {
			return ctx.Err()
		}
		return nil
	}
	if p.Plan.Fault == "at_end" {
		<-ctx.Done()
		return fault("provider")
	}
	return nil
}

func (p *Provider) Acquire() (core.Ammo, bool) {
	sleepUs(p.Plan.AcquireUs)
	it, ok := <-p.ch
	if !ok {
		return nil, false
	}
	it.acquired.Add(1)
	return it, true
}

func (p *Provider) Release(a core.Ammo) {
	it, ok := a.(*Item)
	if !ok {
		p.mu.Lock()
		p.unknownRel++
		p.mu.Unlock()
		return
	}
	it.released.Add(1)
}

// Delivered returns the items handed to consumers (acquired at least once).
func (p *Provider) Delivered() []*Item {
	p.mu.Lock()
	defer p.mu.Unlock()
	var out []*Item
	for _, it := range p.Items {
		if it.Acquired() > 0 {
			out = append(out, it)
		}
	}
	return out
}

func (p *Provider) UnknownReleases() int {
	p.mu.Lock()
	defer p.mu.Unlock()
	return p.unknownRel
}

// ---------------- guns ----------------

type GunPlan struct {
	ShotUs       []int `json:"shot_us"`        // cyclic per-gun shot durations (microseconds)
	PanicAtShot  int   `json:"panic_at_shot"`  // global shot index that panics (-1 none)
	FactoryErrAt int   `json:"factory_err_at"` // factory call index that fails (-1 none; call 0 is the warm-up probe)
	BindErrAt    int   `json:"bind_err_at"`    // Bind call index that fails (-1 none)
	WarmUp       bool  `json:"warmup"`         // guns implement warmup.WarmedUp
	WarmUpErr    bool  `json:"warmup_err"`
	Closer       bool  `json:"closer"`  // guns implement io.Closer
	Reports      int   `json:"reports"` // samples reported per shot
	FaultUs      int   `json:"fault_delay_us"`
	// PanicKind: what the panicking shot panics with: "" *InjectedError | string | int | struct | bytes | runtime
	PanicKind string `json:"panic_kind,omitempty"`
	// Plain (non-fault) slowness of steps that do not look at any context: the factory call number FactoryDelayAt
	// (-1 = every call) sleeps FactoryDelayUs before it does anything else, every WarmUp sleeps WarmUpDelayUs.
	// Zero = no delay. The sleeps are recorded as StepSpans.
	FactoryDelayUs int `json:"factory_delay_us,omitempty"`
	FactoryDelayAt int `json:"factory_delay_at,omitempty"`
	WarmUpDelayUs  int `json:"warmup_delay_us,omitempty"`
	// CloseDelayUs: how long Close of the gun bound to instance i takes, cyclic over the instance ids (empty or 0 =
	// instant). A gun counts as closed (Closed, ClosedAt) only once its Close has returned; CloseEntered counts the
	// calls at their entry.
	CloseDelayUs []int `json:"close_delay_us,omitempty"`
	// ShotCtx: a shot is a request that is aborted when the gun's context (GunDeps.Ctx) is done: its duration
	// (ShotUs) is waited for with an eye on that context instead of being slept blindly. False = blind sleep.
	ShotCtx bool `json:"shot_ctx,omitempty"`
}

// StepSpan is one plain delay a double spent inside a step that ignores contexts.
type StepSpan struct {
	Kind       string // factory | warmup
	Call       int
	Start, End time.Time
}

type ShotRec struct {
	Gun      int
	Instance int
	ItemID   int
	G        int64
	Enter    time.Time
	Exit     time.Time
	// CtxDone: the gun's own context (GunDeps.Ctx, what a real gun makes its requests with) was already done when the
	// shot began
	CtxDone bool
}

type GunWorld struct {
	Plan GunPlan

	factoryCalls atomic.Int32
	bindCalls    atomic.Int32
	shotIdx      atomic.Int32

	mu           sync.Mutex
	Guns         []*Gun
	Shots        []ShotRec
	Overlaps     int
	FaultReached map[string]bool
	WarmUps      int
	spans        []StepSpan
}

// slowStep sleeps us microseconds (nothing if us <= 0) and records the span.
func (w *GunWorld) slowStep(kind string, call, us int) {
	if us <= 0 {
		return
	}
	sp := StepSpan{Kind: kind, Call: call, Start: time.Now()}
	sleepUs(us)
	sp.End = time.Now()
	w.mu.Lock()
	w.spans = append(w.spans, sp)
	w.mu.Unlock()
}

// StepSpans returns the plain delays spent so far (finished ones only).
func (w *GunWorld) StepSpans() []StepSpan {
	w.mu.Lock()
	defer w.mu.Unlock()
	return append([]StepSpan(nil), w.spans...)
}

// ShotCount returns the number of finished shots.
func (w *GunWorld) ShotCount() int {
	w.mu.Lock()
	defer w.mu.Unlock()
	return len(w.Shots)
}

// ShotsSnapshot returns the finished shots recorded so far (safe while shots may still be in progress).
func (w *GunWorld) ShotsSnapshot() []ShotRec {
	w.mu.Lock()
	defer w.mu.Unlock()
	return append([]ShotRec(nil), w.Shots...)
}

func NewGunWorld(p GunPlan) *GunWorld {
	return &GunWorld{Plan: p, FaultReached: map[string]bool{}}
}

func (w *GunWorld) reach(k string) {
	w.mu.Lock()
	w.FaultReached[k] = true
	w.mu.Unlock()
}

func (w *GunWorld) Reached(k string) bool {
	w.mu.Lock()
	defer w.mu.Unlock()
	return w.FaultReached[k]
}

type Gun struct {
	w         *GunWorld
	Idx       int
	CreatedAt time.Time
	Bound     atomic.Bool
	BindOK    bool
	Deps      core.GunDeps
	Aggr      core.Aggregator
	inShot    atomic.Int32
	nShots    int
	Closed    atomic.Int32
	ClosedAt  atomic.Int64
	IsWarmUp  bool
	// CloseEntered counts Close calls at their entry (Closed counts them at their return).
	CloseEntered atomic.Int32
}

type closerGun struct{ *Gun }

func (g closerGun) Close() error {
	g.Gun.CloseEntered.Add(1)
	sleepUs(g.Gun.CloseDelay())
	g.Gun.Closed.Add(1)
	g.Gun.ClosedAt.Store(time.Now().UnixNano())
	return nil
}

// CloseDelay is the planned duration (microseconds) of this gun's Close: GunPlan.CloseDelayUs by the id of the
// instance the gun was bound to (0 for a gun that was never bound).
func (g *Gun) CloseDelay() int {
	n := len(g.w.Plan.CloseDelayUs)
	if n == 0 || !g.Bound.Load() {
		return 0
	}
	id := g.Deps.InstanceID
	if id < 0 {
		id = -id
	}
	return g.w.Plan.CloseDelayUs[id%n]
}

// GunsSnapshot returns the guns created so far (safe while factory calls may still be in progress).
func (w *GunWorld) GunsSnapshot() []*Gun {
	w.mu.Lock()
	defer w.mu.Unlock()
	return append([]*Gun(nil), w.Guns...)
}

type warmGun struct{ *Gun }

func (g warmGun) WarmUp(*warmup.Options) (interface{}, error) { return g.Gun.warmUp() }

type warmCloserGun struct{ *Gun }

func (g warmCloserGun) WarmUp(*warmup.Options) (interface{}, error) { return g.Gun.warmUp() }
func (g warmCloserGun) Close() error                                { return closerGun{g.Gun}.Close() }

func (g *Gun) warmUp() (interface{}, error) {
	g.w.mu.Lock()
	g.w.WarmUps++
	n := g.w.WarmUps - 1
	g.w.mu.Unlock()
	g.IsWarmUp = true
	g.w.slowStep("warmup", n, g.w.Plan.WarmUpDelayUs)
	if g.w.Plan.WarmUpErr {
		sleepUs(g.w.Plan.FaultUs)
		g.w.reach("warmup")
		return nil, &InjectedError{Where: "warmup"}
	}
	return "shared-deps", nil
}

// Factory is the NewGun function handed to the pool.
func (w *GunWorld) Factory() (core.Gun, error) {
	n := int(w.factoryCalls.Add(1)) - 1
	if w.Plan.FactoryDelayAt < 0 || n == w.Plan.FactoryDelayAt {
		w.slowStep("factory", n, w.Plan.FactoryDelayUs)
	}
	if w.Plan.FactoryErrAt >= 0 && n == w.Plan.FactoryErrAt {
		sleepUs(w.Plan.FaultUs)
		w.reach("factory")
		return nil, &InjectedError{Where: "factory"}
	}
	g := &Gun{w: w, CreatedAt: time.Now()}
	w.mu.Lock()
	g.Idx = len(w.Guns)
	w.Guns = append(w.Guns, g)
	w.mu.Unlock()
	switch {
	case w.Plan.WarmUp && w.Plan.Closer:
		return warmCloserGun{g}, nil
	case w.Plan.WarmUp:
		return warmGun{g}, nil
	case w.Plan.Closer:
		return closerGun{g}, nil
	}
	return g, nil
}

func (w *GunWorld) FactoryCalls() int { return int(w.factoryCalls.Load()) }

func (g *Gun) Bind(aggr core.Aggregator, deps core.GunDeps) error {
	n := int(g.w.bindCalls.Add(1)) - 1
	g.Bound.Store(true)
	g.Deps = deps
	g.Aggr = aggr
	if g.w.Plan.BindErrAt >= 0 && n == g.w.Plan.BindErrAt {
		sleepUs(g.w.Plan.FaultUs)
		g.w.reach("bind")
		return &InjectedError{Where: "bind"}
	}
	g.BindOK = true
	return nil
}

func (g *Gun) Shoot(ammo core.Ammo) {
	enter := time.Now()
	ctxDone := g.Deps.Ctx != nil && g.Deps.Ctx.Err() != nil
	overlap := !g.inShot.CompareAndSwap(0, 1)
	idx := int(g.w.shotIdx.Add(1)) - 1
	it, _ := ammo.(*Item)
	itemID := -1
	if it != nil {
		itemID = it.ID
		if it.Released() > 0 {
			it.usedAfterRelease.Store(true)
		}
		it.shots.Add(1)
	}
	dur := 0
	if n := len(g.w.Plan.ShotUs); n > 0 {
		dur = g.w.Plan.ShotUs[g.nShots%n]
	}
	g.nShots++
	if g.w.Plan.ShotCtx && g.Deps.Ctx != nil && dur > 0 {
		tm := time.NewTimer(time.Duration(dur) * time.Microsecond)
		select {
		case <-tm.C:
		case <-g.Deps.Ctx.Done():
			tm.Stop()
		}
	} else {
		sleepUs(dur)
	}
	for i := 0; i < g.w.Plan.Reports; i++ {
		s := netsample.Acquire(fmt.Sprintf("g%d", g.Idx))
		s.SetProtoCode(200)
		g.Aggr.Report(s)
	}
	if it != nil && it.Released() > 0 {
		it.usedAfterRelease.Store(true)
	}
	rec := ShotRec{Gun: g.Idx, Instance: g.Deps.InstanceID, ItemID: itemID, G: vf.GoID(), Enter: enter, Exit: time.Now(), CtxDone: ctxDone}
	g.w.mu.Lock()
	g.w.Shots = append(g.w.Shots, rec)
	if overlap {
		g.w.Overlaps++
	}
	g.w.mu.Unlock()
	if !overlap {
		g.inShot.Store(0)
	}
	if g.w.Plan.PanicAtShot >= 0 && idx == g.w.Plan.PanicAtShot {
		g.w.reach("shot_panic")
		switch g.w.Plan.PanicKind {
		case "string":
			panic("injected fault: shot_panic")
		case "int":
			panic(PanicMarkerInt)
		case "struct":
			panic(panicStruct{M: "injected fault: shot_panic"})
		case "bytes":
			panic([]byte("injected fault: shot_panic"))
		case "runtime":
			var m map[string]int
			m["injected"] = 1 // runtime error: assignment to entry in nil map
		}
		panic(&InjectedError{Where: "shot_panic"})
	}
}

// ---------------- aggregator ----------------

type AggPlan struct {
	Fault    string `json:"fault"` // "" | "start" | "after_k" | "at_end"
	FaultK   int    `json:"fault_k"`
	FaultUs  int    `json:"fault_delay_us"`
	ErrShape string `json:"err_shape,omitempty"` // see shaped()
}

type Aggregator struct {
	Plan AggPlan

	mu           sync.Mutex
	Reports      int
	Discarded    int
	Tags         []string
	ReportTimes  []time.Time
	ReportG      []int64
	kCh          chan struct{}
	kOnce        sync.Once
	RunStarted   atomic.Bool
	RunReturned  atomic.Bool
	RunReturnAt  atomic.Int64
	FaultReached atomic.Bool
	RunErr       error
	KeepTags     bool
}

func NewAggregator(p AggPlan) *Aggregator {
	return &Aggregator{Plan: p, kCh: make(chan struct{})}
}

func (a *Aggregator) Run(ctx context.Context, _ core.AggregatorDeps) (err error) {
	a.RunStarted.Store(true)
	defer func() {
		a.RunErr = err
		a.RunReturnAt.Store(time.Now().UnixNano())
		a.RunReturned.Store(true)
	}()
	fault := func() error {
		sleepUs(a.Plan.FaultUs)
		a.FaultReached.Store(true)
		return shaped(a.Plan.ErrShape, "aggregator")
	}
	switch a.Plan.Fault {
	case "start":
		return fault()
	case "after_k":
		select {
		case <-a.kCh:
			return fault()
		case <-ctx.Done():
			return nil
		}
	case "at_end":
		<-ctx.Done()
		return fault()
	}
	<-ctx.Done()
	return nil
}

func (a *Aggregator) Report(s core.Sample) {
	now := time.Now()
	a.mu.Lock()
	a.Reports++
	n := a.Reports
	if ns, ok := s.(*netsample.Sample); ok {
		if ns.Tags() == netsample.DiscardedShootTag {
			a.Discarded++
		}
		if a.KeepTags {
			a.Tags = append(a.Tags, ns.Tags())
			a.ReportTimes = append(a.ReportTimes, now)
			a.ReportG = append(a.ReportG, vf.GoID())
		}
	}
	a.mu.Unlock()
	if a.Plan.Fault == "after_k" && n > a.Plan.FaultK {
		a.kOnce.Do(func() { close(a.kCh) })
	}
	if b, ok := s.(core.BorrowedSample); ok {
		b.Return()
	}
}

func (a *Aggregator) Counts() (reports, discarded int) {
	a.mu.Lock()
	defer a.mu.Unlock()
	return a.Reports, a.Discarded
}

// ---------------- schedule wrapper ----------------

type NextRec struct {
	G      int64
	Before time.Time
	After  time.Time
	Tx     time.Time
	OK     bool
}

// Sched passes through to a real schedule and logs every Next.
type Sched struct {
	core.Schedule
	mu    sync.Mutex
	Nexts []NextRec
}

func WrapSched(s core.Schedule) *Sched { return &Sched{Schedule: s} }

func (s *Sched) Next() (time.Time, bool) {
	b := time.Now()
	tx, ok := s.Schedule.Next()
	a := time.Now()
	s.mu.Lock()
	s.Nexts = append(s.Nexts, NextRec{G: vf.GoID(), Before: b, After: a, Tx: tx, OK: ok})
	s.mu.Unlock()
	return tx, ok
}

func (s *Sched) Log() []NextRec {
	s.mu.Lock()
	defer s.mu.Unlock()
	return append([]NextRec(nil), s.Nexts...)
}
