//go:build linux

package target

import (
	"context"
	"crypto/tls"
	"fmt"
	"io"
	"log"
	"net"
	"net/http"
	"net/http/httptest"
	"sync"
	"syscall"
)

// GoAway is a TCP listener on 127.0.0.1 that can stop listening while its port stays reserved: from then on every
// connection attempt is refused (ECONNREFUSED), and no other process can be given the port meanwhile (a plainly
// closed listener's port may be handed to the next bind(0) of a neighbouring test process, whose target would then
// be shot at).
//
// The port is held by a second socket that is bound to it but never listens; both carry SO_REUSEPORT so that they may
// share the port, the holder carries no SO_REUSEADDR so that automatic port selection of other sockets skips it.
type GoAway struct {
	ln     net.Listener
	holder int // fd of the bound, never listening socket
	addr   string

	mu       sync.Mutex
	after    int // stop listening once that many connections were accepted; < 0: never
	accepted int
	down     bool
	closed   chan struct{}
	once     sync.Once
}

// ListenGoAway opens the listener. It stops listening by itself right before handing out its after-th connection
// (after == 0: nothing ever listens, the port is only reserved; after < 0: only Down() stops it).
func ListenGoAway(after int) (*GoAway, error) {
	fd, err := syscall.Socket(syscall.AF_INET, syscall.SOCK_STREAM|syscall.SOCK_CLOEXEC, 0)
	if err != nil {
		return nil, err
	}
	if err = syscall.SetsockoptInt(fd, syscall.SOL_SOCKET, soReusePort, 1); err != nil {
		_ = syscall.Close(fd)
		return nil, err
	}
	if err = syscall.Bind(fd, &syscall.SockaddrInet4{Addr: [4]byte{127, 0, 0, 1}}); err != nil {
		_ = syscall.Close(fd)
		return nil, err
	}
	sa, err := syscall.Getsockname(fd)
	if err != nil {
		_ = syscall.Close(fd)
		return nil, err
	}
	port := sa.(*syscall.SockaddrInet4).Port
	g := &GoAway{holder: fd, addr: fmt.Sprintf("127.0.0.1:%d", port), after: after, closed: make(chan struct{})}
	if after == 0 {
		g.down = true
		return g, nil
	}
	lc := net.ListenConfig{Control: func(network, address string, c syscall.RawConn) error {
		var serr error
		if cerr := c.Control(func(fd uintptr) {
			serr = syscall.SetsockoptInt(int(fd), syscall.SOL_SOCKET, soReusePort, 1)
		}); cerr != nil {
			return cerr
		}
		return serr
	}}
	g.ln, err = lc.Listen(context.Background(), "tcp4", g.addr)
	if err != nil {
		_ = syscall.Close(fd)
		return nil, err
	}
	return g, nil
}

// HostPort is the address to shoot at.
func (g *GoAway) HostPort() string { return g.addr }

// Down stops listening now (connections waiting in the backlog are reset by the kernel); the port stays reserved.
func (g *GoAway) Down() {
	g.mu.Lock()
	defer g.mu.Unlock()
	if !g.down {
		g.down = true
		if g.ln != nil {
			_ = g.ln.Close()
		}
	}
}

// IsDown tells whether the listener has stopped listening.
func (g *GoAway) IsDown() bool {
	g.mu.Lock()
	defer g.mu.Unlock()
	return g.down
}

// Accepted is the number of connections handed out.
func (g *GoAway) Accepted() int {
	g.mu.Lock()
	defer g.mu.Unlock()
	return g.accepted
}

func (g *GoAway) Accept() (net.Conn, error) {
	if g.IsDown() {
		<-g.closed // keep the server's accept loop parked until Close
		return nil, net.ErrClosed
	}
	c, err := g.ln.Accept()
	if err != nil {
		if g.IsDown() {
			<-g.closed
			return nil, net.ErrClosed
		}
		return nil, err
	}
	g.mu.Lock()
	g.accepted++
	last := g.after > 0 && g.accepted >= g.after
	g.mu.Unlock()
	if last {
		g.Down() // before the connection is served: whoever dials after its answer is refused
	}
	return c, nil
}

// Close stops listening and releases the port.
func (g *GoAway) Close() error {
	g.Down()
	g.once.Do(func() {
		close(g.closed)
		_ = syscall.Close(g.holder)
	})
	return nil
}

func (g *GoAway) Addr() net.Addr {
	a, _ := net.ResolveTCPAddr("tcp4", g.addr)
	return a
}

// NewHTTPOn is NewHTTP serving on a listener of the caller's making (with useTLS the listener is wrapped into TLS:
// a proxy reached with `connect-ssl: true` by the connect gun, or an https target). Close closes the listener too.
func NewHTTPOn(l net.Listener, useTLS bool) *HTTP {
	h := &HTTP{tls: useTLS}
	srv := httptest.NewUnstartedServer(http.HandlerFunc(h.handle))
	_ = srv.Listener.Close()
	srv.Listener = l
	srv.Config.ConnContext = func(ctx context.Context, c net.Conn) context.Context {
		id := h.connID.Add(1)
		h.conns.Add(1)
		return context.WithValue(ctx, connKey{}, id)
	}
	srv.Config.ErrorLog = log.New(io.Discard, "", 0) // refused TLS handshakes are part of the scripts
	srv.Config.IdleTimeout = 0
	if useTLS {
		srv.TLS = &tls.Config{NextProtos: []string{"http/1.1"}}
		srv.StartTLS()
	} else {
		srv.Start()
	}
	h.Srv = srv
	return h
}

const soReusePort = 0xf // SO_REUSEPORT on linux (absent from package syscall on some architectures)
