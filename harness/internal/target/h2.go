package target

import (
	"context"
	"crypto/tls"
	"errors"
	"io"
	"log"
	"net"
	"net/http"
	"net/http/httptest"
	"strconv"
	"strings"
	"sync"
	"sync/atomic"
	"time"
)

// Handshake failure kinds an H2 target can be scripted with. The first three make crypto/tls answer the ClientHello
// with a TLS alert (internal_error, unrecognized_name, protocol_version); HsClose closes the TCP connection without
// any alert.
const (
	HsOK               = ""
	HsInternalError    = "internal_error"
	HsUnrecognizedName = "unrecognized_name"
	HsProtocolVersion  = "protocol_version"
	HsClose            = "close"
)

// HsAlertKinds are the handshake failures that are a TLS alert sent by the target.
var HsAlertKinds = []string{HsInternalError, HsUnrecognizedName, HsProtocolVersion}

// H2Resp scripts the answer to one request of an H2 target: a normal response (Resp.Hijack is ignored, HTTP/2 has no
// hijacking) or one of the stream / connection level faults.
type H2Resp struct {
	Resp
	// AbortStream: the handler gives up without an answer (RST_STREAM on HTTP/2).
	AbortStream bool
	// AbortAfterHeaders: status and a first piece of the body are flushed, then the stream is reset.
	AbortAfterHeaders bool
	// KillConn: the TCP connection under the request is closed before any answer.
	KillConn bool
	// DeclaredLen, when > 0, is sent as Content-Length although only Body is written.
	DeclaredLen int
}

type h2ConnKey struct{}

type h2Conn struct {
	id int64
	c  net.Conn
	hs atomic.Int64 // index (since Reset) of the handshake made on this connection
}

// H2 is a recording TLS target that negotiates HTTP/2 by ALPN (or, built with h2 = false, only HTTP/1.1) whose script
// can fail individual TLS handshakes and answer individual requests badly.
type H2 struct {
	Srv *httptest.Server
	h2  bool

	mu       sync.Mutex
	recs     []Rec
	hs       []string // outcome of every handshake since Reset, in order
	script   func(seq int, r *Rec, hs int) H2Resp
	hsScript func(k int) string
	connID   atomic.Int64
}

// NewH2 starts the target. With h2 == false the target offers only "http/1.1" by ALPN: the documented fatal condition
// of the http2 guns.
func NewH2(h2 bool) *H2 {
	h := &H2{h2: h2}
	srv := httptest.NewUnstartedServer(http.HandlerFunc(h.handle))
	srv.EnableHTTP2 = h2
	srv.Config.ConnContext = func(ctx context.Context, c net.Conn) context.Context {
		hc := &h2Conn{id: h.connID.Add(1), c: c}
		hc.hs.Store(-1)
		return context.WithValue(ctx, h2ConnKey{}, hc)
	}
	srv.Config.ErrorLog = log.New(io.Discard, "", 0) // scripted handshake failures are not news
	srv.Config.IdleTimeout = 0
	srv.TLS = &tls.Config{GetConfigForClient: h.configForClient}
	if !h2 {
		srv.TLS.NextProtos = []string{"http/1.1"}
	}
	srv.StartTLS()
	h.Srv = srv
	return h
}

func (h *H2) configForClient(hello *tls.ClientHelloInfo) (*tls.Config, error) {
	h.mu.Lock()
	k := len(h.hs)
	kind := HsOK
	if h.hsScript != nil {
		kind = h.hsScript(k)
	}
	h.hs = append(h.hs, kind)
	h.mu.Unlock()
	// net/http hands the connection's context (ConnContext) to the handshake
	if hc, ok := hello.Context().Value(h2ConnKey{}).(*h2Conn); ok {
		hc.hs.Store(int64(k))
	}
	switch kind {
	case HsInternalError:
		return nil, errors.New("scripted: tls terminator sheds load") // alert 80 internal_error
	case HsUnrecognizedName:
		return &tls.Config{NextProtos: []string{"h2"}}, nil // no certificate for any name: alert 112 unrecognized_name
	case HsProtocolVersion:
		// the guns offer TLS >= 1.2: alert 70 protocol_version
		return &tls.Config{MaxVersion: tls.VersionTLS11, Certificates: h.Srv.TLS.Certificates, NextProtos: []string{"h2"}}, nil
	case HsClose:
		_ = hello.Conn.Close()
		return nil, errors.New("scripted: connection dropped")
	}
	return nil, nil
}

// Addr is host:port of the listener.
func (h *H2) Addr() string { return strings.TrimPrefix(h.Srv.URL, "https://") }

func (h *H2) Close() { h.Srv.Close() }

// Reset forgets records and handshake history and installs the scripts: hsScript names the outcome of the k-th
// handshake since Reset (nil or HsOK = succeeds), script the answer to a request (nil = 200 "ok"); script also gets
// the index hs of the handshake that set up the connection the request arrived on (-1 if unknown).
func (h *H2) Reset(hsScript func(k int) string, script func(seq int, r *Rec, hs int) H2Resp) {
	h.mu.Lock()
	h.recs = nil
	h.hs = nil
	h.hsScript = hsScript
	h.script = script
	h.mu.Unlock()
}

func (h *H2) Records() []Rec {
	h.mu.Lock()
	defer h.mu.Unlock()
	return append([]Rec(nil), h.recs...)
}

// Handshakes is the scripted outcome of every handshake begun since Reset, in order.
func (h *H2) Handshakes() []string {
	h.mu.Lock()
	defer h.mu.Unlock()
	return append([]string(nil), h.hs...)
}

func (h *H2) handle(w http.ResponseWriter, r *http.Request) {
	body, _ := io.ReadAll(r.Body)
	hc, _ := r.Context().Value(h2ConnKey{}).(*h2Conn)
	rec := Rec{Method: r.Method, RequestURI: r.RequestURI, Host: r.Host, Header: r.Header.Clone(), Body: body,
		TLS: r.TLS != nil, Proto: r.Proto, At: time.Now()}
	if hc != nil {
		rec.ConnID = hc.id
	}
	h.mu.Lock()
	rec.Seq = len(h.recs)
	h.recs = append(h.recs, rec)
	script := h.script
	h.mu.Unlock()
	hs := -1
	if hc != nil {
		hs = int(hc.hs.Load())
	}
	resp := H2Resp{Resp: Resp{Status: 200, Body: []byte("ok")}}
	if script != nil {
		resp = script(rec.Seq, &rec, hs)
	}
	if resp.DelayMs > 0 {
		time.Sleep(time.Duration(resp.DelayMs) * time.Millisecond)
	}
	if resp.KillConn && hc != nil {
		// abruptly: closing the tls.Conn itself would first send a close_notify alert
		if tc, ok := hc.c.(*tls.Conn); ok {
			_ = tc.NetConn().Close()
		} else {
			_ = hc.c.Close()
		}
		panic(http.ErrAbortHandler)
	}
	if resp.AbortStream {
		panic(http.ErrAbortHandler)
	}
	for k, v := range resp.Header {
		w.Header().Set(k, v)
	}
	if resp.DeclaredLen > 0 {
		w.Header().Set("Content-Length", strconv.Itoa(resp.DeclaredLen))
	}
	if resp.Status == 0 {
		resp.Status = 200
	}
	w.WriteHeader(resp.Status)
	if r.Method == http.MethodHead {
		return
	}
	fl, _ := w.(http.Flusher)
	if resp.AbortAfterHeaders {
		_, _ = w.Write([]byte("partial"))
		if fl != nil {
			fl.Flush()
		}
		panic(http.ErrAbortHandler)
	}
	if len(resp.Chunks) > 0 {
		for _, ch := range resp.Chunks {
			_, _ = w.Write(ch)
			if fl != nil {
				fl.Flush()
			}
		}
		return
	}
	_, _ = w.Write(resp.Body)
}

var (
	sharedH2Once sync.Once
	sharedH2     *H2
	sharedNoH2   *H2
	sharedH2Mu   sync.Mutex
)

// SharedH2 returns the process-wide TLS targets with (h2 == true) or without HTTP/2 and a lock a case must hold
// while using them.
func SharedH2(h2 bool) (*H2, *sync.Mutex) {
	sharedH2Once.Do(func() {
		sharedH2 = NewH2(true)
		sharedNoH2 = NewH2(false)
	})
	if h2 {
		return sharedH2, &sharedH2Mu
	}
	return sharedNoH2, &sharedH2Mu
}
