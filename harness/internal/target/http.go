// Package target holds in-process recording targets for the guns.
package target

import (
	"context"
	"crypto/tls"
	"io"
	"net"
	"net/http"
	"net/http/httptest"
	"strings"
	"sync"
	"sync/atomic"
	"time"
)

// Rec is one request as the target received it.
type Rec struct {
	Seq        int
	Method     string
	RequestURI string
	Host       string
	Header     http.Header
	Body       []byte
	ConnID     int64
	TLS        bool
	Proto      string
	At         time.Time
}

// Resp scripts one response.
type Resp struct {
	Status  int
	Header  map[string]string
	Body    []byte
	DelayMs int
	// Chunks, when set, are written one by one with a flush after each (a streamed, chunked answer) instead of Body.
	Chunks [][]byte
	// Hijack, when set, takes over the raw connection instead of a normal response.
	Hijack func(c net.Conn, bufrw io.ReadWriter)
}

type connKey struct{}

// HTTP is a recording HTTP/1.1 (optionally TLS) server with scripted responses.
type HTTP struct {
	Srv *httptest.Server
	tls bool

	mu       sync.Mutex
	recs     []Rec
	script   func(seq int, r *Rec) Resp
	connID   atomic.Int64
	conns    atomic.Int64 // connections accepted since Reset
	connects atomic.Int64 // CONNECT tunnels opened since Reset
}

func NewHTTP(useTLS bool) *HTTP {
	h := &HTTP{tls: useTLS}
	srv := httptest.NewUnstartedServer(http.HandlerFunc(h.handle))
	srv.Config.ConnContext = func(ctx context.Context, c net.Conn) context.Context {
		id := h.connID.Add(1)
		h.conns.Add(1)
		return context.WithValue(ctx, connKey{}, id)
	}
	srv.Config.ErrorLog = nil
	srv.Config.IdleTimeout = 0
	if useTLS {
		srv.TLS = &tls.Config{NextProtos: []string{"http/1.1"}}
		srv.StartTLS()
	} else {
		srv.Start()
	}
	h.Srv = srv
	return h
}

// Addr is host:port of the listener.
func (h *HTTP) Addr() string {
	return strings.TrimPrefix(strings.TrimPrefix(h.Srv.URL, "https://"), "http://")
}

func (h *HTTP) Close() { h.Srv.Close() }

// Reset forgets the records and installs a response script (nil = 200 "ok").
func (h *HTTP) Reset(script func(seq int, r *Rec) Resp) {
	h.mu.Lock()
	h.recs = nil
	h.script = script
	h.mu.Unlock()
	h.conns.Store(0)
	h.connects.Store(0)
}

func (h *HTTP) Records() []Rec {
	h.mu.Lock()
	defer h.mu.Unlock()
	return append([]Rec(nil), h.recs...)
}

// ConnsAccepted is the number of connections accepted since Reset.
func (h *HTTP) ConnsAccepted() int64 { return h.conns.Load() }

// oneConn is a listener that hands out one already accepted connection (the tunnel of a CONNECT request).
type oneConn struct {
	c    net.Conn
	once sync.Once
	done chan struct{}
}

func (l *oneConn) Accept() (net.Conn, error) {
	var c net.Conn
	l.once.Do(func() { c = l.c })
	if c != nil {
		return c, nil
	}
	<-l.done
	return nil, net.ErrClosed
}
func (l *oneConn) Close() error   { return nil }
func (l *oneConn) Addr() net.Addr { return l.c.LocalAddr() }

type closeNotifyConn struct {
	net.Conn
	closed func()
}

func (c closeNotifyConn) Close() error { c.closed(); return c.Conn.Close() }

// tunnel answers a CONNECT request with 200 and then serves HTTP on the same connection with the same recording
// handler (the connect gun names the target itself as the tunnel's destination). The CONNECT itself is not recorded
// as a request; the tunnelled requests carry the connection id of the tunnel.
func (h *HTTP) tunnel(w http.ResponseWriter, r *http.Request) {
	hj, ok := w.(http.Hijacker)
	if !ok {
		w.WriteHeader(http.StatusInternalServerError)
		return
	}
	c, bufrw, err := hj.Hijack()
	if err != nil {
		return
	}
	h.connects.Add(1)
	_, _ = bufrw.WriteString("HTTP/1.1 200 Connection established\r\n\r\n")
	_ = bufrw.Flush()
	id, _ := r.Context().Value(connKey{}).(int64)
	var once sync.Once
	l := &oneConn{done: make(chan struct{})}
	l.c = closeNotifyConn{Conn: c, closed: func() { once.Do(func() { close(l.done) }) }}
	srv := &http.Server{Handler: http.HandlerFunc(h.handle),
		ConnContext: func(ctx context.Context, _ net.Conn) context.Context { return context.WithValue(ctx, connKey{}, id) }}
	_ = srv.Serve(l)
}

// Connects is the number of CONNECT tunnels opened since Reset.
func (h *HTTP) Connects() int64 { return h.connects.Load() }

func (h *HTTP) handle(w http.ResponseWriter, r *http.Request) {
	if r.Method == http.MethodConnect {
		h.tunnel(w, r)
		return
	}
	body, _ := io.ReadAll(r.Body)
	id, _ := r.Context().Value(connKey{}).(int64)
	rec := Rec{Method: r.Method, RequestURI: r.RequestURI, Host: r.Host, Header: r.Header.Clone(), Body: body,
		ConnID: id, TLS: r.TLS != nil, Proto: r.Proto, At: time.Now()}
	h.mu.Lock()
	rec.Seq = len(h.recs)
	h.recs = append(h.recs, rec)
	script := h.script
	h.mu.Unlock()
	resp := Resp{Status: 200, Body: []byte("ok")}
	if script != nil {
		resp = script(rec.Seq, &rec)
	}
	if resp.DelayMs > 0 {
		time.Sleep(time.Duration(resp.DelayMs) * time.Millisecond)
	}
	if resp.Hijack != nil {
		if hj, ok := w.(http.Hijacker); ok {
			c, bufrw, err := hj.Hijack()
			if err == nil {
				resp.Hijack(c, bufrw)
				_ = bufrw.Flush()
				_ = c.Close()
				return
			}
		}
	}
	for k, v := range resp.Header {
		w.Header().Set(k, v)
	}
	if resp.Status == 0 {
		resp.Status = 200
	}
	w.WriteHeader(resp.Status)
	if r.Method == http.MethodHead {
		return
	}
	if len(resp.Chunks) > 0 {
		fl, _ := w.(http.Flusher)
		for _, ch := range resp.Chunks {
			_, _ = w.Write(ch)
			if fl != nil {
				fl.Flush()
			}
		}
		return
	}
	_, _ = w.Write(resp.Body)
}

var (
	sharedOnce  sync.Once
	sharedPlain *HTTP
	sharedTLS   *HTTP
	sharedMu    sync.Mutex
)

// Shared returns the process-wide plain / TLS targets and a lock a case must hold while using them.
func Shared(useTLS bool) (*HTTP, *sync.Mutex) {
	sharedOnce.Do(func() {
		sharedPlain = NewHTTP(false)
		sharedTLS = NewHTTP(true)
	})
	if useTLS {
		return sharedTLS, &sharedMu
	}
	return sharedPlain, &sharedMu
}
