package target

import (
	"context"
	"net"
	"strconv"
	"strings"
	"sync"
	"time"

	server "github.com/yandex/pandora/examples/grpc/server"
	"google.golang.org/grpc"
	"google.golang.org/grpc/codes"
	"google.golang.org/grpc/metadata"
	"google.golang.org/grpc/reflection"
	reflv1 "google.golang.org/grpc/reflection/grpc_reflection_v1"
	reflv1alpha "google.golang.org/grpc/reflection/grpc_reflection_v1alpha"
	"google.golang.org/grpc/status"
	"google.golang.org/protobuf/proto"
)

// GCall is one unary call as the gRPC target received it.
type GCall struct {
	Seq         int
	Method      string // short name: Hello, Auth, List, Order
	Req         proto.Message
	MD          metadata.MD
	HasDeadline bool
	Timeout     time.Duration // remaining time at arrival
	At          time.Time
}

// GResp scripts the answer to one call.
type GResp struct {
	Code    codes.Code
	DelayMs int
	// Items for List, UserID/Token for Auth, OrderID for Order
	UserID  int64
	Token   string
	Items   []int64
	OrderID int64
	Hello   string
}

// GRPC is a recording implementation of the example TargetService with reflection.
type GRPC struct {
	server.UnimplementedTargetServiceServer
	srv *grpc.Server
	lis net.Listener

	mu     sync.Mutex
	calls  []GCall
	script func(c *GCall) GResp
}

func NewGRPC() *GRPC {
	g := &GRPC{}
	lis, err := net.Listen("tcp", "127.0.0.1:0")
	if err != nil {
		panic(err)
	}
	g.lis = lis
	g.srv = grpc.NewServer()
	server.RegisterTargetServiceServer(g.srv, g)
	reflection.Register(g.srv)
	go func() { _ = g.srv.Serve(lis) }()
	return g
}

// NewGRPCOn is NewGRPC serving on a listener of the caller's making (a GoAway listener for a target that stops
// accepting connections while the connections it has stay served and its port stays reserved). Close closes the
// listener too.
func NewGRPCOn(lis net.Listener) *GRPC {
	g := &GRPC{lis: lis}
	g.srv = grpc.NewServer()
	server.RegisterTargetServiceServer(g.srv, g)
	reflection.Register(g.srv)
	go func() { _ = g.srv.Serve(lis) }()
	return g
}

func (g *GRPC) Addr() string { return g.lis.Addr().String() }
func (g *GRPC) Close()       { g.srv.Stop() }

func (g *GRPC) ResetScript(script func(c *GCall) GResp) {
	g.mu.Lock()
	g.calls = nil
	g.script = script
	g.mu.Unlock()
}

func (g *GRPC) Calls() []GCall {
	g.mu.Lock()
	defer g.mu.Unlock()
	return append([]GCall(nil), g.calls...)
}

func (g *GRPC) record(ctx context.Context, method string, req proto.Message) (GResp, error) {
	md, _ := metadata.FromIncomingContext(ctx)
	c := GCall{Method: method, Req: proto.Clone(req), MD: md.Copy(), At: time.Now()}
	if dl, ok := ctx.Deadline(); ok {
		c.HasDeadline = true
		c.Timeout = time.Until(dl)
	}
	g.mu.Lock()
	c.Seq = len(g.calls)
	g.calls = append(g.calls, c)
	script := g.script
	g.mu.Unlock()
	resp := GResp{Code: codes.OK, Hello: "hello", Token: "tok", UserID: 1, Items: []int64{1, 2, 3}, OrderID: 7}
	if script != nil {
		resp = script(&c)
	}
	if resp.DelayMs > 0 {
		select {
		case <-time.After(time.Duration(resp.DelayMs) * time.Millisecond):
		case <-ctx.Done():
			return resp, status.FromContextError(ctx.Err()).Err()
		}
	}
	if resp.Code != codes.OK {
		return resp, status.Error(resp.Code, "scripted")
	}
	return resp, nil
}

func (g *GRPC) Hello(ctx context.Context, r *server.HelloRequest) (*server.HelloResponse, error) {
	resp, err := g.record(ctx, "Hello", r)
	if err != nil {
		return nil, err
	}
	return &server.HelloResponse{Hello: resp.Hello}, nil
}

func (g *GRPC) Auth(ctx context.Context, r *server.AuthRequest) (*server.AuthResponse, error) {
	resp, err := g.record(ctx, "Auth", r)
	if err != nil {
		return nil, err
	}
	return &server.AuthResponse{UserId: resp.UserID, Token: resp.Token}, nil
}

func (g *GRPC) List(ctx context.Context, r *server.ListRequest) (*server.ListResponse, error) {
	resp, err := g.record(ctx, "List", r)
	if err != nil {
		return nil, err
	}
	out := &server.ListResponse{}
	for _, id := range resp.Items {
		out.Result = append(out.Result, &server.ListItem{ItemId: id})
	}
	return out, nil
}

func (g *GRPC) Order(ctx context.Context, r *server.OrderRequest) (*server.OrderResponse, error) {
	resp, err := g.record(ctx, "Order", r)
	if err != nil {
		return nil, err
	}
	return &server.OrderResponse{OrderId: resp.OrderID}, nil
}

var (
	sharedGOnce sync.Once
	sharedG     *GRPC
	sharedGMu   sync.Mutex
)

// SharedGRPC returns the process-wide gRPC target and the lock a case holds while using it.
func SharedGRPC() (*GRPC, *sync.Mutex) {
	sharedGOnce.Do(func() { sharedG = NewGRPC() })
	return sharedG, &sharedGMu
}

// GRPCReflect is a second listener that serves ONLY the server-reflection service (v1 and v1alpha), describing the
// services of a GRPC target: the "reflection service located on a port other than the main server" of pandora's
// reflect_port option. It implements no other service: every other call that arrives here is answered Unimplemented
// and recorded as a stray call.
type GRPCReflect struct {
	srv *grpc.Server
	lis net.Listener

	mu      sync.Mutex
	streams int      // reflection streams opened
	stray   []string // full method names of the non-reflection calls received
}

// NewReflectOnly starts a reflection-only listener that describes the services registered on g.
func (g *GRPC) NewReflectOnly() *GRPCReflect {
	r := &GRPCReflect{}
	lis, err := net.Listen("tcp", "127.0.0.1:0")
	if err != nil {
		panic(err)
	}
	r.lis = lis
	r.srv = grpc.NewServer(
		grpc.StreamInterceptor(func(srv any, ss grpc.ServerStream, info *grpc.StreamServerInfo, handler grpc.StreamHandler) error {
			if strings.HasSuffix(info.FullMethod, "/ServerReflectionInfo") { // not the unknown-service handler's streams
				r.mu.Lock()
				r.streams++
				r.mu.Unlock()
			}
			return handler(srv, ss)
		}),
		grpc.UnknownServiceHandler(func(_ any, ss grpc.ServerStream) error {
			m, _ := grpc.MethodFromServerStream(ss)
			r.mu.Lock()
			r.stray = append(r.stray, m)
			r.mu.Unlock()
			return status.Error(codes.Unimplemented, "this port serves reflection only")
		}),
	)
	opts := reflection.ServerOptions{Services: g.srv}
	reflv1.RegisterServerReflectionServer(r.srv, reflection.NewServerV1(opts))
	reflv1alpha.RegisterServerReflectionServer(r.srv, reflection.NewServer(opts))
	go func() { _ = r.srv.Serve(lis) }()
	return r
}

func (r *GRPCReflect) Addr() string { return r.lis.Addr().String() }
func (r *GRPCReflect) Close()       { r.srv.Stop() }

// Port is the listener's port number (the value of reflect_port).
func (r *GRPCReflect) Port() int {
	_, p, _ := net.SplitHostPort(r.Addr())
	n, _ := strconv.Atoi(p)
	return n
}

// Reset forgets what was recorded so far.
func (r *GRPCReflect) Reset() {
	r.mu.Lock()
	r.streams, r.stray = 0, nil
	r.mu.Unlock()
}

// Streams is the number of reflection streams opened since the last Reset.
func (r *GRPCReflect) Streams() int {
	r.mu.Lock()
	defer r.mu.Unlock()
	return r.streams
}

// Stray lists the non-reflection calls received since the last Reset (full method names).
func (r *GRPCReflect) Stray() []string {
	r.mu.Lock()
	defer r.mu.Unlock()
	return append([]string(nil), r.stray...)
}

var (
	sharedGReflOnce sync.Once
	sharedGRefl     *GRPCReflect
)

// SharedGRPCReflect returns the process-wide reflection-only listener of the SharedGRPC target; a case uses it while
// holding the SharedGRPC lock.
func SharedGRPCReflect() *GRPCReflect {
	tg, _ := SharedGRPC()
	sharedGReflOnce.Do(func() { sharedGRefl = tg.NewReflectOnly() })
	return sharedGRefl
}
