//go:build linux

package target

import (
	"errors"
	"net"
	"syscall"
	"testing"
)

// the port of a GoAway listener that went down refuses connections and cannot be bound by anybody else
func TestGoAwayHoldsPort(t *testing.T) {
	for _, after := range []int{0, 1, 2} {
		g, err := ListenGoAway(after)
		if err != nil {
			t.Fatal(err)
		}
		go func() {
			for {
				c, err := g.Accept()
				if err != nil {
					return
				}
				_ = c.Close()
			}
		}()
		for i := 0; i < after; i++ {
			c, err := net.Dial("tcp", g.HostPort())
			if err != nil {
				t.Fatalf("after=%d dial %d: %v", after, i, err)
			}
			buf := make([]byte, 1)
			_, _ = c.Read(buf) // closed by the accept loop: the connection was handed out
			_ = c.Close()
		}
		for i := 0; i < 3; i++ {
			_, err = net.Dial("tcp", g.HostPort())
			if !errors.Is(err, syscall.ECONNREFUSED) {
				t.Fatalf("after=%d: dial after going down: %v, want ECONNREFUSED", after, err)
			}
		}
		if l, err := net.Listen("tcp", g.HostPort()); err == nil {
			_ = l.Close()
			t.Fatalf("after=%d: the port of a listener that is down could be bound by another socket", after)
		}
		_ = g.Close()
		l, err := net.Listen("tcp", g.HostPort())
		if err != nil {
			t.Fatalf("port not released by Close: %v", err)
		}
		_ = l.Close()
	}
}
