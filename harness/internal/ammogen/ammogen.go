// Package ammogen is a model of HTTP ammo files (uri, uripost, raw, http/json)
// with renderers that exercise the layout freedom the formats permit, and the
// expected per-pass request sequence computed from the model alone.
package ammogen

import (
	"bytes"
	"encoding/json"
	"fmt"
	"io"
	"net/http"
	"net/textproto"
	"sort"
	"strings"

	phttp "github.com/yandex/pandora/components/guns/http"
	"github.com/yandex/pandora/core"
	"pgregory.net/rapid"
)

type KV struct {
	K string `json:"k"`
	V string `json:"v"`
}

// Entry is one request as the ammo file author means it.
type Entry struct {
	Method  string `json:"method"`
	URI     string `json:"uri"`
	Tag     string `json:"tag,omitempty"`
	Host    string `json:"host,omitempty"`
	Headers []KV   `json:"headers,omitempty"` // raw and jsonline only; unique names
	Body    []byte `json:"body,omitempty"`
}

// Item is an entry or (uri / uripost only) an in-file `[Key: value]` directive.
type Item struct {
	Dir   *KV    `json:"dir,omitempty"`
	Entry *Entry `json:"entry,omitempty"`
}

type Layout struct {
	BlankBefore []int  `json:"blank_before,omitempty"` // item indexes preceded by an empty line
	LeadBlank   int    `json:"lead_blank,omitempty"`
	TrailBlank  int    `json:"trail_blank,omitempty"`
	CRLF        bool   `json:"crlf,omitempty"`
	NoFinalNL   bool   `json:"no_final_newline,omitempty"`
	Pad         bool   `json:"pad_lines,omitempty"`   // spaces around line-oriented records
	JSON        string `json:"json,omitempty"`        // lines | pretty | array  (jsonline)
	Inline      bool   `json:"inline_uris,omitempty"` // uri: pass the lines through the `uris` option instead of a file
	// RawTail (raw only; indexed by item, missing / "" = none): bytes that follow the request text INSIDE the entry's
	// sized block, i.e. the size line counts them - the terminating line break(s) that phantom-style ammo generators
	// write after the request and include in the size (docs: "Ammo size is in bytes (integer, including special
	// characters like CR, LF)"). The request is the header block plus Content-Length body bytes; what follows it in the
	// block is not part of it. Empty unless GenOpts.RawTail asked for it.
	RawTail []string `json:"raw_tail,omitempty"`
}

// RawTailOf is the tail of item i's sized block ("" when it has none).
func (l Layout) RawTailOf(i int) string {
	if i < len(l.RawTail) {
		return l.RawTail[i]
	}
	return ""
}

type File struct {
	Format string `json:"format"` // uri | uripost | raw | jsonline
	Items  []Item `json:"items"`
	Layout Layout `json:"layout"`
	Big    bool   `json:"big,omitempty"` // generated to exceed the readers' buffer sizes
	// ConfHeaders is the provider's config option `headers` (docs/eng/providers.md: "You can define common headers using
	// special config option `headers`. Headers in ammo file have priority. Format: list of strings", each "[Name: value]").
	// Unique names. Empty unless GenOpts.ConfigHeaders asked for it.
	ConfHeaders []KV `json:"config_headers,omitempty"`
}

// HeaderLine renders a header the way uri / uripost files and the `headers` option spell it: "[Name: value]".
func HeaderLine(h KV) string { return fmt.Sprintf("[%s: %s]", h.K, h.V) }

// ConfigHeaderLines is the value of the provider's `headers` option for this file (nil when it has none).
func (f File) ConfigHeaderLines() []any {
	var out []any
	for _, h := range f.ConfHeaders {
		out = append(out, HeaderLine(h))
	}
	return out
}

// Want is what the provider must deliver for one entry.
type Want struct {
	Method  string
	URI     string
	Tag     string
	Host    string
	Headers map[string]string // canonical name -> value
	Body    []byte
}

func canon(k string) string { return textproto.CanonicalMIMEHeaderKey(k) }

// Entries returns the entries in file order.
func (f File) Entries() []Entry {
	var out []Entry
	for _, it := range f.Items {
		if it.Entry != nil {
			out = append(out, *it.Entry)
		}
	}
	return out
}

// Expected is the request sequence of ONE pass over the file: in-file directives
// apply to the entries after them (a later directive of the same name wins).
func (f File) Expected() []Want {
	var out []Want
	dirs := map[string]string{}
	for _, it := range f.Items {
		if it.Dir != nil {
			dirs[canon(it.Dir.K)] = it.Dir.V
			continue
		}
		e := it.Entry
		w := Want{Method: e.Method, URI: e.URI, Tag: e.Tag, Host: e.Host, Headers: map[string]string{}, Body: e.Body}
		for k, v := range dirs {
			if k == "Host" {
				if w.Host == "" {
					w.Host = v
				}
				continue
			}
			w.Headers[k] = v
		}
		for _, h := range e.Headers {
			w.Headers[canon(h.K)] = h.V
		}
		// the provider's `headers` option: defaults, "Headers in ammo file have priority"
		for _, h := range f.ConfHeaders {
			k := canon(h.K)
			if k == "Host" {
				if w.Host == "" {
					w.Host = h.V
				}
				continue
			}
			if _, ok := w.Headers[k]; !ok {
				w.Headers[k] = h.V
			}
		}
		if len(w.Body) == 0 {
			w.Body = nil
		}
		out = append(out, w)
	}
	return out
}

// MidFileDirective reports whether a directive follows an entry.
func (f File) MidFileDirective() bool {
	seen := false
	for _, it := range f.Items {
		if it.Entry != nil {
			seen = true
		} else if seen {
			return true
		}
	}
	return false
}

func (f File) nl() string {
	if f.Layout.CRLF {
		return "\r\n"
	}
	return "\n"
}

// Lines renders the uri format as a list of lines (for the `uris` option).
func (f File) Lines() []string {
	var out []string
	for _, it := range f.Items {
		if it.Dir != nil {
			out = append(out, fmt.Sprintf("[%s: %s]", it.Dir.K, it.Dir.V))
		} else if it.Entry.Tag != "" {
			out = append(out, it.Entry.URI+" "+it.Entry.Tag)
		} else {
			out = append(out, it.Entry.URI)
		}
	}
	return out
}

// Render produces the ammo file bytes.
func (f File) Render() []byte {
	var b bytes.Buffer
	nl := f.nl()
	blank := map[int]bool{}
	for _, i := range f.Layout.BlankBefore {
		blank[i] = true
	}
	pad := func(s string) string {
		if f.Layout.Pad {
			return "  " + s + " \t"
		}
		return s
	}
	if f.Format == "jsonline" {
		return f.renderJSON()
	}
	for i := 0; i < f.Layout.LeadBlank; i++ {
		b.WriteString(nl)
	}
	for i, it := range f.Items {
		if blank[i] {
			b.WriteString(nl)
		}
		last := i == len(f.Items)-1
		endl := nl
		if last && f.Layout.NoFinalNL && f.Layout.TrailBlank == 0 {
			endl = ""
		}
		switch {
		case it.Dir != nil:
			b.WriteString(pad(fmt.Sprintf("[%s: %s]", it.Dir.K, it.Dir.V)) + endl)
		case f.Format == "uri":
			line := it.Entry.URI
			if it.Entry.Tag != "" {
				line += " " + it.Entry.Tag
			}
			b.WriteString(pad(line) + endl)
		case f.Format == "uripost":
			line := fmt.Sprintf("%d %s", len(it.Entry.Body), it.Entry.URI)
			if it.Entry.Tag != "" {
				line += " " + it.Entry.Tag
			}
			if len(it.Entry.Body) == 0 {
				b.WriteString(pad(line) + endl)
			} else {
				// the body starts right after the size line's newline and is followed by a line end
				b.WriteString(pad(line) + nl)
				b.Write(it.Entry.Body)
				b.WriteString(endl)
			}
		case f.Format == "raw":
			req := append(RawRequest(*it.Entry), f.Layout.RawTailOf(i)...)
			line := fmt.Sprintf("%d", len(req))
			if it.Entry.Tag != "" {
				line += " " + it.Entry.Tag
			}
			b.WriteString(pad(line) + nl)
			b.Write(req)
			b.WriteString(endl)
		}
	}
	for i := 0; i < f.Layout.TrailBlank; i++ {
		if i == f.Layout.TrailBlank-1 && f.Layout.NoFinalNL {
			b.WriteString("  ")
			break
		}
		b.WriteString(nl)
	}
	return b.Bytes()
}

// RawRequest renders the entry as HTTP/1.1 request text with a consistent Content-Length.
func RawRequest(e Entry) []byte {
	var b bytes.Buffer
	fmt.Fprintf(&b, "%s %s HTTP/1.1\r\n", e.Method, e.URI)
	if e.Host != "" {
		fmt.Fprintf(&b, "Host: %s\r\n", e.Host)
	}
	for _, h := range e.Headers {
		fmt.Fprintf(&b, "%s: %s\r\n", h.K, h.V)
	}
	if len(e.Body) > 0 {
		fmt.Fprintf(&b, "Content-Length: %d\r\n", len(e.Body))
	}
	b.WriteString("\r\n")
	b.Write(e.Body)
	return b.Bytes()
}

type jsonEntity struct {
	Host    string            `json:"host,omitempty"`
	Method  string            `json:"method"`
	URI     string            `json:"uri"`
	Headers map[string]string `json:"headers,omitempty"`
	Tag     string            `json:"tag,omitempty"`
	Body    string            `json:"body,omitempty"`
}

func (f File) renderJSON() []byte {
	var ents []jsonEntity
	for _, it := range f.Items {
		if it.Entry == nil {
			continue
		}
		e := it.Entry
		je := jsonEntity{Host: e.Host, Method: e.Method, URI: e.URI, Tag: e.Tag, Body: string(e.Body)}
		if len(e.Headers) > 0 {
			je.Headers = map[string]string{}
			for _, h := range e.Headers {
				je.Headers[h.K] = h.V
			}
		}
		ents = append(ents, je)
	}
	nl := f.nl()
	var b bytes.Buffer
	enc := func(v any, pretty bool) []byte {
		var x []byte
		if pretty {
			x, _ = json.MarshalIndent(v, "", "  ")
		} else {
			x, _ = json.Marshal(v)
		}
		if f.Layout.CRLF {
			x = bytes.ReplaceAll(x, []byte("\n"), []byte("\r\n"))
		}
		return x
	}
	for i := 0; i < f.Layout.LeadBlank; i++ {
		b.WriteString(nl)
	}
	switch f.Layout.JSON {
	case "array":
		b.Write(enc(ents, len(ents)%2 == 0))
		if !f.Layout.NoFinalNL {
			b.WriteString(nl)
		}
	default:
		blank := map[int]bool{}
		for _, i := range f.Layout.BlankBefore {
			blank[i] = true
		}
		for i, e := range ents {
			if blank[i] {
				b.WriteString(nl)
			}
			b.Write(enc(e, f.Layout.JSON == "pretty"))
			if i < len(ents)-1 || !f.Layout.NoFinalNL {
				b.WriteString(nl)
			}
		}
	}
	if !f.Layout.NoFinalNL {
		for i := 0; i < f.Layout.TrailBlank; i++ {
			b.WriteString(nl)
		}
	}
	return b.Bytes()
}

// ---------------- generators ----------------

// the standard methods and extension methods (RFC 9110: any token is a method; WebDAV, cache purging, UPnP) - the
// formats that spell the method out (raw, http/json) must carry either kind
var methodsAny = []string{"GET", "POST", "PUT", "DELETE", "HEAD", "PATCH", "OPTIONS", "PURGE", "PROPFIND", "REPORT", "M-SEARCH"}

// ExtensionMethod says whether m is none of net/http's Method* constants.
func ExtensionMethod(m string) bool {
	switch m {
	case "", "GET", "HEAD", "POST", "PUT", "PATCH", "DELETE", "CONNECT", "OPTIONS", "TRACE":
		return false
	}
	return true
}

const tokAlpha = "abcdefghijklmnopqrstuvwxyzABCDEFGHIJKLMNOPQRSTUVWXYZ0123456789"

func genToken(t *rapid.T, label string, min, max int) string {
	n := rapid.IntRange(min, max).Draw(t, label+"Len")
	var sb strings.Builder
	for i := 0; i < n; i++ {
		sb.WriteByte(tokAlpha[rapid.IntRange(0, len(tokAlpha)-1).Draw(t, label)])
	}
	return sb.String()
}

// GenURI draws a path+query over characters net/url transmits verbatim.
func GenURI(t *rapid.T) string {
	segs := rapid.IntRange(0, 4).Draw(t, "segs")
	var sb strings.Builder
	if segs == 0 {
		sb.WriteString("/")
	}
	for i := 0; i < segs; i++ {
		sb.WriteString("/")
		switch rapid.IntRange(0, 5).Draw(t, "segKind") {
		case 0:
			sb.WriteString(genToken(t, "seg", 1, 6) + "%20" + genToken(t, "seg2", 0, 3))
		case 1:
			sb.WriteString(genToken(t, "seg", 1, 4) + rapid.SampledFrom([]string{"-", "_", ".", "~", "!", "$", "&", "'", "(", ")", "*", "+", ",", ";", "=", ":", "@"}).Draw(t, "sub") + genToken(t, "seg2", 0, 3))
		default:
			sb.WriteString(genToken(t, "seg", 1, 8))
		}
	}
	if rapid.IntRange(0, 2).Draw(t, "trailingSlash") == 0 && segs > 0 {
		sb.WriteString("/")
	}
	if q := rapid.IntRange(0, 3).Draw(t, "query"); q > 0 {
		sb.WriteString("?")
		for i := 0; i < q; i++ {
			if i > 0 {
				sb.WriteString("&")
			}
			sb.WriteString(genToken(t, "qk", 1, 5))
			switch rapid.IntRange(0, 3).Draw(t, "qv") {
			case 0:
			case 1:
				sb.WriteString("=")
			default:
				sb.WriteString("=" + genToken(t, "qv", 1, 6))
			}
		}
	}
	return sb.String()
}

// tagSeps are what may stand between the words of a tag. Every format takes the tag as "the rest of the
// line after the ONE space that delimits it" (docs/eng/providers.md: raw "two fields delimited by a space:
// ammo size and tag ... Tag is a string"; uri "/buy tag2"; uripost 'bodySize uri [tag]') or as a JSON string
// (http/json), so whatever follows that first space - runs of several spaces, tabs - is tag text, to be
// delivered as written. Only the ends of a tag are never blank (the line is trimmed).
var tagSeps = []string{" ", " ", " ", "  ", "   ", "\t", " \t ", "\t\t"}

// HasBlankRun reports whether the tag holds inner whitespace other than single spaces.
func HasBlankRun(tag string) bool {
	return strings.Contains(tag, "  ") || strings.Contains(tag, "\t")
}

// GenTag draws a tag (possibly empty) whose ends are not blank.
func GenTag(t *rapid.T, pool []string, allowSpaces bool) string {
	switch rapid.IntRange(0, 5).Draw(t, "tagKind") {
	case 0:
		return ""
	case 1, 2:
		if len(pool) > 0 {
			return rapid.SampledFrom(pool).Draw(t, "tagPool")
		}
		return genToken(t, "tag", 1, 6)
	case 3:
		if allowSpaces {
			return genToken(t, "tagA", 1, 4) + rapid.SampledFrom(tagSeps).Draw(t, "tagSep") + genToken(t, "tagB", 1, 4) +
				rapid.SampledFrom([]string{"", "", " x", " #1|b", "  x", "\ty", " :  z"}).Draw(t, "tagC")
		}
		return genToken(t, "tag", 1, 6)
	case 4:
		return genToken(t, "tagU", 1, 3) + rapid.SampledFrom([]string{"é", "ж", "#", "|", "=", "[x]"}).Draw(t, "tagSpecial")
	default:
		return genToken(t, "tag", 1, 8)
	}
}

var headerNames = []string{"X-Test", "Accept", "User-Agent", "Cookie", "X-Req-Id", "Accept-Language", "x-lower", "Authorization", "Referer", "X-B3"}

// genHeaderValueFor may also draw the empty value (`[X-Test:]`, "X-Test": ""): the header is then defined by the
// ammo, with nothing in it. Not for User-Agent: Go's client omits an empty User-Agent altogether.
func genHeaderValueFor(t *rapid.T, name string) string {
	if canon(name) != "User-Agent" && rapid.IntRange(0, 6).Draw(t, "hvEmpty") == 0 {
		return ""
	}
	return genHeaderValue(t)
}

func genHeaderValue(t *rapid.T) string {
	switch rapid.IntRange(0, 4).Draw(t, "hvKind") {
	case 0:
		return genToken(t, "hv", 1, 5) + "; q=0.5, " + genToken(t, "hv2", 1, 4)
	case 1:
		return genToken(t, "hv", 1, 5) + ": [" + genToken(t, "hv2", 1, 3) + "]x"
	case 2:
		return "a=" + genToken(t, "hv", 1, 5) + "; b=" + genToken(t, "hv2", 0, 5)
	default:
		return genToken(t, "hv", 1, 12)
	}
}

func genHost(t *rapid.T) string {
	h := strings.ToLower(genToken(t, "host", 1, 8)) + rapid.SampledFrom([]string{".example.com", ".test", "", ".example.org:8080"}).Draw(t, "hostSuffix")
	return h
}

// GenBody draws a body; binary allows arbitrary bytes incl. newlines and '['.
func GenBody(t *rapid.T, binary bool) []byte {
	switch rapid.IntRange(0, 6).Draw(t, "bodyKind") {
	case 0, 1:
		return nil
	case 2:
		return []byte(`{"a": "` + genToken(t, "b", 0, 10) + `", "n": [1, 2]}`)
	case 3:
		if binary {
			return rapid.SliceOfN(rapid.Byte(), 1, 40).Draw(t, "bin")
		}
		return []byte("k=" + genToken(t, "b", 1, 10) + "&é=ж")
	case 4:
		return []byte("line1\n[Not: header]\n" + genToken(t, "b", 0, 5) + "\n\n0 /fake tag\n")
	case 5:
		return []byte(genToken(t, "b", 1, 20) + "\n")
	default:
		return []byte(genToken(t, "b", 1, 30))
	}
}

type GenOpts struct {
	MinEntries, MaxEntries int
	Tags                   []string // tag pool (for chosencases checks)
	NoLayout               bool
	// AllowBig: one file in eight is made larger than the readers' buffers (4 KiB bufio, 64 KiB scanner
	// tokens are NOT exceeded per line): bodies blown up to 1-20 KiB by repetition, uri files to 60-200 lines.
	AllowBig bool
	// BracketValues: one header value in three (in-file "[Name: value]" directives, the `headers` option, the entries' own
	// headers) is drawn from GenBracketValue - brackets and colons anywhere, also at the very ends of the value
	// (`ids[]`, `$.items[0]`, `[1, [2, 3]]`, `a:b:c`) -, and one Host in three is a bracketed IPv6 literal (`[::1]`,
	// `[2001:db8::1]:8080`). A "[Name: value]" line is the name up to the first colon and the value between that colon and
	// the line's closing bracket (surrounding blanks trimmed), so such a value must arrive exactly as written.
	BracketValues bool
	// ConfigHeaders: one file in two comes with 1-3 default headers for the provider's `headers` option
	// (File.ConfHeaders; unique names from the same pool as directives and entry headers, so that the file's
	// headers often compete with them; Host among them).
	ConfigHeaders bool
	// RawTail (raw format): one file in two has entries whose sized block goes on after the request text - two entries
	// in three of such a file end with CRLF, LF, CRLFCRLF or LFLF counted in the entry size (Layout.RawTail), the
	// others end exactly with the body / header block. Independent of the other layout knobs (also under NoLayout).
	RawTail bool
}

// genHeaderValueFor / genHost under the options
func (o GenOpts) headerValueFor(t *rapid.T, name string) string {
	if o.BracketValues && rapid.IntRange(0, 2).Draw(t, "hvBracket") == 0 {
		return GenBracketValue(t)
	}
	return genHeaderValueFor(t, name)
}

func (o GenOpts) host(t *rapid.T) string {
	if o.BracketValues && rapid.IntRange(0, 2).Draw(t, "hostV6") == 0 {
		h := "[" + rapid.SampledFrom([]string{"::1", "::", "fe80::1", "2001:db8::" + strings.ToLower(genHex(t, "v6tail"))}).Draw(t, "v6") + "]"
		return h + rapid.SampledFrom([]string{"", "", ":8080", ":80"}).Draw(t, "v6port")
	}
	return genHost(t)
}

func genHex(t *rapid.T, label string) string {
	const hex = "0123456789abcdef"
	n := rapid.IntRange(1, 4).Draw(t, label+"Len")
	var sb strings.Builder
	for i := 0; i < n; i++ {
		sb.WriteByte(hex[rapid.IntRange(0, len(hex)-1).Draw(t, label)])
	}
	return sb.String()
}

var bracketAtoms = []string{"[", "]", "[]", "[", "]", ":", "::", ": ", " ", ", ", "[0]", "$.", "{", "}", "\"", "=", "]]", "[[", ";", "."}

// GenBracketValue draws a non-empty header value of visible ASCII with inner single blanks, rich in '[', ']' and ':',
// whose ends are not blank: idiomatic shapes (array-style parameter names, JSONPath, JSON arrays / objects, host:port and
// IPv6 literals, times) and free compositions, with runs of brackets at the very ends in about half of the draws.
func GenBracketValue(t *rapid.T) string {
	var v string
	switch rapid.IntRange(0, 7).Draw(t, "bvKind") {
	case 0:
		v = genToken(t, "bv", 1, 6) + strings.Repeat("[]", rapid.IntRange(1, 2).Draw(t, "bvDims"))
	case 1:
		v = "$." + genToken(t, "bv", 1, 6) + fmt.Sprintf("[%d]", rapid.IntRange(0, 12).Draw(t, "bvIdx"))
	case 2:
		v = fmt.Sprintf("[%d, [%d, %d]]", rapid.IntRange(0, 9).Draw(t, "bvA"), rapid.IntRange(0, 9).Draw(t, "bvB"), rapid.IntRange(0, 99).Draw(t, "bvC"))
	case 3:
		v = `{"` + genToken(t, "bv", 1, 4) + `": [` + genToken(t, "bv2", 1, 3) + rapid.SampledFrom([]string{"]}", "]", "], \"b\": 1}"}).Draw(t, "bvTail")
	case 4:
		v = genToken(t, "bv", 1, 5) + ":" + genToken(t, "bv2", 1, 5) + rapid.SampledFrom([]string{"", ":" + "x", ": y", "::"}).Draw(t, "bvColons")
	default:
		n := rapid.IntRange(1, 6).Draw(t, "bvAtoms")
		var sb strings.Builder
		for i := 0; i < n; i++ {
			if rapid.IntRange(0, 2).Draw(t, "bvTok") == 0 {
				sb.WriteString(genToken(t, "bv", 1, 4))
			} else {
				sb.WriteString(rapid.SampledFrom(bracketAtoms).Draw(t, "bvAtom"))
			}
		}
		v = strings.TrimSpace(sb.String())
	}
	switch rapid.IntRange(0, 5).Draw(t, "bvEnds") {
	case 0:
		v += strings.Repeat("]", rapid.IntRange(1, 3).Draw(t, "bvClose"))
	case 1:
		v = strings.Repeat("[", rapid.IntRange(1, 2).Draw(t, "bvOpen")) + v
	case 2:
		v = "[" + v + "]"
	}
	if v == "" {
		v = "[]"
	}
	return v
}

// Gen draws a file in the given format.
func Gen(t *rapid.T, format string, o GenOpts) File {
	if o.MaxEntries == 0 {
		o.MaxEntries = 8
	}
	if o.MinEntries == 0 {
		o.MinEntries = 1
	}
	f := File{Format: format}
	n := rapid.IntRange(o.MinEntries, o.MaxEntries).Draw(t, "entries")
	dirs := format == "uri" || format == "uripost"
	for i := 0; i < n; i++ {
		if dirs {
			for rapid.IntRange(0, 3).Draw(t, "dirHere") == 0 {
				k := rapid.SampledFrom(append([]string{"Host"}, headerNames...)).Draw(t, "dirKey")
				v := o.headerValueFor(t, k)
				if k == "Host" {
					v = o.host(t)
				}
				f.Items = append(f.Items, Item{Dir: &KV{K: k, V: v}})
			}
		}
		e := Entry{URI: GenURI(t)}
		switch format {
		case "uri":
			e.Method = "GET"
			e.Tag = GenTag(t, o.Tags, true)
		case "uripost":
			e.Method = "POST"
			e.Tag = GenTag(t, o.Tags, true)
			e.Body = GenBody(t, true)
		case "raw":
			e.Method = rapid.SampledFrom(methodsAny).Draw(t, "method")
			e.Tag = GenTag(t, o.Tags, true)
			if e.Method != "GET" && e.Method != "HEAD" {
				e.Body = GenBody(t, true)
			}
			e.Host = o.host(t) // HTTP/1.1 request text needs Host
			e.Headers = genHeaders(t, o)
		case "jsonline":
			e.Method = rapid.SampledFrom(methodsAny).Draw(t, "method")
			e.Tag = GenTag(t, o.Tags, true)
			e.Body = GenBody(t, false)
			if rapid.Bool().Draw(t, "hasHost") {
				e.Host = o.host(t)
			}
			e.Headers = genHeaders(t, o)
		}
		f.Items = append(f.Items, Item{Entry: &e})
	}
	if o.AllowBig && rapid.IntRange(0, 7).Draw(t, "big") == 0 {
		f.Big = true
		if format == "uri" {
			// many lines: repeat the drawn items, entries made distinct by a leading path segment
			base := f.Items
			total := rapid.IntRange(60, 200).Draw(t, "bigLines")
			for i := len(base); i < total; i++ {
				it := base[i%len(base)]
				if it.Entry != nil {
					e := *it.Entry
					e.URI = fmt.Sprintf("/r%d", i) + e.URI
					it = Item{Entry: &e}
				}
				f.Items = append(f.Items, it)
			}
		} else {
			for _, it := range f.Items {
				if it.Entry == nil || (format == "raw" && (it.Entry.Method == "GET" || it.Entry.Method == "HEAD")) {
					continue
				}
				if rapid.IntRange(0, 2).Draw(t, "bigBody") == 0 {
					continue
				}
				chunk := it.Entry.Body
				if len(chunk) == 0 {
					chunk = []byte(genToken(t, "chunk", 1, 12) + "\n")
				}
				size := rapid.SampledFrom([]int{1000, 3000, 4000, 4096, 4200, 8192, 9000, 20000}).Draw(t, "bigSize")
				size += rapid.IntRange(-40, 40).Draw(t, "bigJitter")
				it.Entry.Body = bytes.Repeat(chunk, size/len(chunk)+1)[:size]
				if format == "jsonline" {
					it.Entry.Body = bytes.ToValidUTF8(it.Entry.Body, []byte("?"))
				}
			}
		}
	}
	if dirs && rapid.IntRange(0, 5).Draw(t, "trailingDir") == 0 {
		f.Items = append(f.Items, Item{Dir: &KV{K: "X-Trailing", V: "1"}})
	}
	if !o.NoLayout {
		f.Layout = genLayout(t, format, len(f.Items))
	}
	if o.RawTail && format == "raw" && rapid.Bool().Draw(t, "rawTails") {
		tails := make([]string, len(f.Items))
		hasTail := false
		for i := range f.Items {
			if rapid.IntRange(0, 2).Draw(t, "rawTailHere") > 0 {
				tails[i] = rapid.SampledFrom([]string{"\r\n", "\r\n", "\n", "\r\n\r\n", "\n\n"}).Draw(t, "rawTail")
				hasTail = true
			}
		}
		if hasTail {
			f.Layout.RawTail = tails
		}
	}
	if o.ConfigHeaders && rapid.Bool().Draw(t, "confHeaders") {
		n := rapid.IntRange(1, 3).Draw(t, "confHeadersN")
		seen := map[string]bool{}
		for i := 0; i < n; i++ {
			k := rapid.SampledFrom(append([]string{"Host", "X-Default"}, headerNames...)).Draw(t, "confKey")
			if seen[canon(k)] {
				continue
			}
			seen[canon(k)] = true
			v := o.headerValueFor(t, k)
			if k == "Host" {
				v = o.host(t)
			}
			f.ConfHeaders = append(f.ConfHeaders, KV{K: k, V: v})
		}
	}
	return f
}

func genHeaders(t *rapid.T, o GenOpts) []KV {
	n := rapid.IntRange(0, 4).Draw(t, "headers")
	seen := map[string]bool{}
	var out []KV
	for i := 0; i < n; i++ {
		k := rapid.SampledFrom(headerNames).Draw(t, "hk")
		if seen[canon(k)] {
			continue
		}
		seen[canon(k)] = true
		out = append(out, KV{K: k, V: o.headerValueFor(t, k)})
	}
	return out
}

func genLayout(t *rapid.T, format string, items int) Layout {
	l := Layout{}
	if rapid.Bool().Draw(t, "plainLayout") {
		if format == "jsonline" {
			l.JSON = "lines"
		}
		return l
	}
	l.LeadBlank = rapid.IntRange(0, 2).Draw(t, "leadBlank")
	l.TrailBlank = rapid.IntRange(0, 2).Draw(t, "trailBlank")
	l.CRLF = rapid.IntRange(0, 3).Draw(t, "crlf") == 0
	l.NoFinalNL = rapid.IntRange(0, 2).Draw(t, "noFinalNL") == 0
	for i := 0; i < items; i++ {
		if rapid.IntRange(0, 3).Draw(t, "blankBefore") == 0 {
			l.BlankBefore = append(l.BlankBefore, i)
		}
	}
	switch format {
	case "jsonline":
		l.JSON = rapid.SampledFrom([]string{"lines", "pretty", "array"}).Draw(t, "jsonStyle")
	case "uri":
		l.Pad = rapid.IntRange(0, 3).Draw(t, "pad") == 0
		l.Inline = rapid.IntRange(0, 5).Draw(t, "inline") == 0
	case "uripost", "raw":
		l.Pad = rapid.IntRange(0, 3).Draw(t, "pad") == 0
	}
	return l
}

// LayoutKnobOn reports whether any layout variation is active.
func (l Layout) LayoutKnobOn() bool {
	return l.LeadBlank > 0 || l.TrailBlank > 0 || l.CRLF || l.NoFinalNL || len(l.BlankBefore) > 0 || l.Pad || l.Inline ||
		l.JSON == "pretty" || l.JSON == "array" || len(l.RawTail) > 0
}

// ProviderType is the registered provider name of the format.
func ProviderType(format string) string {
	if format == "jsonline" {
		return "http/json"
	}
	return format
}

// ---------------- observation ----------------

// Got is what a delivered ammo object holds.
type Got struct {
	Method  string
	URI     string
	Tag     string
	Host    string
	Headers http.Header
	Body    []byte
	ID      uint64
}

// Observe extracts the request from an ammo the HTTP provider delivered.
func Observe(a core.Ammo) (Got, error) {
	ha, ok := a.(phttp.Ammo)
	if !ok {
		return Got{}, fmt.Errorf("delivered ammo is %T, not an HTTP gun ammo", a)
	}
	req, sample := ha.Request()
	g := Got{Method: req.Method, URI: req.URL.RequestURI(), Host: req.Host, Headers: req.Header.Clone(), Tag: sample.Tags(), ID: ha.ID()}
	if g.Host == "" {
		g.Host = req.URL.Host
	}
	if req.Body != nil {
		b, err := io.ReadAll(req.Body)
		if err != nil {
			return g, fmt.Errorf("reading the delivered body: %v", err)
		}
		g.Body = b
		if req.GetBody != nil {
			if nb, err := req.GetBody(); err == nil {
				req.Body = nb
			}
		}
	}
	return g, nil
}

// ShootLikeGun does to a delivered request what pandora's built-in http gun (BaseGun.Shoot) does before it sends it:
// the scheme and the host of req.URL are overwritten with the gun's target, and an empty Host gets the target's host.
// A real instance does this to every ammo before it releases it; ammo that is delivered again (preload, JSON array,
// pooled ammo objects) must not remember any of it. Call it AFTER Observe.
func ShootLikeGun(a core.Ammo, ssl bool, target string) {
	ha, ok := a.(phttp.Ammo)
	if !ok {
		return
	}
	req, _ := ha.Request()
	if req == nil || req.URL == nil {
		return
	}
	if ssl {
		req.URL.Scheme = "https"
	} else {
		req.URL.Scheme = "http"
	}
	if req.Host == "" {
		h := target
		if i := strings.LastIndexByte(h, ':'); i > 0 {
			h = h[:i]
		}
		req.Host = h
	}
	req.URL.Host = target
}

// Compare checks a delivered request against the model; extraOK lists canonical
// header names that may appear without being in the model.
func Compare(w Want, g Got, extraOK map[string]bool) error {
	if g.Method != w.Method {
		return fmt.Errorf("method %q, file says %q", g.Method, w.Method)
	}
	if g.URI != w.URI {
		return fmt.Errorf("request URI %q, file says %q", g.URI, w.URI)
	}
	if g.Tag != tagOrEmpty(w.Tag) {
		return fmt.Errorf("tag %q, file says %q", g.Tag, w.Tag)
	}
	if g.Host != w.Host {
		return fmt.Errorf("Host %q, file says %q", g.Host, w.Host)
	}
	if !bytes.Equal(g.Body, w.Body) {
		return fmt.Errorf("body %q, file says %q", trunc(g.Body), trunc(w.Body))
	}
	for k, v := range w.Headers {
		vals := g.Headers[k]
		if len(vals) != 1 || vals[0] != v {
			return fmt.Errorf("header %s = %q, file says %q", k, vals, v)
		}
	}
	var extra []string
	for k := range g.Headers {
		if _, ok := w.Headers[k]; !ok && !extraOK[k] {
			extra = append(extra, k)
		}
	}
	sort.Strings(extra)
	if len(extra) > 0 {
		return fmt.Errorf("headers %v delivered but not in effect for this entry (have %v)", extra, g.Headers)
	}
	return nil
}

// the sample's tag for an untagged ammo is the empty string at provider level
func tagOrEmpty(s string) string { return s }

func trunc(b []byte) string {
	if len(b) > 80 {
		return string(b[:80]) + "..."
	}
	return string(b)
}
