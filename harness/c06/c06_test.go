// C06 — result completeness: every reported sample is written once, well-formed, flushed.
//
// Oracle: conservation law over a recorded history. The harness knows every
// sample it reported (and, at engine / process level, which reports had
// completed before the end-of-run instant); the bytes that reached the result
// destination after Aggregator.Run returned (or after the pandora process
// exited) are parsed by an independent reader and compared as multisets.
//
// This file: the recording destination (DataSink / afero file) and the phout
// reader. The phout column order is transcribed from the Yandex.Tank phout
// documentation ("phout is compatible with Yandex.Tank", docs/eng/config.md):
//
//	time, tag, interval_real, connect_time, send_time, latency, receive_time,
//	interval_event, size_out, size_in, net_code, proto_code
//
// and joined to netsample.Sample by the names of its exported setters
// (SetUserDuration, SetConnectTime, SetSendTime, SetLatency, SetReceiveTime,
// — none for interval_event —, SetRequestBytes, SetResponseBytes, SetUserNet,
// SetUserProto). The code's own formatter (Sample.String / appendPhout) is never
// used to build an expectation.
package c06

import (
	"bytes"
	"fmt"
	"io"
	"os"
	"regexp"
	"sort"
	"strconv"
	"strings"
	"sync"
	"time"

	"github.com/spf13/afero"
	"github.com/yandex/pandora/core/aggregator/netsample"
	"pgregory.net/rapid"
)

// ---------------- recording destination ----------------

// recorder is the history of one output destination.
type recorder struct {
	mu              sync.Mutex
	buf             bytes.Buffer
	opens           int
	writes          int
	maxWrite        int // bytes of the largest single Write
	closes          int
	writeAfterClose bool
}

func (r *recorder) write(p []byte) {
	r.mu.Lock()
	defer r.mu.Unlock()
	if r.closes > 0 {
		r.writeAfterClose = true
	}
	r.writes++
	r.maxWrite = max(r.maxWrite, len(p))
	r.buf.Write(p)
}

func (r *recorder) largestWrite() int {
	r.mu.Lock()
	defer r.mu.Unlock()
	return r.maxWrite
}

func (r *recorder) close() {
	r.mu.Lock()
	r.closes++
	r.mu.Unlock()
}

func (r *recorder) snapshot() (data []byte, opens, writes, closes int, wac bool) {
	r.mu.Lock()
	defer r.mu.Unlock()
	return append([]byte(nil), r.buf.Bytes()...), r.opens, r.writes, r.closes, r.writeAfterClose
}

// closedOnceAfterLastWrite is the "flushed and closed" half of the property.
func (r *recorder) closedOnceAfterLastWrite(what string) error {
	_, opens, _, closes, wac := r.snapshot()
	if opens != 1 {
		return fmt.Errorf("%s was opened %d times (expected exactly once)", what, opens)
	}
	if closes != 1 {
		return fmt.Errorf("%s was closed %d times after Run returned (expected exactly once)", what, closes)
	}
	if wac {
		return fmt.Errorf("%s received a Write after it had been closed", what)
	}
	return nil
}

// recSink is an in-memory core.DataSink.
type recSink struct{ r *recorder }

type recWC struct{ r *recorder }

func (s recSink) OpenSink() (io.WriteCloser, error) {
	s.r.mu.Lock()
	s.r.opens++
	s.r.mu.Unlock()
	return recWC{s.r}, nil
}
func (w recWC) Write(p []byte) (int, error) { w.r.write(p); return len(p), nil }
func (w recWC) Close() error                { w.r.close(); return nil }

// recFs records what is written to files created through it (phout takes an afero.Fs).
type recFs struct {
	afero.Fs
	r *recorder
}

type recFile struct {
	afero.File
	r *recorder
}

func (f recFs) Create(name string) (afero.File, error) {
	file, err := f.Fs.Create(name)
	if err != nil {
		return nil, err
	}
	f.r.mu.Lock()
	f.r.opens++
	f.r.mu.Unlock()
	return recFile{file, f.r}, nil
}
func (f recFile) Write(p []byte) (int, error) {
	f.r.write(p)
	return f.File.Write(p)
}
func (f recFile) WriteString(s string) (int, error) { return f.Write([]byte(s)) }
func (f recFile) Close() error {
	f.r.close()
	return f.File.Close()
}

// slowRecFs is the file system under the REAL file data sink (core/datasink NewFile opens its
// file with OpenFile): it records what is written to the files opened through it, and models a
// disk / network file system that is slow for a moment: the Write calls number from .. from+count-1
// (all from `from` on when count < 0) take `delay` before the bytes are taken over. A writer that
// obeys io.Writer ("Write must not modify the slice data ... Implementations must not retain p")
// cannot tell the difference except by the time the call takes.
type slowRecFs struct {
	afero.Fs
	r           *recorder
	delay       time.Duration
	from, count int
}

type slowRecFile struct {
	afero.File
	fs *slowRecFs
	mu sync.Mutex
	n  int
}

func (f *slowRecFs) OpenFile(name string, flag int, perm os.FileMode) (afero.File, error) {
	file, err := f.Fs.OpenFile(name, flag, perm)
	if err != nil {
		return nil, err
	}
	f.r.mu.Lock()
	f.r.opens++
	f.r.mu.Unlock()
	return &slowRecFile{File: file, fs: f}, nil
}
func (f *slowRecFs) Create(name string) (afero.File, error) {
	return f.OpenFile(name, os.O_RDWR|os.O_CREATE|os.O_TRUNC, 0666)
}
func (f *slowRecFile) Write(p []byte) (int, error) {
	f.mu.Lock()
	i := f.n
	f.n++
	f.mu.Unlock()
	if fs := f.fs; fs.delay > 0 && i >= fs.from && (fs.count < 0 || i < fs.from+fs.count) {
		time.Sleep(fs.delay)
	}
	f.fs.r.write(p)
	return f.File.Write(p)
}
func (f *slowRecFile) WriteString(s string) (int, error) { return f.Write([]byte(s)) }
func (f *slowRecFile) Close() error {
	f.fs.r.close()
	return f.File.Close()
}

// ---------------- phout samples ----------------

// PhSample is one reported net sample: what the harness puts into a
// netsample.Sample through the exported setters.
type PhSample struct {
	// Discarded: not a gun's sample but the one the engine reports for a discarded shoot
	// (netsample.DiscardedShootSample(), core/engine/instance.go under discard_overflow); the
	// other fields are ignored then.
	Discarded bool `json:"discarded,omitempty"`

	Tag     string `json:"tag"`
	ID      uint64 `json:"id"`
	RTTUs   int64  `json:"interval_real_us"`
	ConnUs  int64  `json:"connect_time_us"`
	SendUs  int64  `json:"send_time_us"`
	LatUs   int64  `json:"latency_us"`
	RecvUs  int64  `json:"receive_time_us"`
	ReqB    int64  `json:"size_out"`
	RespB   int64  `json:"size_in"`
	NetCode int64  `json:"net_code"`
	Proto   int64  `json:"proto_code"`
}

func us(v int64) time.Duration { return time.Duration(v) * time.Microsecond }

// What docs/eng/best_practices/discard-overflow.md says about a discarded request: "marked as
// failed (with a net error `777`, and also tagged as discarded)". Nothing else is set on it.
const (
	discardedTag     = "discarded"
	discardedNetCode = 777
)

// build creates the sample the way a gun does (or, for a discarded shoot, the way the
// instance does).
func (p PhSample) build() *netsample.Sample {
	if p.Discarded {
		return netsample.DiscardedShootSample()
	}
	s := netsample.Acquire(p.Tag)
	s.SetID(p.ID)
	s.SetUserDuration(us(p.RTTUs))
	s.SetConnectTime(us(p.ConnUs))
	s.SetSendTime(us(p.SendUs))
	s.SetLatency(us(p.LatUs))
	s.SetReceiveTime(us(p.RecvUs))
	s.SetRequestBytes(int(p.ReqB))
	s.SetResponseBytes(int(p.RespB))
	s.SetUserNet(int(p.NetCode))
	s.SetUserProto(int(p.Proto))
	return s
}

// key is everything of the expected phout line after the timestamp column, in the
// documented column order.
func (p PhSample) key(ids bool) string {
	if p.Discarded {
		p = PhSample{Tag: discardedTag, NetCode: discardedNetCode}
	}
	var b strings.Builder
	b.WriteString(p.Tag)
	if ids {
		b.WriteByte('#')
		b.WriteString(strconv.FormatUint(p.ID, 10))
	}
	for _, v := range []int64{p.RTTUs, p.ConnUs, p.SendUs, p.LatUs, p.RecvUs, 0 /* interval_event: no setter */, p.ReqB, p.RespB, p.NetCode, p.Proto} {
		b.WriteByte('\t')
		b.WriteString(strconv.FormatInt(v, 10))
	}
	return b.String()
}

// tag alphabet: spaces, '#', '|', unicode — no TAB / LF (the format cannot carry them
// and nothing claims escaping).
var tagRunes = []rune("abcXYZ019 _-/#|.:;,=?&%ж日é✓😀")

func genTag(t *rapid.T, label string) string {
	return rapid.StringOfN(rapid.SampledFrom(tagRunes), 0, 10, -1).Draw(t, label)
}

const maxUs = int64(9_000_000_000_000_000) // time.Duration(v)*Microsecond must not overflow

func genInt(t *rapid.T, label string, lim int64) int64 {
	switch rapid.IntRange(0, 7).Draw(t, label+"Kind") {
	case 0:
		return 0
	case 1:
		return rapid.Int64Range(-1000, -1).Draw(t, label)
	case 2:
		return rapid.Int64Range((1<<32)-2, (1<<32)+100000).Draw(t, label)
	case 3:
		return rapid.Int64Range(-lim, lim).Draw(t, label)
	case 4:
		return rapid.SampledFrom([]int64{lim, -lim, 1 << 31, -(1 << 31), (1 << 31) - 1, 1 << 53, 999, 777}).Draw(t, label)
	default:
		return rapid.Int64Range(0, 100000).Draw(t, label)
	}
}

func genPhSample(t *rapid.T) PhSample {
	const maxInt = int64(^uint64(0) >> 1)
	return PhSample{
		Tag: genTag(t, "tag"),
		// ids are ammo ids in real callers (counters): 0 … 2^63-1
		ID:      rapid.OneOf(rapid.Uint64Range(0, 50), rapid.Uint64Range(0, 1<<63-1)).Draw(t, "id"),
		RTTUs:   genInt(t, "rtt", maxUs),
		ConnUs:  genInt(t, "conn", maxUs),
		SendUs:  genInt(t, "send", maxUs),
		LatUs:   genInt(t, "lat", maxUs),
		RecvUs:  genInt(t, "recv", maxUs),
		ReqB:    genInt(t, "req", maxInt),
		RespB:   genInt(t, "resp", maxInt),
		NetCode: genInt(t, "net", maxInt),
		Proto:   genInt(t, "proto", maxInt),
	}
}

func (p PhSample) hasNegative() bool {
	for _, v := range []int64{p.RTTUs, p.ConnUs, p.SendUs, p.LatUs, p.RecvUs, p.ReqB, p.RespB, p.NetCode, p.Proto} {
		if v < 0 {
			return true
		}
	}
	return false
}

func (p PhSample) hasBig() bool {
	for _, v := range []int64{p.RTTUs, p.ConnUs, p.SendUs, p.LatUs, p.RecvUs, p.ReqB, p.RespB, p.NetCode, p.Proto} {
		if v > 1<<32 || v < -(1<<32) {
			return true
		}
	}
	return false
}

// ---------------- phout reader ----------------

var (
	phTimeRe = regexp.MustCompile(`^[0-9]+\.[0-9]{3}$`)
	phIntRe  = regexp.MustCompile(`^-?[0-9]+$`)
)

type phLine struct {
	tsMs int64
	key  string // columns 2..12 joined by TAB
}

// parsePhout reads a phout destination: every line complete (terminated by LF) and
// of the form `<sec>.<ms> TAB <tag[#id]> (TAB <int>){10}`.
func parsePhout(data []byte) ([]phLine, error) {
	if len(data) == 0 {
		return nil, nil
	}
	if data[len(data)-1] != '\n' {
		tail := data
		if i := bytes.LastIndexByte(data, '\n'); i >= 0 {
			tail = data[i+1:]
		}
		return nil, fmt.Errorf("output does not end with a newline: last line %q is incomplete", clip(string(tail)))
	}
	raw := strings.Split(string(data[:len(data)-1]), "\n")
	out := make([]phLine, 0, len(raw))
	for i, ln := range raw {
		cols := strings.Split(ln, "\t")
		if len(cols) != 12 {
			return nil, fmt.Errorf("line %d has %d tab-separated columns, phout has 12: %q", i+1, len(cols), clip(ln))
		}
		if !phTimeRe.MatchString(cols[0]) {
			return nil, fmt.Errorf("line %d: time column %q is not <unix seconds>.<milliseconds>: %q", i+1, cols[0], clip(ln))
		}
		for j := 2; j < 12; j++ {
			if !phIntRe.MatchString(cols[j]) {
				return nil, fmt.Errorf("line %d: column %d %q is not an integer: %q", i+1, j+1, cols[j], clip(ln))
			}
		}
		dot := len(cols[0]) - 4
		sec, err1 := strconv.ParseInt(cols[0][:dot], 10, 64)
		ms, err2 := strconv.ParseInt(cols[0][dot+1:], 10, 64)
		if err1 != nil || err2 != nil {
			return nil, fmt.Errorf("line %d: time column %q out of range", i+1, cols[0])
		}
		out = append(out, phLine{tsMs: sec*1000 + ms, key: strings.Join(cols[1:], "\t")})
	}
	return out, nil
}

func clip(s string) string {
	if len(s) > 200 {
		return s[:200] + "…"
	}
	return s
}

// window is the wall-clock interval of a case, with a guard against a stepped clock.
type window struct {
	start time.Time
	end   time.Time
}

func (w window) stepped() bool {
	mono := w.end.Sub(w.start)                                   // monotonic
	wall := time.Duration(w.end.UnixNano() - w.start.UnixNano()) // wall clock
	d := mono - wall
	return d > time.Millisecond || d < -time.Millisecond
}

func (w window) checkStamps(lines []phLine) error {
	if w.stepped() {
		return nil
	}
	lo, hi := w.start.UnixNano()/1e6, w.end.UnixNano()/1e6
	for i, l := range lines {
		if l.tsMs < lo || l.tsMs > hi {
			return fmt.Errorf("line %d: timestamp %d.%03d lies outside the interval [%d.%03d, %d.%03d] in which all samples were acquired",
				i+1, l.tsMs/1000, l.tsMs%1000, lo/1000, lo%1000, hi/1000, hi%1000)
		}
	}
	return nil
}

// ---------------- multisets ----------------

type multiset map[string]int

func msOf(keys []string) multiset {
	m := multiset{}
	for _, k := range keys {
		m[k]++
	}
	return m
}

// diff returns up to three keys that a has more often than b.
func (a multiset) minus(b multiset) (n int, examples []string) {
	keys := make([]string, 0, len(a))
	for k := range a {
		keys = append(keys, k)
	}
	sort.Strings(keys)
	for _, k := range keys {
		if d := a[k] - b[k]; d > 0 {
			n += d
			if len(examples) < 3 {
				examples = append(examples, fmt.Sprintf("%q x%d", clip(k), d))
			}
		}
	}
	return
}

func lineKeys(lines []phLine) []string {
	out := make([]string, len(lines))
	for i, l := range lines {
		out[i] = l.key
	}
	return out
}
