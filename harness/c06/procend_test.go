package c06

// (c') How the pandora PROCESS ends when its run ends by itself or fails, with several pools: the outcome the
// engine reports must become the exit status (0 only for a run without failure), and every pool's output must be
// flushed and closed before the process exits - also the output of the pools that did NOT fail and were stopped
// because another pool did.
//
// cmd/vpandora with the `verif` gun (side files count the reports that were started / have completed). Ends:
//   - all pools run out of schedule or ammo                        -> exit 0, lines = reports started = completed
//   - the gun of one pool panics at its N-th shot                   -> exit != 0, the panic value is in the log; just
//     before it panics the gun snapshots the completed-report counters of ALL pools: each pool's output must
//     hold at least that many lines (those reports had returned before anything failed)
//   - the ammo file of one pool is malformed after M good entries  -> exit != 0
// and always: each instance's lines are exactly reports 1..m of that instance (no gap, no duplicate), every line
// is one the gun reported, lines <= reports started.

import (
	"errors"
	"fmt"
	"os"
	"os/exec"
	"path/filepath"
	"sort"
	"strconv"
	"strings"
	"testing"
	"time"

	"verif/harness/internal/vf"

	"pgregory.net/rapid"
)

type ProcPool struct {
	Instances  int  `json:"instances"`
	Rps        int  `json:"rps"` // const ops; 0 = unlimited
	DurationMs int  `json:"rps_duration_ms"`
	IDs        bool `json:"ids"`
	ShotUs     int  `json:"shot_us"`
	// AmmoLines > 0: uri ammo file with that many entries, passes 1 (the pool may end by ammo); 0 = dummy provider
	AmmoLines int `json:"ammo_lines"`
	// BadAmmo: a malformed line follows the AmmoLines good ones
	BadAmmo bool `json:"bad_ammo"`
	// PanicAfter > 0: a gun of this pool panics at its PanicAfter-th shot
	PanicAfter int `json:"panic_after"`
	// Stdout: phout is configured without `destination`: the samples go to the standard output of the process (at most
	// one pool of a case; the log goes to standard error)
	Stdout bool `json:"phout_to_stdout,omitempty"`
}

type ProcCase struct {
	End   string     `json:"end"` // none | panic | bad_ammo
	Pools []ProcPool `json:"pools"`
	Procs int        `json:"gomaxprocs"`
}

func genProcCase(t *rapid.T) ProcCase {
	c := ProcCase{}
	c.End = rapid.SampledFrom([]string{"none", "panic", "panic", "panic", "bad_ammo"}).Draw(t, "end")
	n := rapid.SampledFrom([]int{1, 2, 2, 3, 3}).Draw(t, "pools")
	c.Procs = rapid.SampledFrom([]int{0, 0, 1, 2}).Draw(t, "procs")
	culprit := rapid.IntRange(0, n-1).Draw(t, "culprit")
	for i := 0; i < n; i++ {
		p := ProcPool{}
		p.Instances = rapid.SampledFrom([]int{1, 2, 3, 4, 8}).Draw(t, "instances")
		p.Rps = rapid.SampledFrom([]int{1000, 2000, 5000, 20000, 0}).Draw(t, "rps")
		p.IDs = rapid.Bool().Draw(t, "ids")
		p.ShotUs = rapid.SampledFrom([]int{0, 0, 20, 200}).Draw(t, "shotUs")
		p.DurationMs = 30000
		if c.End == "none" {
			if rapid.IntRange(0, 2).Draw(t, "endByAmmo") == 0 {
				p.AmmoLines = rapid.SampledFrom([]int{1, 50, 700, 3000}).Draw(t, "ammoLines")
				if p.Rps != 0 && p.AmmoLines*1000/p.Rps > 1500 {
					p.Rps = 20000
				}
			} else {
				p.DurationMs = rapid.SampledFrom([]int{150, 400, 1200}).Draw(t, "duration")
			}
		}
		if i == culprit {
			switch c.End {
			case "panic":
				p.PanicAfter = rapid.SampledFrom([]int{1, 50, 500, 500, 3000, 3000}).Draw(t, "panicAfter")
				if p.Rps != 0 && p.PanicAfter*1000*p.Instances/p.Rps > 2500 {
					p.Rps = 0 // the panic must come within seconds
				}
			case "bad_ammo":
				p.BadAmmo = true
				p.AmmoLines = rapid.SampledFrom([]int{1, 40, 700, 3000}).Draw(t, "goodLines")
			}
		}
		c.Pools = append(c.Pools, p)
	}
	if rapid.IntRange(0, 3).Draw(t, "stdoutPhout") == 0 {
		c.Pools[rapid.IntRange(0, n-1).Draw(t, "stdoutPool")].Stdout = true
	}
	return c
}

func checkProcEnd(c ProcCase, o *vf.Obs) error {
	bin := os.Getenv("VERIF_CMD_VPANDORA")
	if bin == "" {
		return fmt.Errorf("harness: VERIF_CMD_VPANDORA is not set (./check builds cmd/vpandora and sets it)")
	}
	dir, err := os.MkdirTemp("", "c06-proc-")
	if err != nil {
		return fmt.Errorf("harness: %v", err)
	}
	defer os.RemoveAll(dir)
	f := func(name string, i int) string { return filepath.Join(dir, fmt.Sprintf("%s%d", name, i)) }
	var posts []string
	for i := range c.Pools {
		posts = append(posts, strconv.Quote(f("post", i)))
	}
	snap := filepath.Join(dir, "snapshot")
	logF := filepath.Join(dir, "out.log")
	nStdout := 0
	for _, p := range c.Pools {
		if p.Stdout {
			nStdout++
		}
	}
	if nStdout > 1 {
		return fmt.Errorf("bad case: more than one pool writes phout to the standard output")
	}
	dest := func(i int, p ProcPool) string {
		if p.Stdout {
			return "" // no destination: standard output, which the harness points at the pool's phout file
		}
		return fmt.Sprintf("      destination: %q\n", f("phout", i))
	}
	var cfg strings.Builder
	cfg.WriteString("pools:\n")
	for i, p := range c.Pools {
		rps := fmt.Sprintf("{type: const, ops: %d, duration: %dms}", p.Rps, p.DurationMs)
		if p.Rps == 0 {
			rps = fmt.Sprintf("{type: unlimited, duration: %dms}", p.DurationMs)
		}
		ammo := "{type: dummy}"
		if p.AmmoLines > 0 {
			var b strings.Builder
			for k := 0; k < p.AmmoLines; k++ {
				fmt.Fprintf(&b, "/p%d/e%d tag%d\n", i, k, k%3)
			}
			if p.BadAmmo {
				b.WriteString("[this header line is never closed\n/after\n")
			}
			if err := os.WriteFile(f("ammo", i), []byte(b.String()), 0o644); err != nil {
				return fmt.Errorf("harness: %v", err)
			}
			ammo = fmt.Sprintf("{type: uri, file: %q, passes: 1}", f("ammo", i))
		}
		fmt.Fprintf(&cfg, `  - id: p%d
    gun:
      type: verif
      pre_file: %q
      post_file: %q
      tag: verif
      shot_us: %d
      panic_after: %d
      snapshot_files: [%s]
      snapshot_out: %q
    ammo: %s
    result:
      type: phout
%s      id: %v
    rps: %s
    startup: {type: once, times: %d}
    discard_overflow: false
`, i, f("pre", i), f("post", i), p.ShotUs, p.PanicAfter, strings.Join(posts, ", "), snap, ammo, dest(i, p), p.IDs, rps, p.Instances)
	}
	cfg.WriteString("log:\n  level: error\n")
	if nStdout > 0 {
		cfg.WriteString("  file: stderr\n") // the log's default file is the standard output as well
	}
	cfgF := filepath.Join(dir, "load.yaml")
	if err := os.WriteFile(cfgF, []byte(cfg.String()), 0o644); err != nil {
		return fmt.Errorf("harness: %v", err)
	}
	out, err := os.Create(logF)
	if err != nil {
		return fmt.Errorf("harness: %v", err)
	}
	defer out.Close()
	cmd := exec.Command(bin, cfgF)
	cmd.Dir = dir
	cmd.Stdout, cmd.Stderr = out, out
	for i, p := range c.Pools {
		if p.Stdout {
			so, err := os.Create(f("phout", i))
			if err != nil {
				return fmt.Errorf("harness: %v", err)
			}
			defer so.Close()
			cmd.Stdout = so
		}
	}
	if c.Procs > 0 {
		cmd.Env = append(os.Environ(), fmt.Sprintf("GOMAXPROCS=%d", c.Procs))
	}
	t0 := time.Now()
	if err := cmd.Start(); err != nil {
		return fmt.Errorf("harness: starting %s: %v", bin, err)
	}
	exited := make(chan error, 1)
	go func() { exited <- cmd.Wait() }()
	var waitErr error
	select {
	case waitErr = <-exited:
	case <-time.After(90 * time.Second):
		_ = cmd.Process.Kill()
		<-exited
		return fmt.Errorf("pandora did not exit within 90 s (end: %s)\n%s\n%s", c.End, cfg.String(), tailOf(logF, 3000))
	}
	o.Note("exit", fmt.Sprint(waitErr))
	o.Note("took_ms", time.Since(t0).Milliseconds())
	logTxt := tailOf(logF, 1<<20)
	var ee *exec.ExitError
	if waitErr != nil && !errors.As(waitErr, &ee) {
		return fmt.Errorf("harness: wait: %v", waitErr)
	}
	// pandora gives its shutdown after a failed run 3 s; on a starved machine that is not a verdict on the code
	if strings.Contains(logTxt, "timeout exceeded") {
		return fmt.Errorf("pandora gave up waiting for its own tasks (timeout exceeded) after end %q\n%s", c.End, tailOf(logF, 3000))
	}
	switch c.End {
	case "none":
		if waitErr != nil {
			return fmt.Errorf("pandora exited with %v after a run in which nothing failed\n%s", waitErr, tailOf(logF, 3000))
		}
	default:
		if waitErr == nil {
			return fmt.Errorf("pandora exited with status 0 although the run failed (end: %s)\n%s", c.End, tailOf(logF, 3000))
		}
		if killedBySignal(waitErr) {
			return fmt.Errorf("pandora was killed (%v) instead of exiting by itself (end: %s)\n%s", waitErr, c.End, tailOf(logF, 3000))
		}
		if c.End == "panic" && !strings.Contains(logTxt, "verif-gun-panic-payload") {
			return fmt.Errorf("the gun's panic value is not in pandora's log: the cause of the failed run is not reported\n%s", tailOf(logF, 3000))
		}
		if c.End == "bad_ammo" && !strings.Contains(logTxt, "never closed") && !strings.Contains(logTxt, "header") {
			return fmt.Errorf("the ammo decoding error is not in pandora's log: the cause of the failed run is not reported\n%s", tailOf(logF, 3000))
		}
	}
	var lower []int64
	if c.End == "panic" {
		b, err := os.ReadFile(snap)
		if err != nil {
			return fmt.Errorf("harness: the panicking gun left no snapshot: %v\n%s", err, tailOf(logF, 2000))
		}
		for _, l := range strings.Fields(string(b)) {
			n, _ := strconv.ParseInt(l, 10, 64)
			lower = append(lower, n)
		}
		if len(lower) != len(c.Pools) {
			return fmt.Errorf("harness: snapshot has %d numbers for %d pools", len(lower), len(c.Pools))
		}
	}
	total := 0
	otherPoolLower := int64(0)
	for i, p := range c.Pools {
		pre, post := fileSize(f("pre", i)), fileSize(f("post", i))
		data, err := os.ReadFile(f("phout", i))
		if err != nil {
			if pre == 0 && os.IsNotExist(err) {
				continue
			}
			return fmt.Errorf("pool p%d: %v\n%s", i, err, tailOf(logF, 2000))
		}
		lines, err := parsePhout(data)
		if err != nil {
			return fmt.Errorf("pool p%d after end %q (process: %v; %d reports started, %d completed): %v", i, c.End, waitErr, pre, post, err)
		}
		total += len(lines)
		per := map[int][]int{}
		for k, l := range lines {
			cols := strings.Split(l.key, "\t")
			m := sigTagRe.FindStringSubmatch(cols[0])
			if m == nil || (m[2] != "") != p.IDs {
				return fmt.Errorf("pool p%d line %d: tag column %q is not what the gun reported (ids %v)", i, k+1, cols[0], p.IDs)
			}
			inst, _ := strconv.Atoi(m[1])
			n, _ := strconv.Atoi(cols[8])
			want := PhSample{Tag: "verif_i" + m[1], ID: uint64(n), RTTUs: int64(n), ReqB: int64(inst), RespB: int64(n), Proto: 200}.key(p.IDs)
			if l.key != want {
				return fmt.Errorf("pool p%d line %d: %q is not a sample the gun reported (expected %q)", i, k+1, l.key, want)
			}
			per[inst] = append(per[inst], n)
		}
		for inst, ns := range per {
			sort.Ints(ns)
			for k, n := range ns {
				if n != k+1 {
					if k > 0 && ns[k-1] == n {
						return fmt.Errorf("pool p%d instance %d: report %d appears more than once in the output", i, inst, n)
					}
					return fmt.Errorf("pool p%d instance %d: report %d is missing from the output although later reports (up to %d) are present", i, inst, k+1, ns[len(ns)-1])
				}
			}
		}
		if int64(len(lines)) > pre {
			return fmt.Errorf("pool p%d: %d lines in the output but only %d reports were ever started", i, len(lines), pre)
		}
		if c.End == "none" && (int64(len(lines)) != pre || pre != post) {
			return fmt.Errorf("pool p%d: the run ended by itself: %d reports started, %d completed, %d lines in the output", i, pre, post, len(lines))
		}
		if c.End == "none" && p.AmmoLines > 0 && p.Rps == 0 && len(lines) != p.AmmoLines {
			return fmt.Errorf("pool p%d: %d ammo and an unlimited schedule, but %d lines in the output", i, p.AmmoLines, len(lines))
		}
		if lower != nil {
			if int64(len(lines)) < lower[i] {
				o.Class("lost_completed_reports")
				who := "the pool whose gun panicked"
				if p.PanicAfter == 0 {
					who = "a pool that did not fail itself"
				}
				return fmt.Errorf("pool p%d (%s): %d reports had completed before the gun of another instance panicked, but the output holds only %d lines after the process exited (%v; %d reports started in total)",
					i, who, lower[i], len(lines), waitErr, pre)
			}
			if p.PanicAfter == 0 {
				otherPoolLower += lower[i]
			}
		}
	}
	o.Class("end_" + c.End)
	o.Class(fmt.Sprintf("pools_%d", len(c.Pools)))
	o.ClassIf(c.Procs == 1, "gomaxprocs_1")
	o.ClassIf(c.End == "panic" && len(c.Pools) > 1 && otherPoolLower >= 100, "panic_other_pools_had_ge_100_completed_reports")
	o.ClassIf(c.End == "panic" && len(c.Pools) > 1 && otherPoolLower >= 1000, "panic_other_pools_had_ge_1000_completed_reports")
	o.ClassIf(c.End != "none" && len(c.Pools) > 1, "failure_with_several_pools")
	ammoEnd := false
	for _, p := range c.Pools {
		ammoEnd = ammoEnd || (p.AmmoLines > 0 && !p.BadAmmo)
	}
	o.ClassIf(c.End == "none" && ammoEnd, "ended_by_ammo")
	o.ClassIf(nStdout > 0, "phout_to_stdout")
	o.ClassIf(nStdout > 0 && c.End == "none", "phout_to_stdout_run_ended_by_itself")
	o.ClassIf(nStdout > 0 && c.End != "none", "phout_to_stdout_run_failed")
	if total >= 100 && (len(c.Pools) > 1 || c.End != "none") {
		o.NonTrivial()
	}
	return nil
}

// TestProcessEnd runs the trials in parallel (they are wall-clock bound).
func TestProcessEnd(t *testing.T) {
	r := vf.Start(t, "C06")
	vf.Batch(r, r.Pick(24, 120), r.Pick(12, 12), genProcCase, vf.LoadTolerant(25*time.Millisecond, checkProcEnd))
}
