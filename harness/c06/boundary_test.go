package c06

// (a') Encoder aggregators at buffer boundaries: samples of one fixed encoded length are
// reported n times, for EVERY n of a window that is at least one "buffer period" wide, so
// that for some n of the window the bytes encoded up to the last sample end exactly on / just
// beyond a multiple of an internal buffer size (the 4 KiB minimum every buffer of the
// encoders is rounded up to, the configured buffer_size, the 512 KiB default). Flush
// intervals include 0 (no periodic flush) and one hour, where only the final flush of Run
// can bring anything to the sink. The oracle is the one of TestEncoderHistory (encRun).

import (
	"encoding/json"
	"fmt"
	"strings"
	"testing"

	"verif/harness/internal/vf"

	"pgregory.net/rapid"
)

type EncSweepCase struct {
	Kind          string `json:"kind"`              // jsonlines | encoder | closer
	BufferBytes   int    `json:"buffer_size"`       // 0 = default
	FlushUs       int    `json:"flush_interval_us"` // 0 = no periodic flush
	SortKeys      bool   `json:"sort_map_keys"`
	SampleKind    int    `json:"sample_kind"` // JS.Kind: 1 map, 2 string, 4 list
	LineLen       int    `json:"line_len"`    // bytes of one line (reference encoding + LF)
	From          int    `json:"reports_from"`
	To            int    `json:"reports_to"` // every report count From..To is run
	Reporters     int    `json:"reporters"`  // the n reports are dealt out to this many goroutines
	RunDelayUs    int    `json:"run_started_after_us"`
	CancelDelayUs int    `json:"cancel_after_last_report_us"`
}

const (
	minBuf     = 4096      // coreutil.MinimalBufferSize: smaller buffer_size values are rounded up to it
	defaultBuf = 512 << 10 // coreutil.DefaultBufferSize
	hourUs     = 3_600_000_000
)

// sweepSample builds a sample whose reference line (encoding/json + LF) has exactly lineLen
// bytes, or the shortest possible one of that kind when lineLen is below it.
func sweepSample(kind, lineLen int) (JS, int, error) {
	j := JS{Kind: kind, N: 7}
	b, err := json.Marshal(j.value())
	if err != nil {
		return j, 0, err
	}
	if pad := lineLen - (len(b) + 1); pad > 0 {
		const letters = "abcdefghijklmnopqrstuvwxyzABCDEFGHIJKLMNOPQRSTUVWXYZ0123456789"
		j.S = strings.Repeat(letters, pad/len(letters)+1)[:pad]
	}
	b, err = json.Marshal(j.value())
	return j, len(b) + 1, err
}

func genEncSweepCase(t *rapid.T) EncSweepCase {
	c := EncSweepCase{}
	c.Kind = rapid.SampledFrom([]string{"jsonlines", "jsonlines", "encoder", "closer"}).Draw(t, "kind")
	c.FlushUs = rapid.SampledFrom([]int{0, 0, hourUs, hourUs, 1000000, 1000}).Draw(t, "flush")
	c.SortKeys = rapid.Bool().Draw(t, "sortKeys")
	c.SampleKind = rapid.SampledFrom([]int{2, 2, 1, 4}).Draw(t, "sampleKind")
	c.Reporters = rapid.SampledFrom([]int{1, 1, 1, 2, 3}).Draw(t, "reporters")
	c.RunDelayUs = rapid.SampledFrom([]int{0, 0, 0, 200}).Draw(t, "runDelay")
	c.CancelDelayUs = rapid.SampledFrom([]int{0, 0, 0, 100}).Draw(t, "cancelDelay")

	if rapid.IntRange(0, 9).Draw(t, "big") == 0 {
		// the default 512 KiB buffer: long lines, a few counts around the one that fills it
		c.BufferBytes = 0
		c.LineLen = rapid.SampledFrom([]int{8192, 16384, 4096, 10000, 32768}).Draw(t, "bigLine")
		mid := defaultBuf / c.LineLen
		c.From, c.To = mid-1, mid+2
		return c
	}
	c.BufferBytes = rapid.SampledFrom([]int{0, 0, 1, 4096, 5000, 6000, 8192, 12288}).Draw(t, "buf")
	switch rapid.IntRange(0, 3).Draw(t, "lenKind") {
	case 0: // divides 4 KiB: n*LineLen hits every multiple exactly
		c.LineLen = 1 << rapid.IntRange(5, 12).Draw(t, "lenPow2")
	case 1: // around the buffer sizes themselves
		c.LineLen = rapid.SampledFrom([]int{4095, 4096, 4097, 2047, 2049, 8192, 8193}).Draw(t, "lenNear")
	default:
		c.LineLen = rapid.IntRange(32, 900).Draw(t, "len")
	}
	// the boundary unit: the 4 KiB minimum, or the configured buffer size
	unit := minBuf
	if c.BufferBytes > minBuf && rapid.Bool().Draw(t, "unitIsBuffer") {
		unit = c.BufferBytes
	}
	period := (unit + c.LineLen - 1) / c.LineLen
	// the window: a whole period (+2) of consecutive counts, starting at the j-th period; the
	// work (counts x reports per count) stays below ~80k encoded samples
	maxJ := min(6, 80000/(period*period+1))
	j := 0
	if maxJ > 0 {
		j = rapid.IntRange(0, maxJ).Draw(t, "periodNo")
	}
	c.From = max(1, j*period-1)
	c.To = c.From + period + 1
	return c
}

func checkEncSweep(c EncSweepCase, o *vf.Obs) error {
	sample, lineLen, err := sweepSample(c.SampleKind, c.LineLen)
	if err != nil {
		return fmt.Errorf("harness: reference encoding: %v", err)
	}
	if c.From < 0 || c.To < c.From || c.To-c.From > 5000 || c.To > 200000 {
		return fmt.Errorf("harness: bad window %d..%d", c.From, c.To)
	}
	memo := map[string]string{}
	reporters := max(1, c.Reporters)
	var exact, crossed, nonEmpty, withDrops int
	prevBytes := -1
	for n := c.From; n <= c.To; n++ {
		// n reports of the one sample, dealt out to the reporters; the queue holds them all, so the
		// bounded queue does not overflow and the number of encoded lines is n
		ec := EncCase{Kind: c.Kind, Queue: max(1, n), FlushUs: c.FlushUs, BufferBytes: c.BufferBytes, SortKeys: c.SortKeys,
			Rounds: 1, RunDelayUs: c.RunDelayUs, CancelDelayUs: c.CancelDelayUs}
		for r := 0; r < reporters; r++ {
			k := n / reporters
			if r < n%reporters {
				k++
			}
			rep := make([]JS, k)
			for i := range rep {
				rep[i] = sample
			}
			ec.Reporters = append(ec.Reporters, rep)
		}
		st, err := encRun(ec, memo)
		if err != nil {
			return fmt.Errorf("%d reports of a sample whose line has %d bytes (%d bytes in all): %w", n, lineLen, n*lineLen, err)
		}
		if st.dropped != 0 {
			withDrops++ // not expected (ReporterConfig: "on queue overflow, samples are dropped"), but counted drops are within the property
		}
		if st.bytes > 0 {
			nonEmpty++
			if st.bytes%minBuf == 0 {
				exact++
			}
			if prevBytes >= 0 && st.bytes/minBuf > prevBytes/minBuf {
				crossed++
			}
		}
		prevBytes = st.bytes
	}

	o.NonTrivial()
	o.Class("kind_" + c.Kind)
	o.ClassIf(withDrops == 0, "no_drops_at_any_count")
	o.ClassIf(nonEmpty > 0 && crossed > 0, "crossed_4k_multiple")
	o.ClassIf(exact > 0, "output_exact_4k_multiple")
	o.ClassIf(c.FlushUs == 0, "flush_never")
	o.ClassIf(c.FlushUs == 0 || c.FlushUs >= hourUs, "final_flush_only")
	o.ClassIf(c.FlushUs > 0 && c.FlushUs <= 1000, "flush_1ms")
	o.ClassIf(c.BufferBytes == 0, "buffer_default")
	o.ClassIf(c.BufferBytes > minBuf, "buffer_above_4k")
	o.ClassIf(c.BufferBytes > 0 && c.BufferBytes <= minBuf, "buffer_4k_minimum")
	o.ClassIf(c.To*lineLen >= defaultBuf, "fills_default_buffer")
	o.ClassIf(lineLen >= minBuf, "line_ge_4k")
	o.ClassIf(minBuf%lineLen == 0, "line_divides_4k")
	o.ClassIf(reporters >= 2, "reporters_ge_2")
	o.ClassIf(c.From > (minBuf+lineLen-1)/lineLen, "beyond_first_period")
	o.Note("counts", c.To-c.From+1)
	o.Note("line_len", lineLen)
	o.Note("max_bytes", c.To*lineLen)
	return nil
}

func TestEncoderBoundary(t *testing.T) {
	r := vf.Start(t, "C06")
	vf.Check(r, genEncSweepCase, checkEncSweep)
}
