package c06

// (a'') Encoder aggregators writing through the REAL file data sink (core/datasink NewFile, the
// `sink: {type: file, path: ...}` of the jsonlines aggregator) on a file system that is slow for
// a moment, while reports keep coming in bursts:
//
//   - "slow moments": short lines, flush interval 1-5 ms, a few Write calls of 1-6 ms each
//     (a loaded disk, a network file system): the aggregator is inside / just past a slow Write
//     while the next samples are queued, encoded and flushed;
//   - "big bursts": lines of 8-64 KiB reported in bursts of more than the encoder's buffer
//     (512 KiB by default) between two flushes, so that the encoder hands one chunk larger than
//     its buffer to the sink and goes on encoding.
//
// Every sample is unique (reporter / sequence number in the sample, varying line length), so
// "exactly once" is visible in the content. The oracle is the one of TestEncoderHistory (encRun):
// every line one valid JSON value equal to a reported sample, no line more often than reported,
// lines + counted drops = reports, the file opened once and closed once after the last write,
// file content = recorded writes.

import (
	"fmt"
	"testing"

	"verif/harness/internal/vf"

	"pgregory.net/rapid"
)

type FileSinkCase struct {
	Shape         string `json:"shape"`             // slow_moments | big_bursts
	Kind          string `json:"kind"`              // jsonlines | encoder | closer
	Queue         int    `json:"sample_queue_size"` // 0 = as many as there are reports (no overflow possible)
	FlushUs       int    `json:"flush_interval_us"`
	BufferBytes   int    `json:"buffer_size"` // 0 = default (512 KiB)
	SortKeys      bool   `json:"sort_map_keys"`
	WriteDelayUs  int    `json:"write_delay_us"`
	SlowFrom      int    `json:"slow_from_write"`
	SlowWrites    int    `json:"slow_writes"` // < 0: every write from SlowFrom on
	Reporters     int    `json:"reporters"`
	Bursts        int    `json:"bursts"` // per reporter
	BurstLen      int    `json:"burst_len"`
	BurstPauseUs  int    `json:"burst_pause_us"`
	SampleKind    int    `json:"sample_kind"` // JS.Kind: 0 *struct, 1 map, 2 string, 4 list, 5 struct
	LineBase      int    `json:"line_pad_base"`
	LineSpread    int    `json:"line_pad_spread"`
	RunDelayUs    int    `json:"run_started_after_us"`
	CancelDelayUs int    `json:"cancel_after_last_report_us"`
}

func genFileSinkCase(t *rapid.T) FileSinkCase {
	c := FileSinkCase{}
	c.Kind = rapid.SampledFrom([]string{"jsonlines", "jsonlines", "jsonlines", "encoder", "closer"}).Draw(t, "kind")
	c.SortKeys = rapid.Bool().Draw(t, "sortKeys")
	c.SampleKind = rapid.SampledFrom([]int{0, 1, 2, 4, 5}).Draw(t, "sampleKind")
	c.RunDelayUs = rapid.SampledFrom([]int{0, 0, 0, 200}).Draw(t, "runDelay")
	c.CancelDelayUs = rapid.SampledFrom([]int{0, 0, 0, 100, 1500}).Draw(t, "cancelDelay")
	if rapid.IntRange(0, 2).Draw(t, "shape") > 0 {
		c.Shape = "slow_moments"
		c.FlushUs = rapid.SampledFrom([]int{1000, 1000, 2000, 3000, 5000}).Draw(t, "flush")
		c.BufferBytes = rapid.SampledFrom([]int{0, 0, 1, 4096, 6000, 16384}).Draw(t, "buf")
		c.WriteDelayUs = rapid.IntRange(1000, 6000).Draw(t, "writeDelay")
		c.SlowFrom = rapid.IntRange(0, 4).Draw(t, "slowFrom")
		c.SlowWrites = rapid.SampledFrom([]int{1, 2, 3, 5, 8}).Draw(t, "slowWrites")
		c.Reporters = rapid.IntRange(1, 4).Draw(t, "reporters")
		c.Bursts = rapid.IntRange(6, 24).Draw(t, "bursts")
		c.BurstLen = rapid.SampledFrom([]int{1, 3, 10, 30, 60}).Draw(t, "burstLen")
		c.BurstPauseUs = rapid.SampledFrom([]int{300, 700, 1000, 2000}).Draw(t, "burstPause")
		c.LineBase = rapid.SampledFrom([]int{0, 10, 100, 700}).Draw(t, "lineBase")
		c.LineSpread = rapid.SampledFrom([]int{0, 7, 50, 300}).Draw(t, "lineSpread")
		// the queue: holds everything (no drop possible), or is small enough to overflow while
		// the aggregator sits in a slow Write (drops, which must be counted)
		c.Queue = rapid.SampledFrom([]int{0, 0, 0, 8, 64, 512}).Draw(t, "queue")
		return c
	}
	c.Shape = "big_bursts"
	c.FlushUs = rapid.SampledFrom([]int{2000, 5000, 5000, 50000, 1000000}).Draw(t, "flush")
	c.BufferBytes = rapid.SampledFrom([]int{0, 0, 0, 65536}).Draw(t, "buf")
	buf := c.BufferBytes
	if buf == 0 {
		buf = defaultBuf
	}
	c.WriteDelayUs = rapid.SampledFrom([]int{0, 1000, 3000, 5000}).Draw(t, "writeDelay")
	c.SlowFrom = rapid.IntRange(0, 1).Draw(t, "slowFrom")
	c.SlowWrites = rapid.SampledFrom([]int{1, 2, -1}).Draw(t, "slowWrites")
	c.Reporters = rapid.IntRange(1, 2).Draw(t, "reporters")
	c.Bursts = rapid.IntRange(2, 4).Draw(t, "bursts")
	c.LineBase = rapid.SampledFrom([]int{8192, 16384, 32768, 65536}).Draw(t, "lineBase")
	c.LineSpread = rapid.SampledFrom([]int{0, 100, 3000}).Draw(t, "lineSpread")
	// one burst of all reporters together: 1.1 - 2 buffers
	c.BurstLen = (buf*rapid.IntRange(11, 20).Draw(t, "burstTenths")/10)/(c.LineBase*c.Reporters) + 1
	c.BurstPauseUs = rapid.SampledFrom([]int{1000, 3000, 6000}).Draw(t, "burstPause")
	c.Queue = rapid.SampledFrom([]int{0, 0, 0, 16}).Draw(t, "queue")
	return c
}

func checkFileSink(c FileSinkCase, o *vf.Obs) error {
	reporters, bursts, burstLen := max(1, c.Reporters), max(1, c.Bursts), max(1, c.BurstLen)
	perReporter := bursts * burstLen
	total := reporters * perReporter
	if total > 40000 || (c.LineBase+c.LineSpread)*total > 64<<20 {
		return fmt.Errorf("harness: case too large: %d reports of up to %d bytes", total, c.LineBase+c.LineSpread)
	}
	ec := EncCase{Kind: c.Kind, Queue: c.Queue, FlushUs: c.FlushUs, BufferBytes: c.BufferBytes, SortKeys: c.SortKeys, Rounds: 1,
		RunDelayUs: c.RunDelayUs, CancelDelayUs: c.CancelDelayUs,
		Sink: "file", WriteDelayUs: c.WriteDelayUs, SlowFrom: c.SlowFrom, SlowWrites: c.SlowWrites,
		BurstLen: burstLen, BurstPauseUs: c.BurstPauseUs}
	if ec.Queue <= 0 {
		ec.Queue = total
	}
	for r := 0; r < reporters; r++ {
		rep := make([]JS, perReporter)
		for i := range rep {
			// unique: reporter / sequence number; the line length varies from sample to sample
			rep[i] = JS{Kind: c.SampleKind, S: fmt.Sprintf("%d/%d:", r, i), N: int64(r)*1_000_000 + int64(i), B: i%3 == 0,
				Pad: c.LineBase + (i*7+r)%(c.LineSpread+1)}
		}
		ec.Reporters = append(ec.Reporters, rep)
	}
	st, err := encRun(ec, nil)
	if err != nil {
		return err
	}
	if st.distinct != total {
		return fmt.Errorf("harness: %d reports but %d distinct samples", total, st.distinct)
	}
	buf := c.BufferBytes
	switch {
	case c.Kind == "closer":
		buf = minBuf // lineEncoder's own bufio.Writer
	case buf == 0:
		buf = defaultBuf
	case buf < minBuf:
		buf = minBuf
	}
	slowReached := c.WriteDelayUs > 0 && st.writes > c.SlowFrom
	o.NonTrivial()
	o.Class("shape_" + c.Shape)
	o.Class("kind_" + c.Kind)
	o.ClassIf(slowReached, "slow_write_reached")
	o.ClassIf(slowReached && c.FlushUs <= 5000 && st.writes >= c.SlowFrom+2, "write_after_slow_write")
	o.ClassIf(c.WriteDelayUs >= c.FlushUs && slowReached, "write_slower_than_flush_interval")
	o.ClassIf(st.maxWrite > buf, "chunk_larger_than_buffer")
	o.ClassIf(st.maxWrite > defaultBuf, "chunk_gt_512k")
	o.ClassIf(st.maxWrite > buf && slowReached, "chunk_larger_than_buffer_and_slow_write")
	o.ClassIf(c.BufferBytes == 0, "buffer_default")
	o.ClassIf(st.dropped > 0, "drops")
	o.ClassIf(st.dropped == 0, "no_drops")
	o.ClassIf(c.Queue == 0, "queue_holds_all")
	o.ClassIf(reporters >= 2, "reporters_ge_2")
	o.ClassIf(st.writes >= 5, "writes_ge_5")
	o.Note("reports", total)
	o.Note("lines", st.lines)
	o.Note("dropped", st.dropped)
	o.Note("writes", st.writes)
	o.Note("max_write", st.maxWrite)
	return nil
}

func TestEncoderFileSink(t *testing.T) {
	r := vf.Start(t, "C06")
	vf.Check(r, genFileSinkCase, checkFileSink)
}
