package c06

// (c) Signals, subprocess: the custom pandora binary cmd/vpandora (pandora's main +
// a `verif` gun that appends one byte to a side file BEFORE each Report and one byte
// to another side file AFTER Report returned) writes real phout to a real file; the
// parent reads the "after" counter c0, sends SIGINT / SIGTERM, waits for the exit
// and compares:  c0 <= complete well-formed lines <= "before" counter.

import (
	"errors"
	"fmt"
	"os"
	"os/exec"
	"path/filepath"
	"regexp"
	"sort"
	"strconv"
	"strings"
	"syscall"
	"testing"
	"time"

	"verif/harness/internal/vf"

	"pgregory.net/rapid"
)

// Two ways in which the current CLI loses completed reports on a signal:
const (
	// cli.awaitPandoraTermination log.Fatal's (os.Exit) as soon as Engine.Run returned on the
	// cancel, without Engine.Wait: the aggregator's drain + final flush race with the exit.
	findingSignal = "signal-exit-before-flush"
	// signal.Notify is only called after the engine was started: a signal in between kills the
	// process through the default disposition.
	findingEarly = "signal-before-handler-installed"
)

type SigCase struct {
	Signal       string `json:"signal"` // INT | TERM | none (the run ends by itself)
	Instances    int    `json:"instances"`
	Rps          int    `json:"rps"`        // const ops; 0 = `unlimited` schedule
	Procs        int    `json:"gomaxprocs"` // GOMAXPROCS of the pandora process, 0 = default
	IDs          bool   `json:"ids"`
	MinReports   int    `json:"min_completed_reports_before_signal"`
	ExtraDelayMs int    `json:"extra_delay_ms"`
	DurationMs   int    `json:"rps_duration_ms"`
}

func genSigCase(t *rapid.T) SigCase {
	c := SigCase{}
	c.Signal = rapid.SampledFrom([]string{"INT", "TERM", "INT", "TERM", "INT", "TERM", "none"}).Draw(t, "signal")
	c.Instances = rapid.SampledFrom([]int{2, 3, 4, 2, 3, 4, 16}).Draw(t, "instances")
	c.Rps = rapid.SampledFrom([]int{1000, 2000, 5000, 20000, 0}).Draw(t, "rps")
	c.Procs = rapid.SampledFrom([]int{0, 0, 1, 2}).Draw(t, "procs")
	c.IDs = rapid.Bool().Draw(t, "ids")
	c.MinReports = rapid.SampledFrom([]int{100, 100, 500, 3000}).Draw(t, "minReports")
	// phout flushes on a 1 s ticker: delays on both sides of it
	c.ExtraDelayMs = rapid.SampledFrom([]int{0, 0, 3, 30, 300, 1100, 1600}).Draw(t, "extraDelay")
	c.DurationMs = 30000
	if c.Signal == "none" {
		c.DurationMs = rapid.SampledFrom([]int{150, 400, 1200}).Draw(t, "duration")
	}
	return c
}

func fileSize(p string) int64 {
	st, err := os.Stat(p)
	if err != nil {
		return 0
	}
	return st.Size()
}

func tailOf(p string, n int) string {
	b, _ := os.ReadFile(p)
	if len(b) > n {
		b = b[len(b)-n:]
	}
	return string(b)
}

var sigTagRe = regexp.MustCompile(`^verif_i([0-9]+)(#([0-9]+))?$`)

// errLost marks the shape of the signal findings: completed reports missing / last line cut.
// killed = the process did not exit by itself but was terminated by the signal's default action.
type errLost struct {
	msg    string
	killed bool
}

func killedBySignal(err error) bool {
	var ee *exec.ExitError
	if errors.As(err, &ee) {
		if ws, ok := ee.Sys().(syscall.WaitStatus); ok {
			return ws.Signaled()
		}
	}
	return false
}

func (e *errLost) Error() string { return e.msg }

func checkSignal(c SigCase, o *vf.Obs) error {
	bin := os.Getenv("VERIF_CMD_VPANDORA")
	if bin == "" {
		return fmt.Errorf("harness: VERIF_CMD_VPANDORA is not set (./check builds cmd/vpandora and sets it)")
	}
	dir, err := os.MkdirTemp("", "c06-sig-")
	if err != nil {
		return fmt.Errorf("harness: %v", err)
	}
	defer os.RemoveAll(dir)
	preF, postF, phoutF, logF := filepath.Join(dir, "pre"), filepath.Join(dir, "post"), filepath.Join(dir, "phout.log"), filepath.Join(dir, "out.log")
	rps := fmt.Sprintf("{type: const, ops: %d, duration: %dms}", c.Rps, c.DurationMs)
	if c.Rps == 0 {
		rps = fmt.Sprintf("{type: unlimited, duration: %dms}", c.DurationMs)
	}
	cfg := fmt.Sprintf(`pools:
  - id: p
    gun:
      type: verif
      pre_file: %q
      post_file: %q
      tag: verif
    ammo:
      type: dummy
    result:
      type: phout
      destination: %q
      id: %v
    rps: %s
    startup: {type: once, times: %d}
    discard_overflow: false
log:
  level: error
`, preF, postF, phoutF, c.IDs, rps, c.Instances)
	cfgF := filepath.Join(dir, "load.yaml")
	if err := os.WriteFile(cfgF, []byte(cfg), 0o644); err != nil {
		return fmt.Errorf("harness: %v", err)
	}
	out, err := os.Create(logF)
	if err != nil {
		return fmt.Errorf("harness: %v", err)
	}
	defer out.Close()
	cmd := exec.Command(bin, cfgF)
	cmd.Dir = dir
	cmd.Stdout, cmd.Stderr = out, out
	if c.Procs > 0 {
		cmd.Env = append(os.Environ(), fmt.Sprintf("GOMAXPROCS=%d", c.Procs))
	}
	if err := cmd.Start(); err != nil {
		return fmt.Errorf("harness: starting %s: %v", bin, err)
	}
	exited := make(chan error, 1)
	go func() { exited <- cmd.Wait() }()
	kill := func() { _ = cmd.Process.Kill(); <-exited }

	var c0 int64
	var waitErr error
	var exitTook time.Duration
	if c.Signal == "none" {
		select {
		case waitErr = <-exited:
		case <-time.After(time.Duration(c.DurationMs)*time.Millisecond + 60*time.Second):
			kill()
			return fmt.Errorf("pandora did not exit within 60 s after the end of its %d ms load profile\n%s", c.DurationMs, tailOf(logF, 2000))
		}
		if waitErr != nil {
			return fmt.Errorf("pandora exited with %v after a run that ended by itself\n%s", waitErr, tailOf(logF, 2000))
		}
		c0 = fileSize(postF)
	} else {
		// wait until enough reports have completed
		deadline := time.Now().Add(60 * time.Second)
		for fileSize(postF) < int64(c.MinReports) {
			select {
			case e := <-exited:
				return fmt.Errorf("harness: pandora exited (%v) before %d reports completed\n%s", e, c.MinReports, tailOf(logF, 2000))
			default:
			}
			if time.Now().After(deadline) {
				kill()
				return fmt.Errorf("harness: only %d of %d reports completed within 60 s\n%s", fileSize(postF), c.MinReports, tailOf(logF, 2000))
			}
			time.Sleep(2 * time.Millisecond)
		}
		time.Sleep(time.Duration(c.ExtraDelayMs) * time.Millisecond)
		c0 = fileSize(postF) // these reports have returned BEFORE the signal is sent
		sig := syscall.SIGINT
		if c.Signal == "TERM" {
			sig = syscall.SIGTERM
		}
		t0 := time.Now()
		if err := cmd.Process.Signal(sig); err != nil {
			kill()
			return fmt.Errorf("harness: signal: %v", err)
		}
		select {
		case waitErr = <-exited:
			exitTook = time.Since(t0)
		case <-time.After(40 * time.Second):
			kill()
			return fmt.Errorf("pandora did not exit within 40 s after SIG%s\n%s", c.Signal, tailOf(logF, 2000))
		}
	}
	pre := fileSize(preF)
	post := fileSize(postF)
	data, err := os.ReadFile(phoutF)
	if err != nil {
		return fmt.Errorf("harness: %v\n%s", err, tailOf(logF, 2000))
	}
	o.Note("c0", c0)
	o.Note("pre", pre)
	o.Note("post", post)
	o.Note("phout_bytes", len(data))
	o.Note("exit", fmt.Sprint(waitErr))
	o.Note("exit_took_ms", exitTook.Milliseconds())

	how := "SIG" + c.Signal
	if c.Signal == "none" {
		how = "the end of the run"
	}
	lines, err := parsePhout(data)
	if err != nil {
		o.Class("output_malformed")
		o.ClassIf(killedBySignal(waitErr), "lost/killed_by_default_action")
		return &errLost{fmt.Sprintf("after %s (%d reports had completed before it, %d were started in total; process: %v): %v", how, c0, pre, waitErr, err), killedBySignal(waitErr)}
	}
	o.Note("lines", len(lines))
	// each instance reports n = 1, 2, 3, … sequentially: its lines must be exactly 1..m
	per := map[int][]int{}
	for i, l := range lines {
		cols := strings.Split(l.key, "\t")
		m := sigTagRe.FindStringSubmatch(cols[0])
		if m == nil || (m[2] != "") != c.IDs {
			return fmt.Errorf("line %d: tag column %q is not what the gun reported (ids %v)", i+1, cols[0], c.IDs)
		}
		inst, _ := strconv.Atoi(m[1])
		n, _ := strconv.Atoi(cols[8]) // size_in = n
		want := PhSample{Tag: "verif_i" + m[1], ID: uint64(n), RTTUs: int64(n), ReqB: int64(inst), RespB: int64(n), Proto: 200}.key(c.IDs)
		if l.key != want {
			return fmt.Errorf("line %d: %q is not a sample the gun reported (expected %q)", i+1, l.key, want)
		}
		per[inst] = append(per[inst], n)
	}
	for inst, ns := range per {
		sort.Ints(ns)
		for i, n := range ns {
			if n != i+1 {
				if i > 0 && ns[i-1] == n {
					return fmt.Errorf("instance %d: report %d appears more than once in the output", inst, n)
				}
				return fmt.Errorf("instance %d: report %d is missing from the output although later reports (up to %d) are present", inst, i+1, ns[len(ns)-1])
			}
		}
	}
	if int64(len(lines)) > pre {
		return fmt.Errorf("%d lines in the output but only %d reports were ever started", len(lines), pre)
	}
	if int64(len(lines)) < c0 {
		o.Class("lost_completed_reports")
		o.ClassIf(c.Rps == 0, "lost/rps_unlimited")
		o.ClassIf(c.Procs == 1, "lost/gomaxprocs_1")
		o.ClassIf(c.Instances > 4, "lost/instances_16")
		o.ClassIf(c.Signal == "INT", "lost/INT")
		o.ClassIf(killedBySignal(waitErr), "lost/killed_by_default_action")
		return &errLost{fmt.Sprintf("%d reports had completed before %s was sent, but the output holds only %d lines after the process exited (%v, %d ms later; %d reports started in total)",
			c0, how, len(lines), waitErr, exitTook.Milliseconds(), pre), killedBySignal(waitErr)}
	}
	if c.Signal == "none" && (int64(len(lines)) != pre || pre != post) {
		return fmt.Errorf("run ended by itself: %d reports started, %d completed, %d lines", pre, post, len(lines))
	}

	o.Class("signal_" + c.Signal)
	o.ClassIf(c.Rps == 0, "rps_unlimited")
	o.ClassIf(c.Procs == 1, "gomaxprocs_1")
	o.ClassIf(c.Instances > 4, "instances_16")
	o.ClassIf(c.Signal != "none" && c.ExtraDelayMs >= 1000, "after_first_flush_tick")
	o.ClassIf(c.Signal != "none" && c.ExtraDelayMs < 1000, "before_first_flush_tick")
	o.ClassIf(int64(len(lines)) > c0, "lines_beyond_c0")
	o.ClassIf(pre > int64(len(lines)), "reports_after_drain")
	if c0 >= 100 {
		o.NonTrivial()
	}
	return nil
}

// TestSignals runs the trials in parallel (they are wall-clock bound).
func TestSignals(t *testing.T) {
	r := vf.Start(t, "C06")
	known, knownEarly := r.IsKnown(findingSignal), r.IsKnown(findingEarly)
	gen := func(rt *rapid.T) SigCase {
		c := genSigCase(rt)
		if known && c.Signal != "none" {
			// every signal while a run is in progress has the shape of the known finding
			r.Excluded(findingSignal)
			c.Signal = "none"
			c.DurationMs = 400
		}
		return c
	}
	vf.Batch(r, r.Pick(8, 100), r.Pick(8, 16), gen, func(c SigCase, o *vf.Obs) error {
		err := checkSignal(c, o)
		var lost *errLost
		if knownEarly && errors.As(err, &lost) && lost.killed {
			// classifier of the known finding: the process was killed by the signal itself
			r.KnownHit(findingEarly)
			return nil
		}
		return err
	})
}

func constGen(c SigCase) func(*rapid.T) SigCase {
	return func(rt *rapid.T) SigCase {
		_ = rapid.Bool().Draw(rt, "unused") // rapid wants a generator to consume something
		return c
	}
}

// TestSignalWitness is the fixed witness of finding signal-exit-before-flush: SIGTERM a
// moment after 300 reports completed, inside phout's first 1 s flush period, the pandora
// process on one CPU. The defect is a race between os.Exit and the aggregator's final
// flush, so the case is tried up to 6 times. While the finding is listed as known this
// only records that the defect is still there; otherwise it is an ordinary (failing) case.
func TestSignalWitness(t *testing.T) {
	r := vf.Start(t, "C06")
	known := r.IsKnown(findingSignal)
	witness := SigCase{Signal: "TERM", Instances: 4, Rps: 5000, Procs: 1, IDs: true, MinReports: 300, ExtraDelayMs: 30, DurationMs: 30000}
	vf.Batch(r, 1, 1, constGen(witness), func(c SigCase, o *vf.Obs) error {
		var err error
		for i := 0; i < 6 && err == nil; i++ {
			err = checkSignal(c, &vf.Obs{})
		}
		o.Class("witness")
		var lost *errLost
		if errors.As(err, &lost) && !lost.killed {
			o.Class("exit_before_flush_reproduced")
			if known {
				r.KnownHit(findingSignal)
				return nil
			}
		}
		return err
	})
}
